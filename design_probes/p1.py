import time, traceback
from nix_manipulator import parse
from nix_manipulator.cli.manipulations import set_value, remove_value
from nix_manipulator.expressions import *
def t(label, f):
    try:
        r=f(); print(label, '->', repr(r))
    except BaseException as e:
        print(label, 'EXC', type(e).__mro__[0].__name__, [c.__name__ for c in type(e).__mro__[1:3]], e)
# C07 leading whitespace w/ error
t('C07 lead', lambda: parse("\n\n{ a = ").rebuild())
t('C07 trail', lambda: parse("{ a = \n\n").rebuild())
# C12 keyword
t('C12 kw', lambda: set_value(parse("{ a = 1; }"), "if", "1"))
t('C12 dup', lambda: set_value(parse("{ foo-bar = 1; }"), '"foo-bar"', "2"))
# C08 exceptions
t('C08 with', lambda: set_value(parse("{ p }: let u = 1; in with p; { a = 1; }"), "a", "2"))
t('C08 ident body', lambda: set_value(parse("{ }: foo"), "a", "2"))
def c08():
    s=parse("# c\n{ a = 1; }\n"); b=s.rebuild()
    try: set_value(s, "@a..b", "1")
    except Exception as e: print('   raised', type(e).__name__, e)
    return b, s.rebuild()
t('C08 mutate-before-raise', c08)
def c08b():
    s=parse("{ a = 1; }\n"); b=s.rebuild()
    try: set_value(s, "b.c.d", "1 +")
    except Exception as e: print('   raised', type(e).__name__, e)
    return b, s.rebuild()
t('C08 b', c08b)
# C13
t('C13 neglist', lambda: (NixList(value=[-1, 2]).rebuild(), parse(NixList(value=[-1,2]).rebuild()).contains_error))
t('C13 float', lambda: (AttributeSet.from_dict({"a": 1e-05}).rebuild(), parse(AttributeSet.from_dict({"a": 1e-05}).rebuild()).contains_error))
t('C13 float big', lambda: (AttributeSet.from_dict({"a": 1e22}).rebuild(), parse(AttributeSet.from_dict({"a": 1e22}).rebuild()).contains_error))
t('C13 neg in list nested', lambda: NixList(value=[[ -1.5 ]]).rebuild())
# C16 newline
import io, contextlib, sys
from nix_manipulator.cli.main import main
def cli(args, stdin):
    old=sys.stdin; sys.stdin=io.StringIO(stdin); out=io.StringIO()
    try:
        with contextlib.redirect_stdout(out):
            rc=main(args)
    finally: sys.stdin=old
    return rc, out.getvalue()
t('C16 set', lambda: cli(["set","a","2"], "{ a = 1; }\n"))
t('C16 test after', lambda: cli(["test"], cli(["set","a","2"], "{ a = 1; }\n")[1]))
# C10 with precedence, cycle
t('C10 with', lambda: parse("let a = 1; in with { a = 2; }; { x = a; }")["x"].value)
def cyc():
    s=parse("rec { a = b; inherit (a) b; }")
    return s["b"].value
t('C10 cycle inherit', cyc)
t('C10 cycle simple', lambda: parse("rec { a = b; b = a; }")["a"].value)
# C14
def c14():
    s=parse("{ a.b = 1; c = 2; }"); del s["a"]; return s.rebuild()
t('C14 del', c14)
