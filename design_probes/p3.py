from nix_manipulator import parse
from nix_manipulator.expressions import *
def t(label, f):
    try:
        r=f(); print(label, '->', repr(r))
    except BaseException as e:
        print(label, 'EXC', type(e).__name__, e)
# purity: scope.owner retarget
def own():
    s=parse("{\n  a = let x = y; y = 1; in { z = x; } # c\n  ;\n}")
    v=s.expr.values[0].value
    before = v.scope.owner is v
    r1=s.rebuild(); 
    after = v.scope.owner is v
    return before, after, r1
t('C15 owner', own)
def own2():
    s=parse("{\n  a = 1; # c\n}")
    b=s.expr.values[0]
    before = b.scope.owner is b
    s.rebuild()
    return before, b.scope.owner is b, b.value.scope.owner is b.value
t('C15 owner2', own2)
def own3():
    s=parse("let y = 2; in {\n  a = let x = y; in { z = x; } # c\n  ;\n}")
    v=s["a"]
    r0 = v["z"].value
    s.rebuild()
    v=s["a"]
    return r0, v.scope.owner is v, v["z"].value
t('C15 owner3 resolution after rebuild', own3)
# C03
for src in ["a.b or /* c */ d", "a . /* c */ b", "a /* c */ .b", "args # c\n@{ }: 1", "x: /* c */ 1", "assert c; body\n# end", "let a = 1; in b\n# end", "{ a = /* c */ 1; }", "a ? /* c */ b", "! /* c */ a", "f /* c */ x", "if /* a */ c /* b */ then /* d */ 1 /* e */ else /* f */ 2", "with /* a */ e /* b */ ; /* c */ b", "{ inherit /* a */ (x) /* b */ y /* c */ ; }", "[ /* a */ 1 /* b */ ]", "( /* a */ 1 /* b */ )", "{ a /* x */ = 1; }", "{ a = 1 /* y */ ; }", "{ a, /* c */ b ? /* d */ 1 }: a", "a: /* c */ b: 1", "a /* c */ : 1", "{ a . /* c */ b = 1; }", "{ ${/* c */ a} = 1; }", "\"${ /* c */ a }\""]:
    t('C03 '+repr(src), lambda: parse(src).rebuild())
