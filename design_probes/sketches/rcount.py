"""Throwaway feasibility sketch: render-count analysis (R-C20-1)."""
import ast, sys
sys.path.insert(0, '/tmp/probe')
from prog import Prog
P = Prog()
RENDER_METHODS = {'rebuild', '_inline_preview', 'simple_inline_preview'}

class Env:
    def __init__(self, parent=None): self.v = {}; self.parent = parent
    def get(self, k):
        e = self
        while e is not None:
            if k in e.v: return e.v[k]
            e = e.parent
        return None
    def set(self, k, val): self.v[k] = val
    def fork(self):
        c = Env(self.parent); c.v = dict(self.v); return c

def part_overlap(a, b):
    if a == b: return True
    if '*' in (a, b): return True
    return False

class RC:
    def __init__(self, cname):
        self.cname = cname; self.depth = 0; self.reports = []
    # keys: (base, part) ; counts: dict key->int
    def addc(self, counts, key, where):
        counts[key] = counts.get(key, 0) + 1
        base, part = key
        tot = 0
        star = counts.get((base, '*'), 0)
        others = [v for (b, p), v in counts.items() if b == base and p != '*']
        tot = star + (max(others) if others else 0)
        if part != '*' and part != '' : tot = star + counts[key]
        if tot >= 2:
            self.reports.append((base, where))
    def keys_of(self, e, env):
        """alias keys of an expression (set of (base,part))"""
        if isinstance(e, ast.Name):
            v = env.get(e.id)
            return v if isinstance(v, set) else set()
        if isinstance(e, ast.Attribute):
            ks = self.keys_of(e.value, env)
            out = set()
            for (b, p) in ks:
                if b == 'self' and p == '': out.add((e.attr, ''))
                elif b.startswith('param:'): out.add((b + '.' + e.attr, ''))
                else:
                    # attribute of a child (e.g. first.expr, value_expr.after): slot access keeps child identity for .expr
                    if e.attr in ('expr', 'value', 'binding'): out.add((b, p))
            return out
        if isinstance(e, ast.Subscript):
            ks = self.keys_of(e.value, env)
            part = '*'
            if isinstance(e.slice, ast.Constant): part = f'[{e.slice.value}]'
            elif isinstance(e.slice, ast.Slice):
                lo = e.slice.lower.value if isinstance(e.slice.lower, ast.Constant) else None
                hi = e.slice.upper.value if isinstance(e.slice.upper, ast.Constant) else None
                part = f'[{lo}:{hi}]' if (lo is not None or hi is not None) else '*'
            return {(b, part) for (b, p) in ks}
        if isinstance(e, ast.Call):
            nm = e.func.attr if isinstance(e.func, ast.Attribute) else getattr(e.func, 'id', None)
            if nm in ('model_copy',) and isinstance(e.func, ast.Attribute): return self.keys_of(e.func.value, env)
            if nm in ('coerce_expression', 'cast', 'list', 'reversed', 'iter', 'enumerate', 'zip') and e.args:
                out = set()
                for a in e.args: out |= self.keys_of(a, env)
                return out
            if nm == '_clone_with_trivia' and e.args: return self.keys_of(e.args[0], env)
            return set()
        if isinstance(e, ast.IfExp): return self.keys_of(e.body, env) | self.keys_of(e.orelse, env)
        return set()
    def ev(self, e, env, counts):
        """evaluate expression for render events"""
        if e is None: return
        if isinstance(e, ast.Call):
            for a in e.args: self.ev(a, env, counts)
            for k in e.keywords: self.ev(k.value, env, counts)
            f = e.func
            if isinstance(f, ast.Attribute):
                self.ev(f.value, env, counts)
                if f.attr in RENDER_METHODS:
                    for key in self.keys_of(f.value, env):
                        if key == ('self', ''): continue
                        self.addc(counts, key, e.lineno)
                    return
                if isinstance(f.value, ast.Name) and f.value.id == 'self':
                    m = P.method(self.cname, f.attr)
                    if m is not None and f.attr not in ('rebuild_scoped', 'model_copy', 'has_scope', 'add_trivia'):
                        self.call(m[1], e, env, counts, selfk={('self', '')}); return
                return
            if isinstance(f, ast.Name):
                v = env.get(f.id)
                if isinstance(v, tuple) and v[0] == 'closure':
                    self.call(v[1], e, env, counts, closure_env=v[2]); return
                if f.id in P.funcs and P.funcs[f.id][2] is None and f.id not in ('coerce_expression', 'format_trivia', 'apply_trailing_trivia'):
                    self.call(P.funcs[f.id][1], e, env, counts); return
            return
        if isinstance(e, (ast.ListComp, ast.GeneratorExp, ast.SetComp)):
            env2 = env.fork()
            for g in e.generators:
                self.ev(g.iter, env2, counts)
                self.bind(g.target, self.elem_keys(g.iter, env2), env2)
            self.ev(e.elt, env2, counts); return
        if isinstance(e, ast.IfExp):
            self.ev(e.test, env, counts)
            c1 = dict(counts); c2 = dict(counts)
            self.ev(e.body, env, c1); self.ev(e.orelse, env, c2)
            self.merge(counts, c1, c2); return
        for ch in ast.iter_child_nodes(e):
            if isinstance(ch, ast.expr): self.ev(ch, env, counts)
    def elem_keys(self, it, env):
        ks = self.keys_of(it, env)
        out = set()
        for (b, p) in ks:
            out.add((b, p if p not in ('',) else '*'))
        return out
    def merge(self, counts, c1, c2):
        for k in set(c1) | set(c2): counts[k] = max(c1.get(k, 0), c2.get(k, 0))
    def bind(self, t, keys, env):
        if isinstance(t, ast.Name): env.set(t.id, set(keys))
        elif isinstance(t, (ast.Tuple, ast.List)):
            for x in t.elts: self.bind(x, keys, env)
    def call(self, fn, callnode, env, counts, selfk=None, closure_env=None):
        if self.depth > 6: return
        self.depth += 1
        try:
            cenv = Env(closure_env if closure_env is not None else None)
            params = [a.arg for a in fn.args.posonlyargs + fn.args.args]
            if selfk is not None and params and params[0] == 'self': cenv.set('self', selfk); params = params[1:]
            for p, a in zip(params, callnode.args): cenv.set(p, self.keys_of(a, env))
            for k in callnode.keywords:
                if k.arg: cenv.set(k.arg, self.keys_of(k.value, env))
            self.block(fn.body, cenv, counts)
        finally:
            self.depth -= 1
    def block(self, stmts, env, counts):
        for s in stmts:
            if self.stmt(s, env, counts): return True
        return False
    def stmt(self, s, env, counts):
        if isinstance(s, ast.Return): self.ev(s.value, env, counts); return True
        if isinstance(s, (ast.Raise, ast.Continue, ast.Break)): return True
        if isinstance(s, (ast.Assign, ast.AnnAssign)):
            if s.value is None: return False
            self.ev(s.value, env, counts)
            ks = self.keys_of(s.value, env)
            for t in (s.targets if isinstance(s, ast.Assign) else [s.target]):
                if isinstance(t, ast.Name): env.set(t.id, ks)
                elif isinstance(t, ast.Tuple):
                    if isinstance(s.value, ast.Tuple):
                        for x, v in zip(t.elts, s.value.elts): self.bind(x, self.keys_of(v, env), env)
                    else:
                        for x in t.elts: self.bind(x, ks, env)
            return False
        if isinstance(s, ast.AugAssign): self.ev(s.value, env, counts); return False
        if isinstance(s, ast.Expr):
            e = s.value
            if isinstance(e, ast.Call) and isinstance(e.func, ast.Attribute) and e.func.attr in ('append', 'extend') and isinstance(e.func.value, ast.Name):
                for a in e.args: self.ev(a, env, counts)
                # local list gets its own identity
                nm = e.func.value.id
                if env.get(nm) is None or not env.get(nm): env.set(nm, {('local:' + nm, '')})
                return False
            self.ev(e, env, counts); return False
        if isinstance(s, ast.FunctionDef): env.set(s.name, ('closure', s, env)); return False
        if isinstance(s, ast.If):
            self.ev(s.test, env, counts)
            e1 = env.fork(); e2 = env.fork(); c1 = dict(counts); c2 = dict(counts)
            t1 = self.block(s.body, e1, c1); t2 = self.block(s.orelse, e2, c2)
            if t1 and t2: self.merge(counts, c1, c2); return True
            if t1: counts.clear(); counts.update(c2); env.v = e2.v; return False
            if t2: counts.clear(); counts.update(c1); env.v = e1.v; return False
            self.merge(counts, c1, c2)
            for k in set(e1.v) | set(e2.v):
                a, b = e1.v.get(k), e2.v.get(k)
                if isinstance(a, set) and isinstance(b, set): env.v[k] = a | b
                else: env.v[k] = a if a is not None else b
            return False
        if isinstance(s, (ast.For,)):
            self.ev(s.iter, env, counts)
            e1 = env.fork(); self.bind(s.target, self.elem_keys(s.iter, env), e1)
            c1 = dict(counts); self.block(s.body, e1, c1); self.merge(counts, dict(counts), c1)
            for k, v in e1.v.items():
                if k not in env.v: env.v[k] = v
            return False
        if isinstance(s, ast.While):
            self.ev(s.test, env, counts); c1 = dict(counts); self.block(s.body, env.fork(), c1); self.merge(counts, dict(counts), c1); return False
        if isinstance(s, (ast.With, ast.Try)):
            return self.block(s.body, env, counts)
        if isinstance(s, ast.Match):
            outs = []
            for c in s.cases:
                cc = dict(counts); self.block(c.body, env.fork(), cc); outs.append(cc)
            for o in outs: self.merge(counts, dict(counts), o)
            return False
        return False

names = [c for c in P.classes if f"{c}.rebuild" in P.funcs]
for c in names:
    rc = RC(c); env = Env(); env.set('self', {('self', '')}); counts = {}
    rc.block(P.funcs[f"{c}.rebuild"][1].body, env, counts)
    reps = sorted(set(rc.reports))
    print(f"{c:22s}", 'DOUBLE:' + str(reps) if reps else 'ok', {k: v for k, v in counts.items() if v})
