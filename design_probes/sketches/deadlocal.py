import ast, pathlib, sys, os
root = pathlib.Path(os.environ.get('SA_ROOT','/repo'))/'nix_manipulator'
def check(root):
    out=[]
    for p in sorted(root.rglob('*.py')):
        tree=ast.parse(p.read_text())
        for fn in ast.walk(tree):
            if not isinstance(fn, ast.FunctionDef): continue
            stores={}; loads=set()
            for n in ast.walk(fn):
                if isinstance(n, ast.Name):
                    if isinstance(n.ctx, ast.Store): stores.setdefault(n.id, n.lineno)
                    else: loads.add(n.id)
                elif isinstance(n, ast.Nonlocal): loads |= set(n.names)
            for name,ln in stores.items():
                if name not in loads and not name.startswith('_'):
                    # skip if it's a nested function's local reported there too
                    out.append((str(p.relative_to(root)), fn.name, name))
    return sorted(set(out))
if __name__=='__main__':
    for x in check(root): print(x)
