"""Sketch: adjacency of child-bearing segments in renderer concatenations (candidate rule R-C01-6)."""
import ast, sys
sys.path.insert(0, '/tmp/probe')
import flow
P = flow.P
COMMENT_SLOTS = {'before','after','between','after_assert_comments','before_semicolon_comments','function_after','import_after','argument_set_inner_trivia','before_colon_comments','after_colon_comment','before_question_comments','after_question_comments','after_question','after_if_comments','before_then_comments','after_then_comments','before_else_comments','after_else_comments','after_let_comment','inner_trivia','attr_before','default_before','after_with_comments','after_semicolon_comments','trailing'}
reports = []
class A2(flow.Analyzer):
    def ev(self, e, env):
        if isinstance(e, ast.JoinedStr):
            segs = []
            for v in e.values:
                if isinstance(v, ast.Constant): segs.append(('LIT', v.value))
                else:
                    av = super().ev(v, env).flat()
                    labs = {l for l in av.d if l in self.content}
                    child = {l for l in labs if l not in COMMENT_SLOTS}
                    segs.append(('CHILD' if child or '*' in av.d else ('TRIVIA' if labs else 'SEP'), ast.unparse(v.value)))
            prev = None
            for kind, txt in segs:
                if kind == 'CHILD':
                    if prev == 'CHILD': reports.append((self.cname, e.lineno, ast.unparse(e)[:90]))
                    prev = 'CHILD'
                elif kind == 'TRIVIA': pass
                else:
                    if kind == 'LIT' and txt == '': continue
                    prev = kind
        return super().ev(e, env)
for c in [c for c in P.classes if 'NixExpression' in P.mro(c) and f"{c}.rebuild" in P.funcs]:
    m = P.method(c, 'rebuild')
    an = A2(c); an.content = [f for f, a in P.fields(c).items() if not flow.is_layout(f, a)]
    try: an.run(m[1], {'self': flow.AV({'*': frozenset()})})
    except RecursionError: print('recursion', c)
for r in sorted(set(reports)): print(r)
