"""Throwaway feasibility sketch: origin-tracking effects + exception-escape + mutate-then-raise (E4/E6)."""
import ast, sys, itertools
sys.path.insert(0, '/tmp/probe')
from prog import Prog
P = Prog()
MUTATORS = {'append','extend','insert','remove','pop','clear','sort','reverse','update','add','discard','setdefault','popitem'}
REGISTRY_ATTRS = {'owner'}
REGISTRY_GLOBALS = {'_CONTEXTS', '_PARSER_LOCAL'}
PURE_FUNCS = {'isinstance','len','bool','any','all','next','iter','enumerate','zip','reversed','sorted','tuple','str','int','id','getattr','hasattr','cast','min','max','repr','print','range','ref','type','super','frozenset','format'}
BUILTIN_EXC = {'ValueError':['ValueError','Exception'],'KeyError':['KeyError','LookupError','Exception'],'TypeError':['TypeError','Exception'],'NotImplementedError':['NotImplementedError','RuntimeError','Exception'],'StopIteration':['StopIteration','Exception'],'ResolutionError':['ResolutionError','Exception'],'NixSyntaxError':['NixSyntaxError','SyntaxError','Exception'],'IndexError':['IndexError','LookupError','Exception'],'AssertionError':['AssertionError','Exception'],'SystemExit':['SystemExit','BaseException']}

class Val:
    __slots__=('own','deep','cls','elem')
    def __init__(self, own=frozenset(), deep=frozenset(), cls=None): self.own=frozenset(own); self.deep=frozenset(deep)|self.own; self.cls=cls
    def __or__(self, o):
        if o is None: return self
        return Val(self.own|o.own, self.deep|o.deep, self.cls if self.cls==o.cls else None)
    def __repr__(self): return f"V(own={set(self.own)},deep={set(self.deep)},{self.cls})"
NONE = Val()

class Summary:
    def __init__(self):
        self.mut_params=set()      # params (names) whose objects may be doc-mutated
        self.reg_params=set()
        self.raises=set()          # exception names escaping
        self.ret=None              # Val in terms of params
        self.raise_after_mut=[]    # reports
        self.mut_sites=[]          # (lineno, text, origins, kind)
        self.clean_raise=True

summaries={}
def ann_cls(ann):
    if ann is None: return None
    t=ast.unparse(ann)
    t=t.strip('"\'')
    for c in P.classes:
        if t==c: return c
    return None

class FnAnalysis:
    def __init__(self, key, argcls=None):
        self.key=key; self.mod,self.fn,self.cls=P.funcs[key]
        self.S=Summary(); self.argcls=argcls or {}
    def run(self):
        fn=self.fn
        env={}
        params=[a.arg for a in fn.args.posonlyargs+fn.args.args+fn.args.kwonlyargs]
        for a in fn.args.posonlyargs+fn.args.args+fn.args.kwonlyargs:
            c = self.argcls.get(a.arg) or ann_cls(a.annotation)
            if a.arg=='self': c=self.cls
            env[a.arg]=Val({a.arg},cls=c)
        self.params=set(params)
        self.dirty_state=False
        self.block(fn.body, env, [], False)
        return self.S
    # ---------- expression evaluation
    def ev(self, e, env, handlers, dirty):
        """returns (Val, dirty) ; records raises/mutations"""
        if e is None or isinstance(e, ast.Constant): return NONE, dirty
        if isinstance(e, ast.Name):
            if e.id in env and isinstance(env[e.id], Val): return env[e.id], dirty
            if e.id in REGISTRY_GLOBALS: return Val({'G:'+e.id}), dirty
            return NONE, dirty
        if isinstance(e, ast.Attribute):
            v,dirty=self.ev(e.value, env, handlers, dirty)
            fcls=None
            if v.cls and v.cls in P.classes:
                ann=P.fields(v.cls).get(e.attr)
                if ann:
                    for c in P.classes:
                        if ann==c or ann.startswith(c+' |') : fcls=c
            return Val(v.deep, v.deep, fcls), dirty
        if isinstance(e, ast.Subscript):
            v,dirty=self.ev(e.value, env, handlers, dirty)
            _,dirty=self.ev(e.slice, env, handlers, dirty)
            # __getitem__ on package classes may raise KeyError etc.
            if v.cls and P.method(v.cls,'__getitem__') and isinstance(e.ctx, ast.Load):
                r,dirty=self.apply(f"{P.method(v.cls,'__getitem__')[2]}.__getitem__", [v, NONE], {}, e, handlers, dirty)
                return (r|Val(v.deep,v.deep)), dirty
            return Val(v.deep, v.deep), dirty
        if isinstance(e, (ast.List, ast.Tuple, ast.Set)):
            acc=NONE
            for x in e.elts:
                v,dirty=self.ev(x, env, handlers, dirty); acc=Val(frozenset(), acc.deep|v.deep)
            return acc, dirty
        if isinstance(e, ast.Dict):
            acc=NONE
            for x in list(e.keys)+list(e.values):
                if x is None: continue
                v,dirty=self.ev(x, env, handlers, dirty); acc=Val(frozenset(), acc.deep|v.deep)
            return acc, dirty
        if isinstance(e, (ast.ListComp, ast.GeneratorExp, ast.SetComp, ast.DictComp)):
            env2=dict(env); acc=NONE
            for g in e.generators:
                it,dirty=self.ev(g.iter, env2, handlers, dirty)
                self.bind(g.target, Val(it.deep,it.deep), env2)
                for c in g.ifs: _,dirty=self.ev(c, env2, handlers, dirty)
            elts=[e.elt] if not isinstance(e, ast.DictComp) else [e.key,e.value]
            for x in elts:
                v,dirty=self.ev(x, env2, handlers, dirty); acc=Val(frozenset(), acc.deep|v.deep)
            return acc, dirty
        if isinstance(e, ast.IfExp):
            _,dirty=self.ev(e.test, env, handlers, dirty)
            a,d1=self.ev(e.body, env, handlers, dirty); b,d2=self.ev(e.orelse, env, handlers, dirty)
            return a|b, d1 or d2
        if isinstance(e, ast.BoolOp):
            acc=NONE
            for x in e.values:
                v,dirty=self.ev(x, env, handlers, dirty); acc=acc|v
            return acc, dirty
        if isinstance(e, (ast.BinOp,)):
            a,dirty=self.ev(e.left, env, handlers, dirty); b,dirty=self.ev(e.right, env, handlers, dirty)
            return Val(frozenset(), a.deep|b.deep), dirty
        if isinstance(e, (ast.UnaryOp,)): return self.ev(e.operand, env, handlers, dirty)
        if isinstance(e, ast.Compare):
            _,dirty=self.ev(e.left, env, handlers, dirty)
            for c in e.comparators: _,dirty=self.ev(c, env, handlers, dirty)
            return NONE, dirty
        if isinstance(e, (ast.JoinedStr, ast.FormattedValue)):
            for ch in ast.iter_child_nodes(e):
                if isinstance(ch, ast.expr): _,dirty=self.ev(ch, env, handlers, dirty)
            return NONE, dirty
        if isinstance(e, ast.Starred): return self.ev(e.value, env, handlers, dirty)
        if isinstance(e, ast.Lambda): return NONE, dirty
        if isinstance(e, ast.NamedExpr):
            v,dirty=self.ev(e.value, env, handlers, dirty); env[e.target.id]=v; return v,dirty
        if isinstance(e, ast.Call): return self.ev_call(e, env, handlers, dirty)
        return NONE, dirty
    def ev_call(self, e, env, handlers, dirty):
        args=[]; 
        for a in e.args:
            v,dirty=self.ev(a, env, handlers, dirty); args.append(v)
        kw={}
        for k in e.keywords:
            v,dirty=self.ev(k.value, env, handlers, dirty)
            if k.arg: kw[k.arg]=v
        f=e.func
        allv=NONE
        for v in args+list(kw.values()): allv=Val(frozenset(), allv.deep|v.deep)
        if isinstance(f, ast.Name):
            n=f.id
            if n in env and isinstance(env[n], tuple) and env[n][0]=='closure':
                return self.inline_closure(env[n], e, args, kw, env, handlers, dirty)
            if n in ('list','dict','set','copy'): return Val(frozenset(), allv.deep), dirty
            if n=='replace' and args:
                return self.model_replace(args[0], set(kw), e, handlers, dirty)
            if n in PURE_FUNCS: return Val(allv.deep, allv.deep) if n in ('next','iter','reversed','cast','getattr','enumerate','zip','sorted','tuple','max','min') else NONE, dirty
            if n in P.classes:
                c=n; r=Val(frozenset(), allv.deep, c)
                for m in ('__init__','__post_init__'):
                    mm=P.method(c,m)
                    if mm:
                        selfv=Val(frozenset(), allv.deep, c)
                        _,dirty=self.apply(f"{mm[2]}.{m}", [selfv]+args, kw, e, handlers, dirty, ctor=True)
                return r, dirty
            if n in P.funcs and P.funcs[n][2] is None:
                return self.apply(n, args, kw, e, handlers, dirty)
            return Val(frozenset(), allv.deep), dirty
        if isinstance(f, ast.Attribute):
            recv,dirty=self.ev(f.value, env, handlers, dirty)
            m=f.attr
            if isinstance(f.value, ast.Call) and isinstance(f.value.func, ast.Name) and f.value.func.id=='super':
                return Val(frozenset(), allv.deep), dirty
            if m in ('model_copy',):
                upd=set()
                for k in e.keywords:
                    if k.arg=='update' and isinstance(k.value, ast.Dict): upd={kk.value for kk in k.value.keys if isinstance(kk, ast.Constant)}
                for a in e.args:
                    if isinstance(a, ast.Dict): upd={kk.value for kk in a.keys if isinstance(kk, ast.Constant)}
                return self.model_replace(recv, upd, e, handlers, dirty, extra=allv)
            # resolve by receiver class
            targets=[]
            if recv.cls and P.method(recv.cls, m): targets=[f"{P.method(recv.cls,m)[2]}.{m}"]
            elif recv.cls is None:
                if m in MUTATORS or m in ('get','items','keys','values','split','join','startswith','endswith','strip','rstrip','lstrip','decode','encode','count','find','rfind','copy','match','search','rebuild','from_cst','format','isspace','lower','read','read_text','read_bytes','is_absolute','write','reset','set','index','removesuffix','splitlines','replace','isidentifier','parse_args','add_argument','add_parser','add_subparsers','print_help','interact'):
                    targets=[]
                else:
                    targets=[k for k,(mn,fn,c) in P.funcs.items() if c and fn.name==m and not k.endswith('#setter')]
            if m in MUTATORS and not targets:
                if recv.own:
                    self.mutation(recv.own, e, 'call .'+m, handlers)
                    dirty = dirty or self.is_doc(recv.own, m)
                return Val(recv.deep, recv.deep), dirty
            if m=='rebuild' and not targets: return NONE, dirty
            res=NONE
            for t in targets:
                r,dirty=self.apply(t, [recv]+args, kw, e, handlers, dirty); res=res|r
            if not targets: res=Val(frozenset(), recv.deep|allv.deep)
            return res, dirty
        return Val(frozenset(), allv.deep), dirty
    def model_replace(self, recv, upd, e, handlers, dirty, extra=NONE):
        c=recv.cls
        newv=Val(frozenset(), recv.deep|extra.deep, c)
        # __post_init__ on the copy: fields not updated alias the original
        classes=[c] if c else ['NixExpression']
        for cc in classes:
            mm=P.method(cc,'__post_init__')
            if mm and 'scope' not in upd:
                # self.scope.owner = self on shared scope
                if recv.deep:
                    self.mutation(recv.deep, e, 'replace()->__post_init__: self.scope.owner = self', handlers, registry=True)
        return newv, dirty
    def is_doc(self, origins, what):
        return any(not o.startswith('G:') for o in origins)
    def mutation(self, origins, node, what, handlers, registry=False):
        for o in origins:
            if o.startswith('G:') or registry: self.S.reg_params.add(o)
            else: self.S.mut_params.add(o)
        self.S.mut_sites.append((node.lineno, what, set(origins), 'registry' if registry else 'doc'))
    def caught(self, exc, handlers):
        sup=BUILTIN_EXC.get(exc,[exc,'Exception'])
        for hs in handlers:
            for h in hs:
                if h is None or h in sup or h=='BaseException': return True
        return False
    def raise_(self, exc, node, handlers, dirty, what):
        if self.caught(exc, handlers): return
        self.S.raises.add(exc)
        if dirty: self.S.raise_after_mut.append((self.key, node.lineno, what, exc, dirty))
    def apply(self, key, args, kw, node, handlers, dirty, ctor=False):
        """apply callee summary"""
        if key==self.key or key in STACK:
            return NONE, dirty
        mn,fn,c=P.funcs[key]
        params=[a.arg for a in fn.args.posonlyargs+fn.args.args]
        argcls={}
        for p_,a in zip(params,args):
            if a.cls: argcls[p_]=a.cls
        for k,a in kw.items():
            if a.cls: argcls[k]=a.cls
        sk=(key, tuple(sorted(argcls.items())))
        if sk not in summaries:
            STACK.append(key)
            try: summaries[sk]=FnAnalysis(key, argcls).run()
            finally: STACK.pop()
        s=summaries[sk]
        amap=dict(zip(params,args)); amap.update(kw)
        # exceptions: callee raise-after-mut reported in callee; here: callee raising while we're dirty
        for exc in s.raises:
            self.raise_(exc, node, handlers, dirty, 'call '+key)
        for p_ in s.mut_params:
            a=amap.get(p_)
            if a is not None and a.own and not ctor:
                self.mutation(a.own, node, f'via {key}({p_})', handlers)
                dirty = dirty or f"{node.lineno}:{key}({p_})"
            elif a is not None and a.own and ctor and p_!='self':
                self.mutation(a.own, node, f'via ctor {key}({p_})', handlers)
                dirty = dirty or f"{node.lineno}:{key}({p_})"
        for p_ in s.reg_params:
            a=amap.get(p_)
            if p_.startswith('G:'): self.S.reg_params.add(p_)
            elif a is not None and a.own: 
                for o in a.own: self.S.reg_params.add(o)
        ret=NONE
        if s.ret is not None:
            own=set(); deep=set()
            for o in s.ret.own:
                if o in amap: own|=amap[o].own; deep|=amap[o].deep
            for o in s.ret.deep:
                if o in amap: deep|=amap[o].deep
            ret=Val(own, deep, s.ret.cls)
        return ret, dirty
    def inline_closure(self, clo, e, args, kw, env, handlers, dirty):
        _,fn,cenv=clo
        env2=cenv  # shared
        params=[a.arg for a in fn.args.posonlyargs+fn.args.args]
        saved={p_:env2.get(p_) for p_ in params+[a.arg for a in fn.args.kwonlyargs]}
        for p_,a in zip(params,args): env2[p_]=a
        for k,a in kw.items(): env2[k]=a
        for a in fn.args.kwonlyargs:
            if a.arg not in kw: env2[a.arg]=NONE
        self.retstack.append(NONE)
        if id(fn) in self.active: return NONE, dirty
        self.active.add(id(fn))
        try:
            d=self.block(fn.body, env2, handlers, dirty, in_closure=True)
        finally:
            self.active.discard(id(fn))
        r=self.retstack.pop()
        for p_,v in saved.items():
            if v is None: env2.pop(p_,None)
            else: env2[p_]=v
        return r, d
    retstack=[]; active=set()
    def bind(self, t, v, env):
        if isinstance(t, ast.Name): env[t.id]=v
        elif isinstance(t,(ast.Tuple,ast.List)):
            for x in t.elts: self.bind(x, Val(v.deep,v.deep), env)
        elif isinstance(t, ast.Starred): self.bind(t.value, v, env)
    # ---------- statements ; returns dirty state (False or description) ; uses exceptions for termination
    def block(self, stmts, env, handlers, dirty, in_closure=False):
        for s in stmts:
            dirty,term=self.stmt(s, env, handlers, dirty, in_closure)
            if term: return ('TERM', dirty)
        return dirty
    def run_block(self, stmts, env, handlers, dirty, in_closure):
        r=self.block(stmts, env, handlers, dirty, in_closure)
        if isinstance(r, tuple): return r[1], True
        return r, False
    def store(self, t, v, env, handlers, dirty, node):
        if isinstance(t, ast.Name): env[t.id]=v; return dirty
        if isinstance(t,(ast.Tuple,ast.List)):
            for x in t.elts: dirty=self.store(x, Val(v.deep,v.deep), env, handlers, dirty, node)
            return dirty
        if isinstance(t, ast.Attribute):
            base,dirty=self.ev(t.value, env, handlers, dirty)
            if base.own:
                reg = t.attr in REGISTRY_ATTRS
                self.mutation(base.own, node, 'store .'+t.attr, handlers, registry=reg)
                if not reg and self.is_doc(base.own, t.attr): dirty = dirty or f"{node.lineno}:{ast.unparse(t)}="
            elif isinstance(t.value, ast.Name) and t.value.id in env:
                old=env[t.value.id]; env[t.value.id]=Val(old.own, old.deep|v.deep, old.cls)
            # property setter
            if base.cls and f"{base.cls}.{t.attr}#setter" in P.funcs:
                _,dirty=self.apply(f"{base.cls}.{t.attr}#setter", [base, v], {}, node, handlers, dirty)
            return dirty
        if isinstance(t, ast.Subscript):
            base,dirty=self.ev(t.value, env, handlers, dirty)
            dunder='__delitem__' if isinstance(node, ast.Delete) else '__setitem__'
            if base.cls and P.method(base.cls, dunder):
                _,dirty=self.apply(f"{P.method(base.cls,dunder)[2]}.{dunder}", [base, NONE, v], {}, node, handlers, dirty)
            elif base.own:
                reg=any(o.startswith('G:') for o in base.own)
                self.mutation(base.own, node, 'subscript '+dunder, handlers, registry=reg)
                if not reg: dirty = dirty or f"{node.lineno}:{ast.unparse(t)}"
            elif isinstance(t.value, ast.Name) and t.value.id in env:
                old=env[t.value.id]; env[t.value.id]=Val(old.own, old.deep|v.deep, old.cls)
            return dirty
        return dirty
    def stmt(self, s, env, handlers, dirty, in_closure):
        if isinstance(s, ast.Return):
            v,dirty=self.ev(s.value, env, handlers, dirty)
            if in_closure: self.retstack[-1]=self.retstack[-1]|v
            else: self.S.ret = v if self.S.ret is None else (self.S.ret|v)
            return dirty, True
        if isinstance(s, ast.Raise):
            exc='ValueError'
            if s.exc is not None:
                exc = (s.exc.func.id if isinstance(s.exc, ast.Call) and isinstance(s.exc.func, ast.Name) else ast.unparse(s.exc))
                if isinstance(s.exc, ast.Call):
                    for a in s.exc.args: _,dirty=self.ev(a, env, handlers, dirty)
            else:
                exc = self.cur_handler_exc[-1] if self.cur_handler_exc else 'Exception'
            self.raise_(exc, s, handlers, dirty, 'raise')
            return dirty, True
        if isinstance(s, (ast.Continue, ast.Break)): return dirty, True
        if isinstance(s, ast.Assert):
            _,dirty=self.ev(s.test, env, handlers, dirty); return dirty, False
        if isinstance(s, ast.Assign):
            v,dirty=self.ev(s.value, env, handlers, dirty)
            for t in s.targets: dirty=self.store(t, v, env, handlers, dirty, s)
            return dirty, False
        if isinstance(s, ast.AnnAssign):
            if s.value is not None:
                v,dirty=self.ev(s.value, env, handlers, dirty)
                c=ann_cls(s.annotation)
                if c and v.cls is None: v=Val(v.own,v.deep,c)
                dirty=self.store(s.target, v, env, handlers, dirty, s)
            return dirty, False
        if isinstance(s, ast.AugAssign):
            v,dirty=self.ev(s.value, env, handlers, dirty)
            cur,dirty=self.ev(s.target, env, handlers, dirty) if not isinstance(s.target, ast.Name) else (env.get(s.target.id,NONE),dirty)
            if isinstance(s.target, ast.Name):
                if isinstance(cur,Val) and cur.own:  # in-place += on shared list
                    self.mutation(cur.own, s, 'augassign', handlers); dirty = dirty or f"{s.lineno}:augassign"
                env[s.target.id]=(cur if isinstance(cur,Val) else NONE)|Val(frozenset(),v.deep)
            else:
                dirty=self.store(s.target, v, env, handlers, dirty, s)
            return dirty, False
        if isinstance(s, ast.Delete):
            for t in s.targets: dirty=self.store(t, NONE, env, handlers, dirty, s)
            return dirty, False
        if isinstance(s, ast.Expr):
            _,dirty=self.ev(s.value, env, handlers, dirty); return dirty, False
        if isinstance(s, ast.FunctionDef): env[s.name]=('closure', s, env); return dirty, False
        if isinstance(s, ast.If):
            _,dirty=self.ev(s.test, env, handlers, dirty)
            pr=self.prune(s.test, env)
            e1=dict(env); e2=dict(env)
            self.narrow(s.test, e1)
            d1,t1=(dirty,True) if pr is False else self.run_block(s.body, e1, handlers, dirty, in_closure)
            d2,t2=(dirty,True) if pr is True else self.run_block(s.orelse, e2, handlers, dirty, in_closure)
            if pr is False: t1=True
            if pr is True: t2=True
            if t1 and t2: return (d1 or d2), (pr is None) or True
            if t1: env.clear(); env.update(e2); return d2, False
            if t2: env.clear(); env.update(e1); return d1, False
            self.join(env, e1, e2); return (d1 or d2), False
        if isinstance(s, (ast.For, ast.While)):
            if isinstance(s, ast.For):
                it,dirty=self.ev(s.iter, env, handlers, dirty); self.bind(s.target, Val(it.deep,it.deep), env)
            else: _,dirty=self.ev(s.test, env, handlers, dirty)
            e1=dict(env)
            d,_=self.run_block(s.body, e1, handlers, dirty, in_closure)
            d,_=self.run_block(s.body, e1, handlers, d, in_closure)
            self.join(env, e1, dict(env))
            d2,t=self.run_block(s.orelse, env, handlers, d or dirty, in_closure)
            return (d or dirty or d2), False
        if isinstance(s, ast.With):
            for it in s.items: _,dirty=self.ev(it.context_expr, env, handlers, dirty)
            d,t=self.run_block(s.body, env, handlers, dirty, in_closure); return d,t
        if isinstance(s, ast.Try):
            hs=[]
            for h in s.handlers:
                if h.type is None: hs.append(None)
                elif isinstance(h.type, ast.Tuple): hs += [ast.unparse(x) for x in h.type.elts]
                else: hs.append(ast.unparse(h.type))
            e0=dict(env)
            d,t=self.run_block(s.body, env, handlers+[hs], dirty, in_closure)
            dh=d; allterm=t
            for h in s.handlers:
                eh=dict(e0)
                self.cur_handler_exc.append(ast.unparse(h.type) if h.type is not None and not isinstance(h.type, ast.Tuple) else 'Exception')
                # handler entered with dirty state = dirty at try entry (callee raised clean) -- conservative: d
                dd,tt=self.run_block(h.body, eh, handlers, dirty, in_closure)
                self.cur_handler_exc.pop()
                if not tt: allterm=False; dh = dh or dd; self.join(env, env, eh)
            df,tf=self.run_block(s.finalbody, env, handlers, dh, in_closure)
            return df, allterm or tf
        if isinstance(s, ast.Match):
            subj,dirty=self.ev(s.subject, env, handlers, dirty)
            ds=[]; allterm=True; outs=[]
            for c in s.cases:
                ec=dict(env)
                # class pattern narrowing
                if isinstance(c.pattern, ast.MatchClass) and isinstance(s.subject, ast.Name):
                    cn=ast.unparse(c.pattern.cls)
                    if subj.cls and cn in P.classes and not (cn in P.mro(subj.cls) or subj.cls in P.mro(cn)):
                        continue
                    old=ec.get(s.subject.id,NONE); ec[s.subject.id]=Val(old.own,old.deep,cn if cn in P.classes else old.cls)
                dd,tt=self.run_block(c.body, ec, handlers, dirty, in_closure)
                if not tt: allterm=False; ds.append(dd); outs.append(ec)
            for o in outs: self.join(env, env, o)
            d=dirty
            for x in ds: d = d or x
            return d, allterm and bool(s.cases)
        return dirty, False
    cur_handler_exc=[]
    def prune(self, test, env):
        """isinstance(x, K) with known unrelated class -> False ; `x is None` unknown"""
        if isinstance(test, ast.Call) and isinstance(test.func, ast.Name) and test.func.id=='isinstance' and isinstance(test.args[0], ast.Name):
            v=env.get(test.args[0].id)
            if isinstance(v,Val) and v.cls:
                ks=[ast.unparse(x) for x in (test.args[1].elts if isinstance(test.args[1], ast.Tuple) else [test.args[1]])]
                rel=[k for k in ks if k in P.classes and (k in P.mro(v.cls) or v.cls in P.mro(k))]
                if all(k in P.classes for k in ks) and not rel: return False
                if any(k in P.mro(v.cls) for k in ks): return True
        if isinstance(test, ast.UnaryOp) and isinstance(test.op, ast.Not):
            r=self.prune(test.operand, env)
            return None if r is None else (not r)
        return None
    def narrow(self, test, env):
        if isinstance(test, ast.Call) and isinstance(test.func, ast.Name) and test.func.id=='isinstance' and isinstance(test.args[0], ast.Name) and isinstance(test.args[1], ast.Name):
            v=env.get(test.args[0].id)
            if isinstance(v,Val) and test.args[1].id in P.classes: env[test.args[0].id]=Val(v.own,v.deep,test.args[1].id)
        if isinstance(test, ast.BoolOp) and isinstance(test.op, ast.And):
            for x in test.values: self.narrow(x, env)
    def join(self, env, e1, e2):
        out={}
        for k in set(e1)|set(e2):
            a,b=e1.get(k),e2.get(k)
            if isinstance(a,tuple) or isinstance(b,tuple): out[k]=a if isinstance(a,tuple) else b
            elif a is None: out[k]=b
            elif b is None: out[k]=a
            else: out[k]=a|b
        env.clear(); env.update(out)
STACK=[]
def summarize(key, argcls=None):
    sk=(key, tuple(sorted((argcls or {}).items())))
    if sk not in summaries:
        STACK.append(key)
        try: summaries[sk]=FnAnalysis(key, argcls).run()
        finally: STACK.pop()
    return summaries[sk]
if __name__=='__main__':
    roots=sys.argv[1:] or ['set_value','remove_value','AttributeSet.__setitem__','AttributeSet.__delitem__','Scope.__setitem__','Scope.__delitem__','NixSourceCode.__setitem__','NixSourceCode.__delitem__','Identifier.value#setter','LetExpression.__setitem__','LetExpression.__delitem__']
    for r in roots:
        s=summarize(r)
        print(r,'raises=',sorted(s.raises),'mut_params=',sorted(s.mut_params),'reg=',sorted(s.reg_params))
    print('--- raise-after-mutation reports')
    seen=set()
    for sk,s in summaries.items():
        for rep in s.raise_after_mut:
            k=(rep[0],rep[1],rep[3])
            if k in seen: continue
            seen.add(k); print('  ',rep)
    print('summaries:',len(summaries))
