"""Throwaway feasibility sketch: program model over /repo/nix_manipulator (ast only)."""
import ast, pathlib
import os
ROOT = pathlib.Path(os.environ.get('SA_ROOT', '/repo') + '/nix_manipulator')
class Prog:
    def __init__(self, root=ROOT):
        self.mods = {}
        for p in sorted(root.rglob('*.py')):
            name = 'nix_manipulator.' + '.'.join(p.relative_to(root).with_suffix('').parts)
            name = name.removesuffix('.__init__')
            self.mods[name] = (p, ast.parse(p.read_text(), str(p)))
        self.classes = {}   # name -> (mod, ClassDef)
        self.funcs = {}     # qualname -> (mod, FunctionDef, clsname|None)
        for mn, (p, tree) in self.mods.items():
            for n in tree.body:
                if isinstance(n, ast.ClassDef):
                    self.classes[n.name] = (mn, n)
                    for s in n.body:
                        if isinstance(s, ast.FunctionDef):
                            key = f"{n.name}.{s.name}"
                            if key in self.funcs:  # property setter
                                key += "#setter"
                            self.funcs[key] = (mn, s, n.name)
                elif isinstance(n, ast.FunctionDef):
                    self.funcs[n.name] = (mn, n, None)
    def bases(self, cname):
        out = []
        if cname not in self.classes: return out
        for b in self.classes[cname][1].bases:
            bn = b.id if isinstance(b, ast.Name) else (b.value.id if isinstance(b, ast.Subscript) and isinstance(b.value, ast.Name) else None)
            if bn:
                out.append(bn); out.extend(self.bases(bn))
        return out
    def mro(self, cname): return [cname] + self.bases(cname)
    def fields(self, cname):
        res = {}
        for c in reversed(self.mro(cname)):
            if c not in self.classes: continue
            for s in self.classes[c][1].body:
                if isinstance(s, ast.AnnAssign) and isinstance(s.target, ast.Name):
                    ann = ast.unparse(s.annotation)
                    if ann.startswith('ClassVar'): continue
                    res[s.target.id] = ann
        return res
    def method(self, cname, mname):
        for c in self.mro(cname):
            if f"{c}.{mname}" in self.funcs: return self.funcs[f"{c}.{mname}"]
        return None
    def subclasses(self, cname):
        return [c for c in self.classes if cname in self.mro(c)]
