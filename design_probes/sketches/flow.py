"""Throwaway feasibility sketch of the content must-flow analysis (E2/C03-B)."""
import ast, sys, copy
sys.path.insert(0, '/tmp/probe')
from prog import Prog
P = Prog()

class AV:
    """label -> frozenset of drop records (site, branch, testlabels)"""
    __slots__ = ('d', 'tup')
    def __init__(self, d=None, tup=None):
        self.d = dict(d or {}); self.tup = tup
    def labels(self): 
        s = set(self.d)
        if self.tup:
            for t in self.tup: s |= t.labels()
        return s
    def flat(self):
        if not self.tup: return self
        r = AV(self.d)
        for t in self.tup: r = cat(r, t.flat())
        return r
    def __repr__(self): return f"AV({ {k: sorted(x[0:2] for x in v) for k,v in self.d.items()} }{' T' if self.tup else ''})"
EMPTY = AV()
def cat(a, b):
    a = a.flat(); b = b.flat()
    d = dict(a.d)
    for k, v in b.d.items():
        d[k] = (d[k] & v) if k in d else v
    return AV(d)
def cat_all(avs):
    r = AV()
    for a in avs: r = cat(r, a)
    return r
def join(a, b, site, tl):
    if a.tup and b.tup and len(a.tup) == len(b.tup):
        return AV(tup=[join(x, y, site, tl) for x, y in zip(a.tup, b.tup)])
    a = a.flat(); b = b.flat(); d = {}
    for k in set(a.d) | set(b.d):
        if k in a.d and k in b.d: d[k] = a.d[k] | b.d[k]
        elif k in a.d: d[k] = a.d[k] | {(site, 'else', tl)}
        else: d[k] = b.d[k] | {(site, 'body', tl)}
    return AV(d)

class Term(Exception): pass

class Analyzer:
    def __init__(self, cname):
        self.cname = cname
        self.returns = []   # (lineno, AV, conds)
        self.depth = 0
    def run(self, fn, env, conds=(), share=False):
        """execute function body; return joined AV of returns"""
        saved = self.returns; self.returns = []
        if not share: env = dict(env)
        self.block(fn.body, env, list(conds))
        rets = self.returns; self.returns = saved
        return rets
    def call_fn(self, fn, argavs, kwavs, selfav=None, closure_env=None):
        if self.depth > 8: return cat_all(list(argavs) + list(kwavs.values()))
        self.depth += 1
        try:
            shared = closure_env is not None
            env = closure_env if shared else {}
            params = [a.arg for a in fn.args.posonlyargs + fn.args.args]
            saved = {p: env.get(p) for p in params + [a.arg for a in fn.args.kwonlyargs]} if shared else {}
            if selfav is not None and params and params[0] in ('self', 'cls'):
                env[params[0]] = selfav; params = params[1:]
            for p in params + [a.arg for a in fn.args.kwonlyargs]: env[p] = EMPTY
            for p, a in zip(params, argavs): env[p] = a
            for k, a in kwavs.items(): env[k] = a
            rets = self.run(fn, env, share=shared)
            if shared:
                for p, v in saved.items():
                    if v is None: env.pop(p, None)
                    else: env[p] = v
            if not rets: return EMPTY
            out = rets[0][1]
            for r in rets[1:]:
                out = join(out, r[1], ('ret', r[0]), frozenset(['<multi-return>']))
            # multi-return joins inside helpers: treat as content tests (not reported) via special label
            return out
        finally:
            self.depth -= 1
    def ev(self, e, env):
        if e is None or isinstance(e, ast.Constant): return EMPTY
        if isinstance(e, ast.Name): return env.get(e.id, EMPTY)
        if isinstance(e, ast.Attribute):
            if isinstance(e.value, ast.Name) and e.value.id == 'self' and self.is_self(env):
                return AV({e.attr: frozenset()})
            base = self.ev(e.value, env).flat()
            if '*' in base.d and len(base.d) == 1:
                return AV({e.attr: frozenset()})
            return base
        if isinstance(e, ast.JoinedStr): return cat_all(self.ev(v, env) for v in e.values)
        if isinstance(e, ast.FormattedValue): return self.ev(e.value, env)
        if isinstance(e, ast.BinOp): return cat(self.ev(e.left, env), self.ev(e.right, env))
        if isinstance(e, ast.BoolOp): return cat_all(self.ev(v, env) for v in e.values)
        if isinstance(e, ast.UnaryOp): return self.ev(e.operand, env)
        if isinstance(e, ast.Compare): return cat_all([self.ev(e.left, env)] + [self.ev(c, env) for c in e.comparators])
        if isinstance(e, ast.IfExp):
            tl = frozenset(self.ev(e.test, env).labels())
            return join(self.ev(e.body, env), self.ev(e.orelse, env), ('ifexp', e.lineno), tl)
        if isinstance(e, ast.Subscript): return self.ev(e.value, env).flat()
        if isinstance(e, ast.Tuple):
            return AV(tup=[self.ev(x, env) for x in e.elts])
        if isinstance(e, (ast.List, ast.Set)): return cat_all(self.ev(x, env) for x in e.elts)
        if isinstance(e, ast.Dict): return cat_all(self.ev(x, env) for x in list(e.keys) + list(e.values) if x is not None)
        if isinstance(e, ast.Starred): return self.ev(e.value, env)
        if isinstance(e, (ast.ListComp, ast.GeneratorExp, ast.SetComp)):
            env2 = dict(env)
            for g in e.generators:
                it = self.ev(g.iter, env2).flat()
                self.bind(g.target, it, env2)
            return cat(self.ev(e.elt, env2), cat_all(self.ev(g.iter, env2) for g in e.generators))
        if isinstance(e, ast.Lambda): return EMPTY
        if isinstance(e, ast.Call): return self.ev_call(e, env)
        if isinstance(e, ast.NamedExpr):
            v = self.ev(e.value, env); env[e.target.id] = v; return v
        return EMPTY
    def is_self(self, env):
        return True
    def ev_call(self, e, env):
        args = [self.ev(a, env) for a in e.args]
        kw = {k.arg: self.ev(k.value, env) for k in e.keywords if k.arg}
        f = e.func
        if isinstance(f, ast.Name):
            v = env.get(f.id)
            if isinstance(v, tuple) and v[0] == 'closure':
                return self.call_fn(v[1], args, kw, closure_env=v[2])
            if f.id in P.funcs and P.funcs[f.id][2] is None:
                fn = P.funcs[f.id][1]
                return self.call_fn(fn, args, kw)
            return cat_all(args + list(kw.values()))
        if isinstance(f, ast.Attribute):
            recv = f.value
            if isinstance(recv, ast.Name) and recv.id == 'self':
                m = P.method(self.cname, f.attr)
                if m is not None and f.attr not in ('rebuild',):
                    if f.attr in ('rebuild_scoped', 'model_copy', 'has_scope'):
                        return AV({'*': frozenset()})
                    impls = [m[1]] + [P.funcs[f"{c}.{f.attr}"][1] for c in P.subclasses(self.cname) if c != m[2] and f"{c}.{f.attr}" in P.funcs]
                    outs = [self.call_fn(fn_, args, kw, selfav=AV({'*': frozenset()})) for fn_ in impls]
                    outs = [o for o in outs if o.labels()] or outs
                    acc = outs[0]
                    for o in outs[1:]: acc = join(acc, o, ('dispatch', e.lineno), frozenset(['<multi-return>']))
                    return acc
            r = self.ev(recv, env).flat()
            return cat_all([r] + args + list(kw.values()))
        return cat_all(args + list(kw.values()))
    def bind(self, t, av, env):
        if isinstance(t, ast.Name): env[t.id] = av
        elif isinstance(t, (ast.Tuple, ast.List)):
            if av.tup and len(av.tup) == len(t.elts):
                for x, a in zip(t.elts, av.tup): self.bind(x, a, env)
            else:
                for x in t.elts: self.bind(x, av.flat(), env)
        elif isinstance(t, ast.Attribute):
            if isinstance(t.value, ast.Name):
                env[t.value.id] = cat(env.get(t.value.id, EMPTY), av)
        elif isinstance(t, ast.Subscript):
            if isinstance(t.value, ast.Name):
                env[t.value.id] = cat(env.get(t.value.id, EMPTY), av)
        elif isinstance(t, ast.Starred): self.bind(t.value, av, env)
    def block(self, stmts, env, conds):
        """returns True if block always terminates (return/raise)"""
        for s in stmts:
            if self.stmt(s, env, conds): return True
        return False
    def stmt(self, s, env, conds):
        if isinstance(s, ast.Return):
            self.returns.append((s.lineno, self.ev(s.value, env), tuple(conds))); return True
        if isinstance(s, ast.Raise): return True
        if isinstance(s, (ast.Assign,)):
            v = self.ev(s.value, env)
            for t in s.targets: self.bind(t, v, env)
            return False
        if isinstance(s, ast.AnnAssign):
            if s.value is not None: self.bind(s.target, self.ev(s.value, env), env)
            return False
        if isinstance(s, ast.AugAssign):
            v = self.ev(s.value, env)
            cur = self.ev(s.target, env) if not isinstance(s.target, ast.Name) else env.get(s.target.id, EMPTY)
            self.bind(s.target, cat(cur, v) if isinstance(s.target, ast.Name) else v, env)
            return False
        if isinstance(s, ast.Expr):
            e = s.value
            if isinstance(e, ast.Call) and isinstance(e.func, ast.Attribute) and e.func.attr in ('append', 'extend', 'insert', 'add', 'update') and isinstance(e.func.value, ast.Name):
                v = cat_all(self.ev(a, env) for a in e.args)
                env[e.func.value.id] = cat(env.get(e.func.value.id, EMPTY), v)
            else:
                self.ev(e, env)
            return False
        if isinstance(s, ast.FunctionDef):
            env[s.name] = ('closure', s, env); return False
        if isinstance(s, ast.If):
            tl = frozenset(self.ev(s.test, env).labels())
            site = ('if', s.lineno)
            e1 = dict(env); e2 = dict(env)
            t1 = self.block(s.body, e1, conds + [(site, 'body', tl)])
            t2 = self.block(s.orelse, e2, conds + [(site, 'else', tl)])
            if t1 and t2: return True
            if t1:
                env.clear(); env.update(e2); conds.append((site, 'else', tl)); return False
            if t2:
                env.clear(); env.update(e1); conds.append((site, 'body', tl)); return False
            self.join_env(env, e1, e2, site, tl); return False
        if isinstance(s, (ast.For, ast.While)):
            site = ('loop', s.lineno)
            if isinstance(s, ast.For):
                it = self.ev(s.iter, env).flat(); tl = frozenset(it.labels())
            else:
                tl = frozenset(self.ev(s.test, env).labels()); it = None
            e1 = dict(env)
            if it is not None: self.bind(s.target, it, e1)
            for _ in range(2):
                self.block(s.body, e1, conds + [(site, 'body', tl)])
                if it is not None: self.bind(s.target, it, e1)
            self.join_env(env, e1, dict(env), site, tl)
            self.block(s.orelse, env, conds)
            return False
        if isinstance(s, ast.With):
            return self.block(s.body, env, conds)
        if isinstance(s, ast.Try):
            e0 = dict(env)
            t = self.block(s.body, env, conds)
            for h in s.handlers:
                eh = dict(e0); self.block(h.body, eh, conds)
            self.block(s.finalbody, env, conds)
            return False
        if isinstance(s, ast.Match):
            tl = frozenset(self.ev(s.subject, env).labels()); site = ('match', s.lineno)
            outs = []
            for c in s.cases:
                ec = dict(env)
                if not self.block(c.body, ec, conds + [(site, 'case', tl)]): outs.append(ec)
            if not outs: return True
            acc = outs[0]
            for o in outs[1:]:
                tmp = {}; self.join_env(tmp, acc, o, site, tl); acc = tmp
            env.clear(); env.update(acc); return False
        return False
    def join_env(self, env, e1, e2, site, tl):
        out = {}
        for k in set(e1) | set(e2):
            a = e1.get(k, EMPTY); b = e2.get(k, EMPTY)
            if isinstance(a, tuple) or isinstance(b, tuple):
                out[k] = a if isinstance(a, tuple) else b; continue
            out[k] = a if a is b else join(a, b, site, tl)
        env.clear(); env.update(out)

LAYOUT_NAME_HINTS = ('_gap', '_gaps', 'multiline', '_on_newline', '_indent', '_lines', 'breaks_', '_blank_line', 'inline', 'inner_indent', 'space_after_hash', 'nested', 'raw_string', 'scope', 'scope_state', 'attrpath_order', 'source_path', 'before_formals')
def is_layout(f, ann):
    return any(h in f for h in LAYOUT_NAME_HINTS)

def check(cname):
    m = P.method(cname, 'rebuild')
    if m is None or m[2] not in P.mro(cname): return
    if m[2] != cname and cname not in ('MultilineComment',): 
        pass
    fields = P.fields(cname)
    content = [f for f, a in fields.items() if not is_layout(f, a)]
    an = Analyzer(cname)
    rets = an.run(m[1], {'self': AV({'*': frozenset()})})
    print(f"== {cname} ({m[2]}.rebuild) content={content} returns={len(rets)}")
    for ordinal, (ln, av, conds) in enumerate(sorted(rets, key=lambda r: r[0])):
        ln = f"{ln}#{ordinal}"
        av = av.flat()
        if '*' in av.d and not av.d['*']: continue
        for f in content:
            if f in av.d or '*' in av.d:
                for (site, br, tl) in av.d.get(f, av.d.get('*', ())):
                    if f in tl or '<multi-return>' in tl: continue
                    contentish = [x for x in tl if x in content]
                    tag = 'LAYOUT-DROP' if not contentish else 'content-drop'
                    print(f"   ret@{ln}: {f} {tag} at {site} branch-lacking={br} test={sorted(tl)}")
            else:
                guards = [c for c in conds if f in c[2]]
                cont = [c for c in conds if any(x in content for x in c[2])]
                tag = 'ok-guarded' if guards else ('content-guard' if cont else 'NEVER')
                if tag != 'ok-guarded':
                    print(f"   ret@{ln}: {f} absent [{tag}] conds={[(c[0], c[1], sorted(c[2])) for c in conds]}")
if __name__ == '__main__':
    names = sys.argv[1:] or [c for c in P.classes if 'NixExpression' in P.mro(c) and f"{c}.rebuild" in P.funcs]
    for c in names: check(c)
