"""Throwaway feasibility sketch: comment-gap coverage in from_cst (R-C03-1)."""
import ast, sys
sys.path.insert(0, '/tmp/probe')
from prog import Prog
P = Prog()
COLLECT2 = {'collect_comments_between_with_gap', 'collect_comment_trivia_between', '_collect_comment_trivia_between'}
PRODUCTIONS = {
 'Assertion': ['tok:assert', 'field:condition', 'tok:;', 'field:body'],
 'WithStatement': ['tok:with', 'field:environment', 'tok:;', 'field:body'],
 'LetExpression': ['tok:let', 'kind:binding_set?', 'tok:in', 'field:body', 'END'],
 'IfExpression': ['tok:if', 'field:condition', 'tok:then', 'field:consequence', 'tok:else', 'field:alternative'],
 'HasAttrExpression': ['field:expression', 'tok:?', 'field:attrpath'],
 'UnaryExpression': ['pos:0', 'pos:1'],
 'BinaryExpression': ['pos:0', 'pos:1', 'pos:2', 'END'],
 'FunctionCall': ['field:function', 'field:argument'],
 'Select': ['field:expression', 'tok:.', 'field:attrpath', 'tok:or?', 'field:default?'],
 'FunctionDefinition': ['ARGS', 'tok::', 'field:body'],
 'Inherit': ['tok:inherit', 'tok:(?', 'field:expression?', 'tok:)?', 'kind:inherited_attrs', 'tok:;'],
}
GENERIC_CALLS = {'parse_delimited_sequence', 'parse_binding_sequence', 'process_list'}

def anchor_of(expr, env):
    """map an expression to an anchor symbol"""
    if isinstance(expr, ast.Name): return env.get(expr.id)
    if isinstance(expr, ast.Call):
        f = expr.func
        if isinstance(f, ast.Attribute) and f.attr == 'child_by_field_name' and expr.args and isinstance(expr.args[0], ast.Constant):
            return 'field:' + expr.args[0].value
        if isinstance(f, ast.Name) and f.id == 'next' and expr.args and isinstance(expr.args[0], ast.GeneratorExp):
            g = expr.args[0]
            for comp in g.generators:
                for cond in comp.ifs:
                    t = type_test(cond)
                    if t: return 'tok:' + t
    if isinstance(expr, ast.IfExp):
        return anchor_of(expr.body, env) or anchor_of(expr.orelse, env)
    if isinstance(expr, ast.Subscript) and isinstance(expr.slice, ast.Constant) and isinstance(expr.slice.value, int):
        base = expr.value
        if isinstance(base, ast.Name) and env.get(base.id) == 'LIST:noncomment':
            return f'pos:{expr.slice.value}'
    return None
def type_test(cond):
    # child.type == "T"
    if isinstance(cond, ast.Compare) and len(cond.ops) == 1 and isinstance(cond.ops[0], ast.Eq):
        l, r = cond.left, cond.comparators[0]
        if isinstance(l, ast.Attribute) and l.attr == 'type' and isinstance(r, ast.Constant): return r.value
    return None
def is_noncomment_list(expr):
    # [child for child in node.children if child.type != "comment"]
    if isinstance(expr, ast.ListComp):
        for comp in expr.generators:
            for cond in comp.ifs:
                if isinstance(cond, ast.Compare) and isinstance(cond.ops[0], ast.NotEq):
                    l, r = cond.left, cond.comparators[0]
                    if isinstance(l, ast.Attribute) and l.attr == 'type' and isinstance(r, ast.Constant) and r.value == 'comment': return True
    return False
def byte_filter(expr, env):
    """[c for c in comments if A.end_byte <= c.start_byte < B.start_byte] -> (A,B)"""
    if not isinstance(expr, ast.ListComp): return None
    lo = hi = None; found = False
    for comp in expr.generators:
        for cond in comp.ifs:
            for c in ast.walk(cond):
                if isinstance(c, ast.Compare):
                    terms = [c.left] + list(c.comparators)
                    for i, (a, op, b) in enumerate(zip(terms, c.ops, terms[1:])):
                        sa, sb = side(a, env), side(b, env)
                        if sa and sb:
                            (na, ea), (nb, eb) = sa, sb
                            # anchor.end <= comment.start  => lo ; comment.start < anchor.start => hi
                            if na != 'COMMENT' and nb == 'COMMENT' and isinstance(op, (ast.LtE, ast.Lt)): lo = na; found = True
                            if na == 'COMMENT' and nb != 'COMMENT' and isinstance(op, (ast.Lt, ast.LtE)): hi = nb; found = True
                            if na == 'COMMENT' and nb != 'COMMENT' and isinstance(op, (ast.GtE, ast.Gt)): lo = nb; found = True
    return (lo or 'START', hi or 'END') if found else None
def side(e, env):
    if isinstance(e, ast.Attribute) and e.attr in ('start_byte', 'end_byte') and isinstance(e.value, ast.Name):
        a = env.get(e.value.id)
        if a and not a.startswith('LIST'): return (a, e.attr)
        return ('COMMENT', e.attr)
    return None

def analyze(cname, fn, extra_env=None):
    env = dict(extra_env or {}); routes = []; generic = []; notes = []
    lists = {}
    closures = {}
    def visit(stmts):
        for s in stmts:
            if isinstance(s, ast.FunctionDef): closures[s.name] = s; continue
            if isinstance(s, (ast.Assign, ast.AnnAssign)) :
                val = s.value; tgts = s.targets if isinstance(s, ast.Assign) else [s.target]
                if val is None: continue
                if is_noncomment_list(val):
                    for t in tgts:
                        if isinstance(t, ast.Name): env[t.id] = 'LIST:noncomment'
                bf = byte_filter(val, env)
                if bf:
                    for t in tgts:
                        if isinstance(t, ast.Name): lists[t.id] = bf
                for t in tgts:
                    if isinstance(t, ast.Name):
                        a = anchor_of(val, env)
                        if a: env[t.id] = a
                    elif isinstance(t, ast.Tuple):
                        if isinstance(val, ast.Name) and env.get(val.id) == 'LIST:noncomment':
                            for i, e in enumerate(t.elts):
                                if isinstance(e, ast.Name): env[e.id] = f'pos:{i}'
                        elif isinstance(val, ast.Tuple):
                            for e, v in zip(t.elts, val.elts):
                                a = anchor_of(v, env)
                                if a and isinstance(e, ast.Name): env[e.id] = a
            if isinstance(s, ast.For):
                # for child in node.children: if child.type == "T": X = child
                for sub in ast.walk(s):
                    if isinstance(sub, ast.If):
                        t = type_test(sub.test)
                        if t:
                            for b in sub.body:
                                if isinstance(b, ast.Assign) and isinstance(b.targets[0], ast.Name) and isinstance(b.value, ast.Name) and b.value.id == getattr(s.target, 'id', None):
                                    env[b.targets[0].id] = ('tok:' if not t.isidentifier() or t in ('if','then','else','let','in','with','assert','inherit','or','rec') else 'kind:') + t
                        # generic loop with comment arm
                    if isinstance(sub, ast.If) and type_test(sub.test) == 'comment' or (isinstance(sub, ast.If) and isinstance(sub.test, ast.BoolOp) and any(type_test(v) == 'comment' for v in sub.test.values)):
                        it = ast.unparse(s.iter)
                        generic.append(('loop-with-comment-arm', it, s.lineno))
                visit(s.body); visit(s.orelse); continue
            if isinstance(s, (ast.If,)):
                visit(s.body); visit(s.orelse); continue
            if isinstance(s, (ast.With, ast.Try, ast.While)):
                visit(s.body); continue
        
    visit(fn.body)
    # second pass: calls
    for n in ast.walk(fn):
        if isinstance(n, ast.Call):
            nm = n.func.id if isinstance(n.func, ast.Name) else (n.func.attr if isinstance(n.func, ast.Attribute) else None)
            if nm in COLLECT2:
                args = list(n.args) + [k.value for k in n.keywords if k.arg in ('start', 'end')]
                kw = {k.arg: k.value for k in n.keywords}
                st = kw.get('start', n.args[2] if len(n.args) > 2 else None); en = kw.get('end', n.args[3] if len(n.args) > 3 else None)
                routes.append((anchor_of(st, env) or '?' + ast.unparse(st), anchor_of(en, env) or '?' + ast.unparse(en), nm, n.lineno))
            elif nm == 'collect_trailing_comment_trivia':
                st = n.args[2]
                routes.append((anchor_of(st, env) or '?' + ast.unparse(st), 'END', nm, n.lineno))
            elif nm in closures and closures[nm].args.args and any(isinstance(c, ast.Call) and getattr(c.func, 'id', None) in COLLECT2 for c in ast.walk(closures[nm])):
                if len(n.args) >= 2:
                    routes.append((anchor_of(n.args[0], env) or '?' + ast.unparse(n.args[0]), anchor_of(n.args[1], env) or '?' + ast.unparse(n.args[1]), 'closure:' + nm, n.lineno))
            elif nm in GENERIC_CALLS:
                generic.append((nm, ast.unparse(n.args[1]) if len(n.args) > 1 else '', n.lineno))
    for v, bf in lists.items():
        routes.append((bf[0], bf[1], 'filter:' + v, 0))
    return env, routes, generic

for cname in ['Assertion','WithStatement','LetExpression','IfExpression','HasAttrExpression','UnaryExpression','BinaryExpression','FunctionCall','Select','Inherit','Parenthesis','NixList','AttributeSet','Binding','NixSourceCode']:
    m = P.method(cname, 'from_cst')
    fns = [m[1]]
    if cname == 'BinaryExpression': fns.append(P.funcs['_collect_binary_comment_trivia'][1])
    if cname == 'NixList': fns.append(P.funcs['process_list'][1])
    print('==', cname)
    for fn in fns:
        extra = {}
        if fn.name == '_collect_binary_comment_trivia': extra = {'left_node': 'pos:0', 'operator_node': 'pos:1', 'right_node': 'pos:2'}
        env, routes, generic = analyze(cname, fn, extra)
        anchors = {k: v for k, v in env.items() if not v.startswith('LIST')}
        print('   anchors', anchors)
        for r in routes: print('   route', r)
        for g in generic: print('   generic', g)
m = P.funcs['_collect_colon_trivia']; env, routes, generic = analyze('FunctionDefinition', m[1], {'body_node': 'field:body'})
print('== FunctionDefinition._collect_colon_trivia'); print('   anchors', env); [print('   route', r) for r in routes]
