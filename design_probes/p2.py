import time
from nix_manipulator import parse
from nix_manipulator.parser import parse_to_ast
from nix_manipulator.expressions.list import NixList
from nix_manipulator.expressions import *
def t(label, f):
    try:
        r=f(); print(label, '->', repr(r))
    except BaseException as e:
        print(label, 'EXC', type(e).__name__, e)
t('C13 neglist', lambda: (NixList(value=[-1, 2]).rebuild(), parse(NixList(value=[-1,2]).rebuild()).contains_error))
t('C13 float cst', lambda: parse_to_ast("{ a = 1e-05; }").children[0].children[1].children[0].children[2])
t('C13 float cst2', lambda: str(parse_to_ast("{ a = 1e-05; }")))
t('C13 call in list', lambda: (NixList(value=[FunctionCall(name="f", argument=1)]).rebuild()))
def timing(name, mk, depths):
    for d in depths:
        src=mk(d); t0=time.perf_counter(); s=parse(src); r=s.rebuild(); dt=time.perf_counter()-t0
        print(f'  {name} depth={d} {dt:.3f}s same={r==src}')
timing('lambda', lambda d: "".join(f"a{i}: " for i in range(d))+"1", [10,12,14,16])
timing('with', lambda d: "".join(f"with a{i};\n" for i in range(d))+"f x", [10,12,14,16])
timing('with-set', lambda d: "".join(f"with a{i}; " for i in range(d))+"{\n  a = 1;\n}", [10,14,16])
timing('binary', lambda d: "".join(f"a{i}\n++ (" for i in range(d))+"z"+")"*d, [10,12,14,16])
timing('binary-right', lambda d: "".join(f"a{i} ->\n" for i in range(d))+"z", [10,12,14,16])
timing('assert-cond', lambda d: "".join("assert (" for i in range(d))+"true"+"; x)"*d , [8,10,12,14])
timing('inherit', lambda d: "".join("{ inherit (" for i in range(d))+"z"+") a; }"*d , [8,10,12,14])
timing('if', lambda d: "".join(f"if a{i} then b else " for i in range(d))+"z", [10,14,18])
timing('list', lambda d: "["*d + " 1 " + "]"*d, [10,14,18])
timing('paren', lambda d: "("*d + "1" + ")"*d, [10,14,18])
timing('let', lambda d: "".join(f"let a{i} = 1; in\n" for i in range(d))+"z", [10,14,18])
