from nix_manipulator import parse
from nix_manipulator.cli.manipulations import set_value, remove_value
def t(label, f):
    try:
        r=f(); print(label, '->', repr(r))
    except BaseException as e:
        print(label, 'EXC', type(e).__name__, e)
for src in ["let /* c */ in 1", "{ a /* c */ ? 1 }: a", "{ a ? 1 /* c */ , b }: a", "{ a }: /* c */\n\n\n\n1", "{\n  a,\n\n\n\n}: 1", "a:\n\n\n\n1", "{ a ?\n\n\n\n 1 }: a", "a\n\n\n\n+ b", "a +\n\n\n\nb", "{\n  a = 1;\n\n\n\n  b = 2;\n}", "[\n  1\n\n\n\n  2\n]", "{\n  x = 1;\n  /* c */\n  y = 2;\n}", "{\n  a = let b = 1; in b;\n}", "{ a =\t1;  b   =  2; }", "f\t x", "{ a = 1; } # c  \n", "a:   # c\n  1"]:
    t('RT '+repr(src), lambda: parse(src).rebuild())
t('C09 callarg', lambda: set_value(parse("f { a = 1; }"), "@x", "1"))
t('C09 list', lambda: set_value(parse("{ }: g (f { a = 1; })"), "@x", "1"))
t('C05 with', lambda: set_value(parse("with p; { a = 1; }"), "a", "2"))
