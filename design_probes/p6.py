import time
from nix_manipulator import parse
def timing(name, mk, depths):
    for d in depths:
        src=mk(d); t0=time.perf_counter(); s=parse(src); r=s.rebuild(); dt=time.perf_counter()-t0
        print(f'  {name} depth={d} {dt:.3f}s err={s.contains_error} len={len(src)}')
def asrt(d):
    s="true"
    for i in range(d): s=f"(assert\n  {s};\nx{i})"
    return s
timing('assert-cond', asrt, [6,8,10,12,14])
def bind(d):
    s='"' + 'x'*120 + '"'
    for i in range(d): s="{ a%d = [ %s ]; }" % (i, s)
    return s
timing('binding-list', bind, [6,8,10,12,14])
