import ast, json, os, shutil, subprocess, sys, pathlib
i = int(sys.argv[1])
muts = json.load(open('/tmp/mut/muts.json'))
path, fname, lineno, col, idx, what = muts[i]
base = pathlib.Path('/tmp/scratch_base')
d = pathlib.Path(f'/tmp/mut/m_{i}')
if d.exists(): shutil.rmtree(d)
d.mkdir()
shutil.copytree(base / 'nix_manipulator', d / 'nix_manipulator')
os.symlink(base / 'tests', d / 'tests'); os.symlink(base / 'pyproject.toml', d / 'pyproject.toml')
rel = pathlib.Path(path).relative_to(base)
tree = ast.parse((base / rel).read_text())
done = False
for js in ast.walk(tree):
    if isinstance(js, ast.JoinedStr) and js.lineno == lineno and js.col_offset == col:
        del js.values[idx]; done = True; break
assert done
(d / rel).write_text(ast.unparse(tree))
env = dict(os.environ, PYTHONPATH=str(d), PYTHONDONTWRITEBYTECODE='1')
r = subprocess.run(['/venv/bin/python', '-m', 'pytest', '-q', '-p', 'no:cacheprovider', '--continue-on-collection-errors'], cwd=d, env=env, capture_output=True, text=True)
import re
tail = [l for l in r.stdout.splitlines() if re.match(r'^(\d+ failed|\d+ passed)', l)][-1:]
res = {'i': i, 'file': str(rel), 'fn': fname, 'line': lineno, 'what': what, 'summary': tail[0] if tail else r.stdout[-200:]}
json.dump(res, open(f'/tmp/mut/res_{i}.json', 'w'))
shutil.rmtree(d)
