"""Calibration experiment: f-string slot-drop mutants in rebuild closures; which survive the suite?"""
import ast, pathlib, sys, json, copy
ROOT = pathlib.Path('/tmp/scratch_base/nix_manipulator/expressions')
muts = []
for p in sorted(ROOT.rglob('*.py')):
    src = p.read_text(); tree = ast.parse(src)
    # functions named rebuild or helper render functions
    for fn in ast.walk(tree):
        if not isinstance(fn, ast.FunctionDef): continue
        if not (fn.name == 'rebuild' or fn.name.startswith('_render') or fn.name.startswith('_format') or fn.name in ('add_trivia','rebuild_scoped','apply_trailing_trivia','format_trivia','format_interstitial_trivia','_resolve_right_operand','__str__','render_branch','render_names','render_name_with_gap','render_inherit_source','render_value','render_item')): continue
        for js in ast.walk(fn):
            if isinstance(js, ast.JoinedStr):
                fvs = [i for i, v in enumerate(js.values) if isinstance(v, ast.FormattedValue)]
                if len(js.values) < 2: continue
                for i in fvs:
                    muts.append((str(p), fn.name, js.lineno, js.col_offset, i, ast.unparse(js.values[i].value)))
print(len(muts))
json.dump(muts, open('/tmp/mut/muts.json', 'w'))
