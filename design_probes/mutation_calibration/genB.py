import ast, pathlib, json
ROOT = pathlib.Path('/tmp/scratch_base/nix_manipulator/expressions')
muts=[]
for p in sorted(ROOT.rglob('*.py')):
    tree=ast.parse(p.read_text())
    for n in ast.walk(tree):
        if isinstance(n, ast.Call) and isinstance(n.func, ast.Name) and n.func.id in ('collect_comments_between_with_gap','collect_comment_trivia_between','collect_trailing_comment_trivia','collect_outer_comments'):
            if p.name=='trivia.py': continue
            muts.append((str(p), n.func.id, n.lineno, n.col_offset))
json.dump(muts, open('/tmp/mut/mutsB.json','w')); print(len(muts))
