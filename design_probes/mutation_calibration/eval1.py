import ast, json, os, shutil, subprocess, sys, pathlib
i = int(sys.argv[1])
muts = json.load(open('/tmp/mut/muts.json'))
path, fname, lineno, col, idx, what = muts[i]
base = pathlib.Path('/tmp/scratch_base')
d = pathlib.Path(f'/tmp/mut/e_{i}')
if d.exists(): shutil.rmtree(d)
d.mkdir()
shutil.copytree(base / 'nix_manipulator', d / 'nix_manipulator')
rel = pathlib.Path(path).relative_to(base)
tree = ast.parse((base / rel).read_text())
for js in ast.walk(tree):
    if isinstance(js, ast.JoinedStr) and js.lineno == lineno and js.col_offset == col:
        del js.values[idx]; break
(d / rel).write_text(ast.unparse(tree))
def run(script, root):
    r = subprocess.run(['python3', script], env=dict(os.environ, SA_ROOT=str(root)), capture_output=True, text=True)
    return r.stdout
import re
def norm(out):
    # strip line numbers: keep class header + (field, tag)
    res=set(); cur=None
    for l in out.splitlines():
        if l.startswith('=='): cur=l.split()[1]
        m=re.match(r'\s+ret@\d+#(\d+): (\w+) (LAYOUT-DROP|absent \[NEVER\])', l)
        if m: res.add((cur, m.group(1), m.group(2), m.group(3)))
    return res
# baseline for unparsed version of base (line numbers differ but we strip them)
flow_b = norm(open('/tmp/mut/flow_base.txt').read())
dead_b = set(open('/tmp/mut/dead_base.txt').read().splitlines())
flow_m = norm(run('/tmp/probe/flow.py', d))
dead_m = set(run('/tmp/probe/deadlocal.py', d).splitlines())
res = {'i': i, 'flow_new': sorted(map(list, flow_m - flow_b)), 'dead_new': sorted(dead_m - dead_b), 'flow_gone': sorted(map(list, flow_b - flow_m))}
json.dump(res, open(f'/tmp/mut/ev_{i}.json', 'w'))
shutil.rmtree(d)
