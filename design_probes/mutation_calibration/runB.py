import ast, json, os, shutil, subprocess, sys, pathlib, re
i=int(sys.argv[1]); muts=json.load(open('/tmp/mut/mutsB.json')); path, fname, lineno, col = muts[i]
base=pathlib.Path('/tmp/scratch_base'); d=pathlib.Path(f'/tmp/mut/b_{i}')
if d.exists(): shutil.rmtree(d)
d.mkdir(); shutil.copytree(base/'nix_manipulator', d/'nix_manipulator')
os.symlink(base/'tests', d/'tests'); os.symlink(base/'pyproject.toml', d/'pyproject.toml')
rel=pathlib.Path(path).relative_to(base); tree=ast.parse((base/rel).read_text())
class T(ast.NodeTransformer):
    def visit_Call(self, n):
        self.generic_visit(n)
        if isinstance(n.func, ast.Name) and n.func.id==fname and n.lineno==lineno and n.col_offset==col:
            if fname=='collect_comments_between_with_gap':
                a=n.args
                return ast.parse(f"([], gap_between({ast.unparse(a[0])}, {ast.unparse(a[2])}, {ast.unparse(a[3])}))", mode='eval').body
            return ast.List(elts=[], ctx=ast.Load())
        return n
tree=T().visit(tree); ast.fix_missing_locations(tree)
src=ast.unparse(tree)
if 'gap_between(' in src and 'gap_between' not in (base/rel).read_text().split('class ')[0]:
    src=src.replace('from nix_manipulator.expressions.trivia import', 'from nix_manipulator.expressions.trivia import gap_between,',1)
(d/rel).write_text(src)
env=dict(os.environ, PYTHONPATH=str(d), PYTHONDONTWRITEBYTECODE='1')
r=subprocess.run(['/venv/bin/python','-m','pytest','-q','-p','no:cacheprovider','--continue-on-collection-errors'],cwd=d,env=env,capture_output=True,text=True)
tail=[l for l in r.stdout.splitlines() if re.match(r'^(\d+ failed|\d+ passed)', l)][-1:]
json.dump({'i':i,'file':str(rel),'fn':fname,'line':lineno,'summary':tail[0] if tail else r.stdout[-300:]}, open(f'/tmp/mut/resB_{i}.json','w'))
shutil.rmtree(d)
