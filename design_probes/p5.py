import subprocess, tempfile, os, sys
from nix_manipulator import parse
src = b"{\r\n  a = 1;\r\n\r\n  b = 2;\r\n}\r\n"
d = tempfile.mkdtemp(); f = os.path.join(d, "x.nix"); open(f, "wb").write(src)
r = subprocess.run([sys.executable, "-m", "nix_manipulator", "test", "-f", f], capture_output=True)
print("cli test:", r.returncode, r.stdout)
s = parse(src); print("lib:", s.contains_error, repr(s.rebuild()), s.rebuild().encode() == src)
r = subprocess.run([sys.executable, "-m", "nix_manipulator", "set", "-f", f, "a", "2"], capture_output=True)
print("cli set:", r.returncode, r.stdout)
r = subprocess.run([sys.executable, "-m", "nix_manipulator", "set", "a", "2"], input=b"{ a = 1; }\n", capture_output=True)
print("cli set stdin:", r.returncode, r.stdout)
r = subprocess.run([sys.executable, "-m", "nix_manipulator", "set", "a", "2 +"], input=b"{ a = 1; }\n", capture_output=True)
print("cli set bad:", r.returncode, r.stdout, r.stderr[-80:])
r = subprocess.run([sys.executable, "-m", "nix_manipulator", "test"], input=b"", capture_output=True)
print("cli test empty:", r.returncode, r.stdout, r.stderr[-80:])
import shutil; shutil.rmtree(d)
