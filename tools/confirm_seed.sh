#!/bin/bash
# usage: confirm_seed.sh <agent out dir (contains patch.diff demo.py meta.json)> <seed id> [base commit]
# Confirms a seeded change independently in a scratch worktree: applies, baseline 340/340, demo FAILs with / PASSes without.
set -u
src=$1; id=$2; base=${3:-HEAD}
wt=$(mktemp -d /tmp/confirm.XXXXXX)
git -C /repo worktree add -q --detach "$wt" "$base" || exit 3
res="apply=fail"
if git -C "$wt" apply "$src/patch.diff"; then
  res="apply=ok"
  if /tmp/wt/tools/check_baseline.py "$wt" > "$wt/.bl" 2>&1; then res="$res baseline=340/340"; else res="$res baseline=BROKEN"; fi
  (cd "$wt" && PYTHONPATH="$wt" timeout 600 /venv/bin/python "$src/demo.py" > "$wt/.d1" 2>&1); d1=$?
  git -C "$wt" checkout -q -- .
  (cd "$wt" && PYTHONPATH="$wt" timeout 600 /venv/bin/python "$src/demo.py" > "$wt/.d0" 2>&1); d0=$?
  res="$res demo_with_change_exit=$d1 demo_without_change_exit=$d0"
fi
echo "$id $res"
if [[ "$res" == *"baseline=340/340 demo_with_change_exit=1 demo_without_change_exit=0"* ]]; then
  mkdir -p /verif/seeded/$id
  cp "$src/patch.diff" "$src/demo.py" /verif/seeded/$id/
  /venv/bin/python - "$src/meta.json" /verif/seeded/$id/meta.json "$id" "$(git -C /repo rev-parse --short $base)" <<'PY'
import json,sys
m=json.load(open(sys.argv[1]))
m["seed_id"]=sys.argv[3]; m["base_commit"]=sys.argv[4]
m["confirmed"]={"how":"tools/confirm_seed.sh: scratch worktree of /repo at base_commit; git apply patch.diff; pinned offline suite (340 baseline tests) all pass; demo.py exits 1 with the change and 0 after git checkout","baseline":"340/340","demo_with_change":"FAIL (exit 1)","demo_without_change":"PASS (exit 0)"}
json.dump(m,open(sys.argv[2],"w"),indent=1)
PY
fi
git -C /repo worktree remove --force "$wt"
