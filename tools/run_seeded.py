#!/venv/bin/python
"""Run every quick check against every seeded change under /verif/seeded and write the detection matrix.

Each seeded change is applied to a scratch export of /repo's HEAD (never to /repo itself), the checks run with
--root on that copy, and the copy is removed.  Output: /verif/seeded/MATRIX.json and a table on stdout.
usage: run_seeded.py [seed-id ...]
"""
import json
import os
import pathlib
import shutil
import subprocess
import sys
import tempfile
from concurrent.futures import ProcessPoolExecutor

VERIF = pathlib.Path(__file__).resolve().parent.parent
SEEDED = VERIF / "seeded"
PROPS = ["C01", "C03", "C04", "C05", "C07", "C08", "C09", "C10", "C11", "C12", "C13", "C14", "C15", "C16", "C17", "C18", "C20"]
if os.environ.get("SA_PROPS"):  # restrict the checks run (re-measurement after a change to some rules)
    PROPS = os.environ["SA_PROPS"].split(",")


def run_one(seed: str) -> dict:
    d = SEEDED / seed
    meta = json.loads((d / "meta.json").read_text())
    tmp = pathlib.Path(tempfile.mkdtemp(prefix="seeded_"))
    try:
        subprocess.run(f"git -C /repo archive HEAD | tar -x -C {tmp}", shell=True, check=True)
        ap = subprocess.run(["git", "apply", "--unsafe-paths", f"--directory={tmp}", str(d / "patch.diff")], cwd="/", capture_output=True, text=True)
        if ap.returncode != 0:
            ap = subprocess.run(["patch", "-p1", "-s", "-i", str(d / "patch.diff")], cwd=tmp, capture_output=True, text=True)
        if ap.returncode != 0:
            return {"seed": seed, "property": meta.get("property"), "applies": False, "caught_by": {}, "note": (ap.stderr or ap.stdout)[:200]}
        caught = {}
        errors = {}
        for p in PROPS:
            env = dict(os.environ, SA_EVIDENCE_DIR=str(tmp / "_ev"))
            r = subprocess.run(["/venv/bin/python", "-m", "sa.check", p, "--tier", "quick", "--root", str(tmp)], cwd=VERIF, env=env,
                               capture_output=True, text=True)
            if r.returncode == 1:
                rules = sorted({ln.split()[0] for ln in r.stdout.splitlines() if ln.startswith("  R-")})
                caught[p] = rules
            elif r.returncode == 2:
                errors[p] = [ln for ln in r.stdout.splitlines() if "ANALYSIS-ERROR" in ln][:2]
        return {"seed": seed, "property": meta.get("property"), "applies": True, "caught_by": caught, "analysis_errors": errors}
    finally:
        shutil.rmtree(tmp, ignore_errors=True)


def main():
    out_name = "MATRIX.json"
    args = sys.argv[1:]
    if args and args[0].startswith("--out="):
        out_name = args[0][6:]
        args = args[1:]
    sys.argv = [sys.argv[0]] + args
    seeds = sys.argv[1:] or sorted(p.name for p in SEEDED.iterdir() if (p / "patch.diff").exists())
    with ProcessPoolExecutor(max_workers=int(os.environ.get("SA_JOBS", "8"))) as ex:
        rows = list(ex.map(run_one, seeds))
    matrix = {r["seed"]: r for r in rows}
    if not sys.argv[1:] or out_name != "MATRIX.json":
        (SEEDED / out_name).write_text(json.dumps(matrix, indent=1) + "\n")
    for r in rows:
        own = r["property"] in r["caught_by"] if r["applies"] else False
        others = sorted(set(r["caught_by"]) - {r["property"]})
        status = "NO-APPLY" if not r["applies"] else ("CAUGHT" if own else ("caught-elsewhere" if others else "MISSED"))
        print(f"{r['seed']:10s} {r['property']}  {status:16s} own={r['caught_by'].get(r['property'], [])} others={others} "
              f"{'ERR ' + str(r.get('analysis_errors')) if r.get('analysis_errors') else ''}")
    n = sum(1 for r in rows if r["applies"])
    own = sum(1 for r in rows if r["applies"] and r["property"] in r["caught_by"])
    anyc = sum(1 for r in rows if r["applies"] and r["caught_by"])
    print(f"{len(rows)} seeds, {n} apply, {own} caught by the check of their own property, {anyc} caught by some check")


if __name__ == "__main__":
    main()
