#!/venv/bin/python
"""Developer helper (never used by a check): append reviewed known-finding entries for the currently
unmatched findings of a property whose rule matches, with the given what/demo text.
usage: kf_add.py <PROP[,PROP2]> <RULE> <key-substring|*> <what> <demo>"""
import json, sys, pathlib
sys.path.insert(0, str(pathlib.Path(__file__).resolve().parent.parent))
from sa.model import Program
from sa import report
from sa.check import analyse
props, rule, sub, what, demo = sys.argv[1:6]
props = props.split(',')
res = analyse(props[0], Program())
kf = json.loads(report.KNOWN_FILE.read_text())
known = kf['findings']
n = 0
for f in res.findings:
    if f.rule != rule or (sub != '*' and sub not in f.keystr()):
        continue
    if report.match_known(props[0], f, known):
        continue
    known.append({"properties": props, "rule": rule, "key": [str(x) for x in f.key], "status": "known", "what": what, "demo": demo})
    n += 1
report.KNOWN_FILE.write_text(json.dumps(kf, indent=1, ensure_ascii=False) + "\n")
print("added", n)
