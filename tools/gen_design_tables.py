#!/venv/bin/python
"""Regenerate the machine-written blocks of DESIGN.md (between `<!-- BEGIN:x -->` / `<!-- END:x -->` markers) from the
evidence files, known_findings.json and seeded/MATRIX*.json.  usage: gen_design_tables.py"""
import json
import pathlib
import re

V = pathlib.Path(__file__).resolve().parent.parent


def rules_block() -> str:
    out = ["| property | rule | what is decided (rule text as printed in the evidence) | instances | obligations discharged |", "|---|---|---|---|---|"]
    for p in sorted((V / "evidence").glob("C*.json")):
        e = json.loads(p.read_text())
        cov = e.get("coverage", {})
        rules = cov.get("rules") or e.get("rules") or []
        if isinstance(rules, dict):
            rules = [dict(v, id=k) for k, v in rules.items()]
        for r in rules:
            if not isinstance(r, dict):
                continue
            out.append(f"| {p.stem} | {r.get('id')} | {str(r.get('description', ''))[:400].replace('|', '/')} | {r.get('instances')} | "
                       f"{r.get('discharged')}/{r.get('obligations')} |")
    return "\n".join(out)


def known_block() -> str:
    k = json.loads((V / "known_findings.json").read_text())
    out = ["| property | rule | count | what fails (first entry) |", "|---|---|---|---|"]
    groups = {}
    allf = k.get("findings", [])
    for e in [x for x in allf if x.get("status") == "known"]:
        props = e.get("properties") or [e.get("property")]
        groups.setdefault((",".join(props), e.get("rule")), []).append(e)
    for (props, rule), es in sorted(groups.items()):
        out.append(f"| {props} | {rule} | {len(es)} | {str(es[0].get('what', ''))[:260].replace('|', '/')} |")
    out.append("")
    out.append("| fixed: property | rule | commit | what failed |")
    out.append("|---|---|---|---|")
    for e in [x for x in allf if x.get("status") == "fixed"]:
        props = e.get("properties") or [e.get("property")]
        out.append(f"| {','.join(props)} | {e.get('rule')} | {e.get('commit')} | {str(e.get('what', ''))[:200].replace('|', '/')} |")
    return "\n".join(out)


def seeded_block() -> str:
    m = json.loads((V / "seeded" / "MATRIX.json").read_text())
    unin = {}
    for name in ("MATRIX-wave2-uninformed.json", "MATRIX-wave3-uninformed.json", "MATRIX-wave4-uninformed.json", "MATRIX-wave5-uninformed.json"):
        p = V / "seeded" / name
        if p.exists():
            tag = {"wave2": "-b-", "wave3": "-c-", "wave4": "-d-", "wave5": "-e-"}[name.split("-")[1]]
            unin.update({k: v for k, v in json.loads(p.read_text()).items() if tag in k})
    out = ["| seed | property | what was changed | caught by own check (rules) | other checks | when first run (uninformed) |", "|---|---|---|---|---|---|"]
    for sid, r in sorted(m.items()):
        meta = json.loads((V / "seeded" / sid / "meta.json").read_text())
        own = r["caught_by"].get(r["property"], []) if r.get("applies") else []
        others = sorted(set(r.get("caught_by", {})) - {r["property"]})
        first = ""
        if sid in unin:
            u = unin[sid]
            first = "caught" if u["property"] in u.get("caught_by", {}) else ("other check" if u.get("caught_by") else ("exit 2" if u.get("analysis_errors") else "missed"))
        if meta.get("obsolete"):
            out.append(f"| {sid} | {r['property']} | {re.sub(chr(10), ' ', meta.get('summary', ''))[:150].replace('|', '/')} | — (obsolete: {meta['obsolete'][:90]}) | | {first} |")
            continue
        status = ", ".join(own) if own else ("does not apply" if not r.get("applies") else ("— (out of reach: " + meta.get("static_reach_reason", "")[:80] + ")" if meta.get("static_reach") else "**missed**"))
        summ = meta.get("summary", "")
        summ = re.sub(r"\s+", " ", summ)[:150].replace("|", "/")
        out.append(f"| {sid} | {r['property']} | {summ} | {status} | {', '.join(others)} | {first} |")
    return "\n".join(out)


def main():
    p = V / "DESIGN.md"
    s = p.read_text()
    for name, fn in (("rules", rules_block), ("known", known_block), ("seeded", seeded_block)):
        b, e = f"<!-- BEGIN:{name} -->", f"<!-- END:{name} -->"
        if b in s and e in s:
            s = s[:s.index(b) + len(b)] + "\n" + fn() + "\n" + s[s.index(e):]
    p.write_text(s)


if __name__ == "__main__":
    main()
