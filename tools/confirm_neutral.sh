#!/bin/bash
# usage: confirm_neutral.sh <agent out dir (patch.diff check.py meta.json)> <id> [base commit]
# Confirms a behaviour-preserving refactoring independently: applies, baseline 340/340, check.py digest equal with/without.
set -u
src=$1; id=$2; base=${3:-HEAD}
wt=$(mktemp -d /tmp/confirmn.XXXXXX)
git -C /repo worktree add -q --detach "$wt" "$base" || exit 3
res="apply=fail"
if git -C "$wt" apply "$src/patch.diff"; then
  res="apply=ok"
  if /tmp/wt/tools/check_baseline.py "$wt" > "$wt/.bl" 2>&1; then res="$res baseline=340/340"; else res="$res baseline=BROKEN"; fi
  d1=$( (cd "$wt" && PYTHONPATH="$wt" timeout 900 /venv/bin/python "$src/check.py" 2>&1) | tail -1)
  git -C "$wt" checkout -q -- .
  d0=$( (cd "$wt" && PYTHONPATH="$wt" timeout 900 /venv/bin/python "$src/check.py" 2>&1) | tail -1)
  if [ "$d0" == "$d1" ] && [ -n "$d0" ]; then res="$res digest=equal"; else res="$res digest=DIFFERENT"; fi
fi
echo "$id $res"
if [[ "$res" == *"baseline=340/340 digest=equal"* ]]; then
  mkdir -p /verif/neutral/$id
  cp "$src/patch.diff" "$src/check.py" /verif/neutral/$id/
  /venv/bin/python - "$src/meta.json" /verif/neutral/$id/meta.json "$id" "$(git -C /repo rev-parse --short $base)" <<'PY'
import json,sys
m=json.load(open(sys.argv[1])); m["id"]=sys.argv[3]; m["base_commit"]=sys.argv[4]
m["confirmed"]={"how":"tools/confirm_neutral.sh: scratch worktree at base_commit; git apply; 340 baseline tests pass; check.py prints the same digest with and without the change"}
json.dump(m,open(sys.argv[2],"w"),indent=1)
PY
fi
git -C /repo worktree remove --force "$wt"
