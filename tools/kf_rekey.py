#!/venv/bin/python
"""Developer helper: after a rule's key format changed, re-attach stale `known` entries to the current findings.
An entry is stale when no current finding matches it.  A stale entry is re-keyed to an unmatched finding of the same
property+rule whose first key element is the same (and, when several candidates, the same position in sorted order)."""
import json, sys, pathlib
sys.path.insert(0, str(pathlib.Path(__file__).resolve().parent.parent))
from sa.model import Program
from sa import report
from sa.check import analyse, CLAIMED
kf = json.loads(report.KNOWN_FILE.read_text())
known = kf["findings"]
prog = Program()
changed = 0
for prop in CLAIMED:
    res = analyse(prop, prog)
    unmatched = [f for f in res.findings if not report.match_known(prop, f, known)]
    current = {(f.rule, tuple(str(k) for k in f.key)) for f in res.findings}
    stale = [k for k in known if k.get("status") == "known" and prop in k.get("properties", []) and (k["rule"], tuple(k["key"])) not in current]
    for f in sorted(unmatched, key=lambda f: (f.rule, f.keystr())):
        cands = [k for k in stale if k["rule"] == f.rule and k["key"][0] == str(f.key[0])]
        if not cands:
            print("NO CANDIDATE", prop, f.rule, f.key)
            continue
        k = sorted(cands, key=lambda k: k["key"])[0]
        print("rekey", prop, f.rule, k["key"], "->", [str(x) for x in f.key])
        k["key"] = [str(x) for x in f.key]
        stale.remove(k)
        changed += 1
report.KNOWN_FILE.write_text(json.dumps(kf, indent=1, ensure_ascii=False) + "\n")
print("rekeyed", changed)
