#!/venv/bin/python
"""debug: apply a patch to a scratch export, build the Program, print the inline log and the unparsed functions named"""
import ast, pathlib, subprocess, sys, tempfile, shutil
sys.path.insert(0, str(pathlib.Path(__file__).resolve().parent.parent))
from sa.model import Program
patch = sys.argv[1]; names = sys.argv[2:]
tmp = pathlib.Path(tempfile.mkdtemp(prefix="shown_"))
try:
    subprocess.run(f"git -C /repo archive HEAD | tar -x -C {tmp}", shell=True, check=True)
    if patch != "-":
        subprocess.run(["patch", "-p1", "-s", "-i", str(pathlib.Path(patch).resolve())], cwd=tmp, check=True)
    prog = Program(tmp)
    for l in prog.inline_log: print("LOG", l)
    for n in names:
        f = prog.funcs.get(n)
        print("=" * 20, n, "present" if f else "ABSENT")
        if f: print(ast.unparse(f.node))
finally:
    shutil.rmtree(tmp, ignore_errors=True)
