#!/venv/bin/python
"""Run every quick check against every confirmed behaviour-preserving refactoring under /verif/neutral and record the
verdicts: a check must stay silent (exit 0).  exit 1 = false alarm; exit 2 = the analysis lost an anchor / idiom.
Each refactoring is applied to a scratch export of /repo's HEAD, never to /repo.  Output: /verif/neutral/MATRIX.json"""
import json
import os
import pathlib
import shutil
import subprocess
import sys
import tempfile
from concurrent.futures import ProcessPoolExecutor

VERIF = pathlib.Path(__file__).resolve().parent.parent
NEUTRAL = VERIF / "neutral"
PROPS = ["C01", "C03", "C04", "C05", "C07", "C08", "C09", "C10", "C11", "C12", "C13", "C14", "C15", "C16", "C17", "C18", "C20"]
if os.environ.get("SA_PROPS"):  # restrict the checks run (re-measurement after a change to some rules)
    PROPS = os.environ["SA_PROPS"].split(",")


def run_one(nid: str) -> dict:
    d = NEUTRAL / nid
    tmp = pathlib.Path(tempfile.mkdtemp(prefix="neutral_"))
    try:
        subprocess.run(f"git -C /repo archive HEAD | tar -x -C {tmp}", shell=True, check=True)
        ap = subprocess.run(["patch", "-p1", "-s", "-i", str(d / "patch.diff")], cwd=tmp, capture_output=True, text=True)
        if ap.returncode != 0:
            return {"id": nid, "applies": False, "alarms": {}, "broken": {}}
        alarms, broken = {}, {}
        for p in PROPS:
            env = dict(os.environ, SA_EVIDENCE_DIR=str(tmp / "_ev"))
            r = subprocess.run(["/venv/bin/python", "-m", "sa.check", p, "--tier", "quick", "--root", str(tmp)], cwd=VERIF, env=env, capture_output=True, text=True)
            if r.returncode == 1:
                alarms[p] = [ln.strip()[:200] for ln in r.stdout.splitlines() if ln.startswith("  R-")][:4]
            elif r.returncode == 2:
                broken[p] = [ln[:200] for ln in r.stdout.splitlines() if "ANALYSIS-ERROR" in ln][:2]
        return {"id": nid, "applies": True, "alarms": alarms, "broken": broken}
    finally:
        shutil.rmtree(tmp, ignore_errors=True)


def main():
    ids = sys.argv[1:] or sorted(p.name for p in NEUTRAL.iterdir() if (p / "patch.diff").exists())
    with ProcessPoolExecutor(max_workers=int(os.environ.get("SA_JOBS", "8"))) as ex:
        rows = list(ex.map(run_one, ids))
    if not sys.argv[1:]:
        (NEUTRAL / "MATRIX.json").write_text(json.dumps({r["id"]: r for r in rows}, indent=1) + "\n")
    fa = br = 0
    for r in rows:
        st = "NO-APPLY" if not r["applies"] else ("FALSE-ALARM" if r["alarms"] else ("analysis-broken" if r["broken"] else "silent"))
        fa += bool(r["alarms"])
        br += bool(r["broken"]) and not r["alarms"]
        print(f"{r['id']:10s} {st:16s} alarms={r['alarms']} broken={ {k: v[0][:120] for k, v in r['broken'].items()} }")
    print(f"{len(rows)} refactorings: {fa} with a false alarm, {br} with an analysis error only, {len(rows) - fa - br} silent")


if __name__ == "__main__":
    main()
