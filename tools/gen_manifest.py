#!/venv/bin/python
"""Regenerate /verif/MANIFEST.json from the table below (kept in one place so it is always valid)."""
import json
import pathlib
import sys

VERIF = pathlib.Path(__file__).resolve().parent.parent
sys.path.insert(0, str(VERIF))

CHECKS = {
    "C01": ("content-flow dataflow over every rebuild closure + dispatch exhaustiveness + source-bytes alignment query",
            "Decides structural clauses necessary for token preservation: every CST expression kind has a from_cst/rebuild "
            "pair; every token-bearing field of every renderer reaches the returned string on every path (only emptiness "
            "tests of the field itself may drop it); gap offsets index the bytes they were measured against; from_cst child "
            "loops accept comments; presence tests on expression slots cannot be false for a present node; the comma marker is found by membership. It does not prove the token sequence equal for all inputs. Also: rendered text is assembled and never rewritten by pattern; token text is cut by position, not greedy strip. Also: scoped nodes render their let; names-only containers handle every child kind; byte offsets index bytes; parallel lists stay aligned; element kinds agree with the inline-suffix renderer. Also: the separator after an inline-comment suffix starts a new line unless the slot is known empty or the stored layout is on the same line.", "2/C01"),
    "C03": ("gap-coverage query over from_cst collectors + content-flow of comment slots + segment-order rule + reader/writer table agreement",
            "Decides: every inter-token gap of every production is covered by exactly one comment route that reaches the "
            "node; every comment slot is rendered on every path; trailing trivia follows the last token; comment prefix "
            "tables agree; concatenations list trivia in source order; every let layer's trivia slots are consumed on every path. Does not decide relative order of comments routed to different slots. Also: a flag-guarded trivia consumer is not dead code; comments split by `inline` form a leading run. Also: inline attachment is latched; one-comment slots are not reassigned in a loop; comment windows are closed at their start anchor; tuples are unpacked in return order. Also: a line comment ends its line (separator after an inline-comment suffix); comment delimiters are cut by position. Also: both halves of split_inline_comments are consumed on every path; an unmarked comment ends the inline run.", "2/C03"),
    "C04": ("who-may-write effect analysis (write-set confinement) over the edit closure",
            "Decides that the only document state the set/rm closure may write is the addressed binding, its containers, "
            "their order mirrors and the scope wrappers; new bindings are appended, removal deletes the located object. "
            "No memoised object is stored into a document; attrpath families are merged into one tree (decision tables of both mergers) and the by-name index designates only live bindings. Byte extents outside the target are the renderer's behaviour and are not decided here. Also: order entries matched by identity; lookup-or-create inserts into the container it searched. Also: position by index; the nested filter is part of the search; no loop-invariant test decides a per-element removal; aliases are followed in their definition-site chain. Also: one spelling of a bare attribute name. Also: the searches of one path walk agree on stating the nested filter.", "2/C04"),
    "C05": ("regex-AST query for bare names + sibling agreement of target resolvers + exception-escape analysis",
            "Decides: bare attribute names are full-matched against the Nix identifier alphabet and keywords are quoted; "
            "both target resolvers handle the same wrapper shapes; only KeyError/ValueError escape target resolution; "
            "container and order-cache writes are paired on the edit paths; parentheses are stripped on every path to a class test; attrpath merge tables as in C04. Also: the callee head decides editability; a walk's result is used; a let layer is pruned only when empty. Also: creation sees inherit clauses (also inside helpers). Also: the nested filter is part of the attrpath-root search; the NPath reader decodes the documented escapes. Also: the searches of one path walk agree on stating the nested filter.", "2/C05"),
    "C07": ("dominance (graph cut) on the error gate + dataflow of the raw text + resolver case tables",
            "Decides: the has_error gate dominates all structured parsing; the raw text is the complete parser input with "
            "no rewriting call in between and is returned unchanged; edits reject raw documents and raw values before any "
            "use; the top-level expression reaches an edit only through the shape gate; `nima test` checks contains_error first. tree-sitter's has_error is trusted. Also: the error gate is reached for every input (no exit before it). Also: the value is validated as given; no parse entry point is memoised over a file read. Also: the CLI hands VALUE to set_value unmodified.", "2/C07"),
    "C08": ("interprocedural effect/ordering analysis (mutate-then-raise) + exception-escape sets",
            "Decides: no rejection point (raise or raising callee) is reachable after a document-state write in the edit "
            "closure (reviewed infeasible pairs listed by normalised statement); only KeyError/ValueError escape "
            "set_value/remove_value; listed refusals (attrpath root, empty segment) guard the write/construction itself; only six reviewed handlers may swallow an exception; the CLI prints only after the library call returned. Also: no local is read before assignment; no unbound name / undefined self attribute / ill-fitting call; selector indexes are guarded by the depth test. Also: re-entry of the target resolver carries the visited set.", "2/C08"),
    "C09": ("orientation agreement of the five scope-layer sites + bounds-guard dominance + create/prune shape rules",
            "Decides: all producers/consumers of the layer list use the same outermost-first orientation; selector "
            "indexing is dominated by the depth guard with no intervening resize; one layer is created, exactly the "
            "selected empty layer is pruned; a created let must sit where the grammar admits one; the depth is the leading run of `@`. Also: a walk's result is used (no lookup through the start object after the walk). Also: a layer is stored once; layers are told apart by position; every layer's trivia is consumed. Also: a scoped selector edits the body only when no layer exists; scoped edits write the layer's own lists. Also: the addressed layer is consulted before the outermost let when an inherited name is followed.", "2/C09"),
    "C10": ("must-pass-through on the registry, recursion-guard dominance, exit discipline and chain-orientation rules",
            "Decides: with-scopes must be distinguishable and ranked last; registry hits are identity-validated; every "
            "recursive resolution carries a visited set or a strictly shorter chain; all exits are a binding or "
            "ResolutionError; chain producers are outer-to-inner and the scan is reversed with the found index slice; inherit sources and with environments are looked up in the prescribed chain. Also: a value stored by item assignment loses its foreign chain; continuations run in the scan iteration that found the binder. Also: only formals enter the parameter scope; chains are recomputed from the owner on every access; the setter installs a copy. Also: stored let layers keep their order through every producer; the inherit cycle marker does not depend on the scope chain. Also: a resolved value receives the chain of its definition site on every path. Also: stored layers are handed to the layer helper in stored order; a formal's default is committed only after the lookup among the supplied attributes.", "2/C10"),
    "C11": ("same-resolver rule for getter/setter + assign-through dominance over overwrites (sibling agreement)",
            "Decides: Identifier.value getter and setter resolve through the same function and the setter writes only the "
            "resolved binding's value; every overwrite of a located binding's value is dominated, when that value is a "
            "reference, by the assign-through attempt and its fallbacks in the fixed order; an owner-relative attach never reuses a remembered chain. Also: resolved values are not re-stamped; every exit of an owner-relative attach has recomputed the chain. Also: an inherited name is followed to the closer scope first.", "2/C11"),
    "C12": ("reader/writer escape-table agreement + regex-AST query + canonical-comparison rule on lookups",
            "Decides: every character special in a Nix string is escaped by the writer and decoded by the NPath reader; "
            "bare names are full-matched and keywords quoted; interpolation escaping is always requested; lookups compare "
            "names produced by the same formatter (canonical-name defect recorded); quoted-state scanners agree with Nix's lexer row by row; a quoted segment is never written bare. Also: one bare-name alphabet; every name read from a file passes the splitter; lookups use the formatted spelling; `${` stays closed while an escape is pending. Also: every returned path segment passed the parser and the name formatter. Also: attrpath merge tables as in C04.", "2/C12"),
    "C13": ("test-order dominance (bool before int) + must-pass-through of escapers + float/negative-number format rules",
            "Decides: subclass tests precede superclass tests in coercion; non-raw strings pass the escaper on every path "
            "and raw_string is set only by parser code; coerced floats are formatted by a Nix-float formatter; tight "
            "positions wrap loose values; raw scalars are never looked up by equality; escaping is not delegated to a foreign encoder. Also: token text is cut by position, not greedy strip. Also: one bare-name alphabet; `nested` is parser/CLI state; mirrors follow the binding list in every mutator.", "2/C13"),
    "C14": ("paired-update (post-dominance) rule for values/attrpath_order + sibling agreement on entry kinds + clean-raise rule",
            "Decides: every structural mutation of a binding container is followed on all paths by the mirror update of the "
            "matching order list; deletion sites handle both order-entry kinds; KeyError for a missing key is raised "
            "before any write; key access only on known mappings (KeyError, not TypeError); the attrpath splitter is called on a key only inside try/except ValueError in the read dunders (KeyError, not ValueError); updates mutate the located Binding in place. Also: the order accessor is total; binding containers reach the text on every path; a walk's result is used. Also: manual stacks are balanced; mirrors follow the binding list in every mutator; fallback handlers are reviewed. Also: by-name positions are positions in the scope list itself; attrpath merge tables as in C04.", "2/C14"),
    "C15": ("effect analysis of the rebuild closure (no shared document write) + process-wide state inventory (who-may-write)",
            "Decides: no function reachable from any rebuild writes document state of a shared object; module-level mutable "
            "state is written only by its confined writers (thread-local parser, context variables reset in finally, "
            "identity-validated registry); no renderer writes a memoised object; no cwd/environ/hash-order dependence in parse/rebuild. Also: no memoised object is stored into a document. Also: nothing one-shot or shared is stored in a document; memoised functions read no external state.", "2/C15"),
    "C16": ("path conditions on main(): graph-cut dominance, dataflow of input/result, emission idiom classification",
            "Decides: OK/0 only on the path with contains_error false and input == rebuild(parse(input)); set/rm emit "
            "exactly the library result once, after it returned, with a conditional terminator, and return 0 only then; "
            "one unmodified input channel wired to all three sub-commands. Also: Fail needs an error or a difference; positionals are not converted by argparse. Also: an exit status decided by a helper is judged together with what was written before it. Also: the input option belongs to the sub-parsers; the functions between main() and default=sys.stdin are not memoised.", "2/C16"),
    "C17": ("dataflow chain parse_file -> context variable -> NixPath.source_path -> resolved_path -> _follow_import",
            "Decides each link of the import-resolution chain: the path read is the path installed as context, captured "
            "into the literal at parse time, joined to the importing file's parent, passed on to parse_file; TypeError / "
            "ValueError guards dominate; nothing resolves names before the NixPath test; no OSError handler, no cwd API, no cache keyed on a relative path. Also: every parenthesis layer is removed before the path test.", "2/C17"),
    "C18": ("taint analysis (raw gap text / newline counts to string building) + inline/indent structural rules",
            "Decides: raw whitespace captured from gaps reaches the output only through classifiers; raw newline counts are "
            "clamped before they multiply separators; every rebuild lets `inline` decide the leading indent; sibling "
            "comment renderers agree on indentation; own trivia are rendered at the node's own indent; a blank line in a comment gap is represented once. Also: a blank line at a delimiter is recorded once. Also: recorded fields are consulted; the splitter strips on every path; closers are not placed by a layout-derived separator. Also: a fragment is padded to the indent it was rendered with; separator and child are laid out from the same layout value.", "2/C18"),
    "C20": ("render-count abstract interpretation (no child rendered twice per path) + raise-discipline query",
            "Decides: along any path of any rebuild closure each child expression is rendered at most once (a second "
            "rendering per level is exponential in nesting depth); explicit raises in parse/rebuild are ValueError family. "
            "Every constant-index subscript in the closure has syntactic evidence of sufficient length (six grammar-shape sites reviewed); other implicit errors on arbitrary text are not decided. Also: no local is read before assignment on any path; a copy of self is not re-rendered; no unbound name, undefined self attribute or call that does not fit its callee; Optional fields are dereferenced only under a test. Also: predicates do not convert; no nested unbounded regex repeats; helper return shapes fit their unpacking.", "2/C20"),
}

NOT_APPLICABLE = {
    "C02": "byte identity on canonical input is a relation over layout values (which gap had a newline, how deep a value is "
           "indented); its only structural part (recorded markers are replayed) is subsumed by the C01/C03 content-flow rules "
           "or is not necessary, so no sound static clause remains",
    "C06": "a fixed-point statement about two successive runs over concrete strings; no static rule is both necessary and free of "
           "false alarms (the observed drifts surface under C03/C18 rules instead)",
    "C19": "algebraic laws relating texts of different operation sequences; the only structural ingredient (paired update of "
           "values/attrpath_order/layers) is decided under C14 and C09",
}


def main():
    from sa.check import CLAIMED
    built = [p for p in CLAIMED if (VERIF / "sa" / "rules" / f"{p.lower()}.py").exists()]
    checks = []
    for pid in built:
        tech, text, ref = CHECKS[pid]
        checks.append({
            "property_id": pid,
            "quick_cmd": f"/venv/bin/python -m sa.check {pid} --tier quick",
            "thorough_cmd": f"/venv/bin/python -m sa.check {pid} --tier thorough",
            "evidence_file": f"/verif/evidence/{pid}.json",
            "replay_cmd_template": f"/venv/bin/python -m sa.check {pid} --tier quick  # report: {{path}}",
            "engine": "sa",
            "level_claimed": {"category": "other", "text": "Static analysis of necessary structural clauses. " + text,
                              "design_ref": f"DESIGN.md section {ref}"},
            "level_note": "Trusted base: CPython's ast module; the reviewed tables in /verif/sa/tables (grammar productions, "
                          "field classification, reviewed infeasible paths, Nix lexical facts); the small stdlib effect table "
                          "of the resolver. Thorough tier additionally validates the instrument on seeded source variants.",
            "technique": "static analysis: " + tech,
        })
    na = [{"property_id": k, "reason": v} for k, v in NOT_APPLICABLE.items()]
    for pid in CLAIMED:
        if pid not in built:
            na.append({"property_id": pid, "reason": "not claimed yet: static check under construction in this session"})
    manifest = {
        "version": 1,
        "setup_cmd": "/venv/bin/python -m compileall -q /verif/sa",
        "hooks": {
            "guard": "NIMA_VERIF",
            "enable": "none needed: every check reads /repo's sources with ast and runs no nix-manipulator code",
            "baseline_off_cmd": "cd /repo && /venv/bin/python -m pytest -ra -q -p no:cacheprovider --timeout=900 --continue-on-collection-errors",
            "source_commits": [],
            "add_only": True,
        },
        "engines": [{"name": "sa", "path": "/verif/sa", "serves_properties": built,
                     "kind_free_text": "repository-specific static analysis engine (ast program model, call resolution, structured CFG "
                                       "with graph-cut dominance, content-flow / effect / taint / render-count abstract interpreters)"}],
        "checks": checks,
        "not_applicable": sorted(na, key=lambda x: x["property_id"]),
        "notes": "All checks are static (python ast); quick = all rules on /repo's working tree (<2 s each); thorough = the same plus "
                 "the checker's two-way self-test on seeded source variants in a scratch copy outside /repo and /verif. "
                 "known_findings.json lists genuine defects (KNOWN-FINDING lines, exit 0) and the fix: commits made.",
    }
    (VERIF / "MANIFEST.json").write_text(json.dumps(manifest, indent=1) + "\n")
    print("MANIFEST.json:", len(checks), "checks;", len(na), "not applicable")


if __name__ == "__main__":
    main()
