"""C13 — values built programmatically render to Nix that denotes the same value (four structural clauses)."""
from __future__ import annotations

import ast

from sa.cfg import CFG, edges_establishing
from sa.dataflow import FnFlow
from sa.model import AnalysisError, Program, norm, walk_no_nested
from sa.report import Results
from sa.util import callee, dotted, is_const, strip_not
from sa.rules.c12 import check_writer

ESCAPERS = {"_escape_nix_string", "_escape_indented_string"}


def _isinstance_tests(cfg: CFG):
    """yield (node, var, [class names], label_on_which_it_holds)"""
    for n in cfg.nodes:
        if n.kind != "test":
            continue
        inner, neg = strip_not(n.ast)
        if isinstance(inner, ast.Call) and callee(inner) == "isinstance" and len(inner.args) == 2 and isinstance(inner.args[0], ast.Name):
            k = inner.args[1]
            names = [norm(e) for e in k.elts] if isinstance(k, ast.Tuple) else [norm(k)]
            yield n, inner.args[0].id, names, (not neg)


def _arm_text(cfg: CFG, n, label) -> str:
    stmts = []
    st = n.stmt
    body = st.body if label else st.orelse
    return " ; ".join(norm(s) for s in body if not isinstance(s, (ast.Import, ast.ImportFrom)))


def run(prog: Program) -> Results:
    res = Results("C13")

    # ---------------------------------------------------------------- R-C13-1
    r1 = res.rule("R-C13-1", "subclass tests precede superclass tests in Python->Nix coercion (bool before int), whenever "
                  "the two arms differ", floor=2)
    # the class dispatcher of Primitive(...): the helper, or Primitive.__new__ itself when the helper was folded into it
    dispatcher = "_primitive_cls_from_value" if prog.has_func("_primitive_cls_from_value") else "Primitive.__new__"
    for key in ("coerce_expression", dispatcher):
        f = prog.func(key)
        res.analysed_functions.add(key)
        cfg = CFG(f.node)
        tests = list(_isinstance_tests(cfg))
        ints = [(n, v, lab) for n, v, names, lab in tests if "int" in names and "bool" not in names]
        bools = [(n, v, lab) for n, v, names, lab in tests if "bool" in names and "int" not in names]
        both = [(n, v, lab) for n, v, names, lab in tests if "bool" in names and "int" in names]
        r1.instances += len(ints) + len(both)
        if not ints and not both:
            res.unclass(f"{key}: no isinstance(<v>, int) test found — coercion shape not classifiable")
            continue
        for n, v, lab in ints:
            int_arm = _arm_text(cfg, n, lab)
            guards = [(bn, (not bl)) for bn, bv, bl in bools if bv == v]
            same = bool(guards) and all(_arm_text(cfg, bn, not bl_) == int_arm for bn, bl_ in guards)
            if same:
                r1.ob(True, {"function": key, "note": "bool and int arms are identical: order irrelevant"})
                continue
            ok = bool(guards) and cfg.all_paths_pass(n, cut_edges=guards)
            r1.ob(ok, {"function": key, "int_test": norm(n.ast), "dominated_by_false_edge_of": [norm(g[0].ast) for g in guards]})
            if not ok:
                res.add("R-C13-1", (key, "int test before bool test"), f.loc(n.ast),
                        f"in {key} `{norm(n.ast)}` is reachable without first excluding bool (bool is a subclass of int): "
                        f"True/False would be rendered as 1/0 or as an integer literal")
        for n, v, lab in both:
            # a shared arm is harmless when it only hands the value to the dispatcher that is checked here as well
            # (`Primitive(value=v)`, whose __new__ selects the class through _primitive_cls_from_value)
            arm = _arm_text(cfg, n, lab)
            new_m = prog.method("Primitive", "__new__")
            dispatches = new_m is not None and (dispatcher == "Primitive.__new__" or any(
                isinstance(c, ast.Call) and callee(c) == "_primitive_cls_from_value" for c in ast.walk(new_m.node)))
            delegated = key != dispatcher and dispatches and (
                f"Primitive(value={v})" in arm or f"Primitive({v})" in arm or f"_primitive_cls_from_value({v})" in arm)
            r1.ob(delegated, {"function": key, "shared_arm": arm[:80], "delegates_to_dispatcher": delegated})
            if not delegated:
                res.add("R-C13-1", (key, "bool and int share an arm"), f.loc(n.ast),
                        f"in {key} `{norm(n.ast)}` sends bool and int to the same arm")

    # ---------------------------------------------------------------- R-C13-2
    r2 = res.rule("R-C13-2", "non-raw string payloads pass the escaper on every rendering path; raw_string=True is set only by "
                  "parser code; whoever rewrites a string payload resets raw_string", floor=4)
    for key, fieldname in (("StringPrimitive._render_value", "value"), ("IndentedString.rebuild", "value")):
        f = prog.func(key)
        res.analysed_functions.add(key)
        flow = FnFlow(f.node)
        rets = [n for n in flow.cfg.nodes if n.kind == "return"]
        for rt in rets:
            if isinstance(rt.ast.value, ast.Call) and dotted(rt.ast.value.func) == "self.rebuild_scoped":
                continue
            r2.instances += 1
            ex = flow.expand(rt.ast.value, at=rt)
            raw_edges = edges_establishing(flow.cfg, lambda a, t: dotted(a) == "self.raw_string" and t is True)
            on_raw_side = bool(raw_edges) and flow.cfg.all_paths_pass(rt, cut_edges=raw_edges)  # `if self.raw_string: return …`
            bad = [] if on_raw_side else _unescaped_uses(ex, fieldname)
            r2.ob(not bad, {"function": key, "return": norm(ex)[:120]})
            for b in bad:
                res.add("R-C13-2", (key, "payload reaches output unescaped"), f.loc(rt.ast),
                        f"in {key} `self.{fieldname}` reaches the returned text outside `raw_string` and outside an escaper: "
                        f"`{norm(ex)[:100]}`")
            if not any(isinstance(n, ast.Attribute) and dotted(n) == f"self.{fieldname}" for n in ast.walk(ex)):
                res.add("R-C13-2", (key, "payload not rendered"), f.loc(rt.ast),
                        f"{key} returns `{norm(ex)[:80]}` which does not contain self.{fieldname}")
    # who may set raw_string=True
    for f in prog.all_functions():
        for n in walk_no_nested(f.node):
            sets_true = False
            if isinstance(n, ast.Call):
                for k in n.keywords:
                    if k.arg == "raw_string" and not is_const(k.value, False):
                        sets_true = True
                    if k.arg == "update" and isinstance(k.value, ast.Dict):
                        for kk, vv in zip(k.value.keys, k.value.values):
                            if is_const(kk, "raw_string") and not is_const(vv, False):
                                sets_true = True
            elif isinstance(n, ast.Assign) and any(isinstance(t, ast.Attribute) and t.attr == "raw_string" for t in n.targets) \
                    and not is_const(n.value, False):
                sets_true = True
            if sets_true:
                r2.instances += 1
                ok = f.name == "from_cst" or (f.parent is not None and f.parent.name == "from_cst")
                r2.ob(ok, {"raw_string_set_in": f.key})
                if not ok:
                    res.add("R-C13-2", (f.key, "raw_string set outside parser code"), f.loc(n),
                            f"{f.key} sets raw_string to a non-False value; only from_cst may mark text as already escaped")
    # payload rewrites must reset raw_string
    raw_classes = [c for c in prog.classes if "raw_string" in prog.fields(c)]
    for f in prog.all_functions():
        if f.name in ("__init__", "__post_init__", "from_cst", "__new__"):
            continue
        cfg = None
        for n in walk_no_nested(f.node):
            tgt = None
            if isinstance(n, (ast.Assign, ast.AugAssign)):
                tgts = n.targets if isinstance(n, ast.Assign) else [n.target]
                for t in tgts:
                    if isinstance(t, ast.Attribute) and t.attr == "value" and isinstance(t.value, ast.Name):
                        tgt = t
            if tgt is None:
                continue
            recv = tgt.value.id
            relevant = False
            if recv == "self" and f.cls in raw_classes and "str" in prog.fields(f.cls).get("value", ("", None))[0].replace("Any", "str"):
                relevant = True
            elif recv != "self":
                if cfg is None:
                    flow = FnFlow(f.node)
                    cfg = flow.cfg
                at = cfg.containing(tgt)
                for d in flow.rd.defs_at(at, recv) if at is not None else ():
                    v = getattr(d, "value", None) if isinstance(d, (ast.Assign, ast.AnnAssign)) else None
                    if isinstance(v, ast.Attribute) and v.attr == "value":
                        relevant = True  # the receiver is itself the value of a binding: an expression of unknown kind
            if relevant and recv != "self":
                # the store is reached only where the receiver is a reference (`isinstance(x, Identifier)`): `.value` of an
                # Identifier is its assign-through setter, not the payload of a literal
                e_ident = edges_establishing(cfg, lambda a_, t_, _r=recv: t_ is True and isinstance(a_, ast.Call) and callee(a_) == "isinstance"
                                             and len(a_.args) == 2 and norm(a_.args[0]) == _r and "Identifier" in norm(a_.args[1]))
                at_ = cfg.containing(tgt)
                if e_ident and at_ is not None and cfg.all_paths_pass(at_, cut_edges=e_ident):
                    relevant = False
            if not relevant:
                continue
            r2.instances += 1
            if cfg is None:
                flow = FnFlow(f.node)
                cfg = flow.cfg
            at = cfg.containing(tgt)
            resets = [m for m in cfg.nodes if isinstance(m.ast, ast.Assign) and any(
                isinstance(t, ast.Attribute) and t.attr == "raw_string" and isinstance(t.value, ast.Name) and t.value.id == recv
                for t in m.ast.targets) and is_const(m.ast.value, False)]
            ok = bool(resets) and cfg.postdominated_by(at, resets)
            r2.ob(ok, {"payload_store": f"{f.key}: {norm(n)[:60]}", "raw_string_reset": ok})
            if not ok:
                res.add("R-C13-2", (f.key, "payload rewritten without resetting raw_string", norm(tgt)), f.loc(n),
                        f"{f.key} stores into `{norm(tgt)}` (the payload of an existing literal) without `{recv}.raw_string = "
                        f"False` on every following path: a parsed string literal keeps raw_string=True and the new text is "
                        f"emitted unescaped")
    for f in prog.all_functions():
        if f.cls not in raw_classes:
            continue
        for n in walk_no_nested(f.node):
            if isinstance(n, ast.Call) and callee(n) in ("model_copy", "replace"):
                keys = set()
                for k in n.keywords:
                    if k.arg == "update" and isinstance(k.value, ast.Dict):
                        keys |= {kk.value for kk in k.value.keys if isinstance(kk, ast.Constant)}
                    elif k.arg and callee(n) == "replace":
                        keys.add(k.arg)
                if "value" in keys and "str" in prog.fields(f.cls).get("value", ("", None))[0]:
                    r2.instances += 1
                    ok = "raw_string" in keys
                    r2.ob(ok, {"copy_with_new_payload": f"{f.key}: {norm(n)[:70]}"})
                    if not ok:
                        res.add("R-C13-2", (f.key, "copy with new payload keeps raw_string"), f.loc(n),
                                f"{f.key} copies a string literal with a new value but does not reset raw_string")
    check_writer(prog, res, "R-C13-2w")
    res.rules["R-C13-2w"].description = "string escaper table is complete and decodes back (same analysis as R-C12-1)"

    # ---------------------------------------------------------------- R-C13-3
    r3 = res.rule("R-C13-3", "a coerced Python float is formatted by a dedicated formatter, never by bare repr/str/f-string "
                  "(exponent forms such as 1e-05 have no dot and are not Nix floats)", floor=1)
    f = prog.func("coerce_expression")
    flow = FnFlow(f.node)
    ctor = [c for c in walk_no_nested(f.node) if isinstance(c, ast.Call) and callee(c) == "FloatExpression"]
    r3.instances += len(ctor)
    if not ctor:
        res.unclass("coerce_expression: FloatExpression(...) construction not found")
    for c in ctor:
        v = next((k.value for k in c.keywords if k.arg == "value"), c.args[0] if c.args else None)
        ex = flow.expand(v, at=flow.cfg.containing(c)) if v is not None else None
        bare = ex is None or (isinstance(ex, ast.Call) and isinstance(ex.func, ast.Name) and ex.func.id in ("repr", "str", "format")
                              and len(ex.args) == 1 and not ex.keywords) or isinstance(ex, ast.JoinedStr) and all(
            isinstance(p, ast.FormattedValue) and p.format_spec is None for p in ex.values)
        r3.ob(not bare, {"float_text": norm(ex) if ex is not None else None})
        if bare:
            res.add("R-C13-3", ("coerce_expression", "float rendered by bare repr"), f.loc(c),
                    f"a Python float is rendered with `{norm(ex) if ex is not None else ''}`: repr(1e-05) == '1e-05' has no dot, "
                    f"which Nix reads as the application `1 e-05`")

    # ---------------------------------------------------------------- R-C13-4
    r4 = res.rule("R-C13-4", "list elements are rendered through a kind test (or wrapped): a negative number or another loose "
                  "expression in a list must be parenthesised", floor=2)
    sites = []
    rb = prog.func("NixList.rebuild")
    if "render_item" in rb.nested:
        sites.append(rb.nested["render_item"])
    else:
        sites.append(rb)
    # the compact preview: its own method, or folded into simple_inline_preview
    sites.append(prog.func("NixList._inline_preview") if prog.has_func("NixList._inline_preview") else prog.func("NixList.simple_inline_preview"))
    for s in sites:
        res.analysed_functions.add(s.key)
        renders = [c for c in ast.walk(s.node) if isinstance(c, ast.Call) and callee(c) == "rebuild"]
        r4.instances += len(renders)
        txt = norm(s.node)
        guarded = "Parenthesis(" in txt or "isinstance(" in txt or "needs_paren" in txt or "_wrap" in txt
        r4.ob(guarded, {"site": s.key, "renders": [norm(c)[:60] for c in renders]})
        if not guarded:
            role = "NixList._inline_preview" if s.key in ("NixList._inline_preview", "NixList.simple_inline_preview") else s.key
            res.add("R-C13-4", (role, "element rendered without kind test"), s.loc(),
                    f"{s.key} renders every list element with `{norm(renders[0])[:60] if renders else '?'}` without looking at its "
                    f"kind: NixList([-1, 2]) renders `[ -1 2 ]`, which Nix reads as a subtraction / syntax error")
    # ---------------------------------------------------------------- R-C13-5 no equality-keyed lookup of raw scalars
    r5 = res.rule("R-C13-5", "raw Python scalars are told apart by type, never by equality or hash: in the construction/rendering "
                  "closure no dict/set lookup (or `in` on a collection) is keyed by a value that is still a raw scalar "
                  "(True == 1 == 1.0 and False == 0 share one key), unless the key carries the type", floor=0)
    SCALARS = {"str", "int", "float", "bool", "NoneType", "type(None)", "bytes"}
    n_fn = 0
    for f in prog.all_functions():
        if not f.module.startswith("nix_manipulator/expressions/"):
            continue
        raw = set()
        for c in walk_no_nested(f.node):
            if isinstance(c, ast.Call) and isinstance(c.func, ast.Name) and c.func.id == "isinstance" and len(c.args) == 2 and isinstance(c.args[0], ast.Name):
                ts = c.args[1].elts if isinstance(c.args[1], ast.Tuple) else [c.args[1]]
                names = {norm(t) for t in ts}
                if names & {"int", "float", "bool"}:
                    raw.add(c.args[0].id)
        if not raw:
            continue
        n_fn += 1
        res.analysed_functions.add(f.key)

        def typed(k):
            return isinstance(k, ast.Tuple) and any(isinstance(e, ast.Call) and isinstance(e.func, ast.Name) and e.func.id == "type" for e in k.elts)

        for n in walk_no_nested(f.node):
            key = cont = None
            if isinstance(n, ast.Subscript) and isinstance(n.slice, ast.Name) and n.slice.id in raw and isinstance(n.value, ast.Name):
                key, cont = n.slice, n.value
            elif isinstance(n, ast.Compare) and len(n.ops) == 1 and isinstance(n.ops[0], (ast.In, ast.NotIn)) and isinstance(n.left, ast.Name) \
                    and n.left.id in raw and isinstance(n.comparators[0], ast.Name):
                key, cont = n.left, n.comparators[0]
            elif isinstance(n, ast.Call) and isinstance(n.func, ast.Attribute) and n.func.attr in ("get", "setdefault", "add", "index", "count", "pop") \
                    and n.args and isinstance(n.args[0], ast.Name) and n.args[0].id in raw and isinstance(n.func.value, ast.Name):
                key, cont = n.args[0], n.func.value
            if key is None:
                continue
            # a subscript of the raw value itself (`value[0]`) is not a lookup *by* the value
            r5.instances += 1
            r5.ob(False, {"site": f.key, "lookup": norm(n)[:60]})
            res.add("R-C13-5", (f.key, "lookup keyed by a raw scalar", norm(cont)), f.loc(n),
                    f"{f.key}: `{norm(n)[:70]}` looks `{key.id}` up by equality while it may still be a raw Python scalar: "
                    f"True and 1 (and 1.0), False and 0 are the same key, so `[1, True]` is rendered as `[ 1 1 ]`")
    r5.samples.append({"functions_handling_raw_scalars": n_fn})
    if n_fn < 3:
        res.unclass(f"only {n_fn} functions testing raw scalar types were found in the expression modules (expected coerce_expression, "
                    f"_primitive_cls_from_value, NixList.rebuild.<render_item>, ...)")
    from sa.rules.c01 import no_greedy_strip
    no_greedy_strip(prog, res, "R-C13-6")
    # ---------------------------------------------------------------- R-C13-8 `nested` is parser/CLI state
    r8 = res.rule("R-C13-8", "the `nested` (attrpath-derived) flag is decided by syntax, never by the shape of a Python value: it is "
                  "set only where an attrpath is parsed (Binding.from_cst) or created by the CLI (_set_attrpath_value); no "
                  "construction/coercion path sets it — a nested binding with nothing below it renders as nothing", floor=2)
    WRITERS_OK = {"Binding.from_cst", "_set_attrpath_value"}
    for f in prog.all_functions():
        top = f
        while top.parent is not None:
            top = top.parent
        for n in walk_no_nested(f.node):
            site = None
            if isinstance(n, ast.Assign) and any(isinstance(t, ast.Attribute) and t.attr == "nested" for t in n.targets) and not is_const(n.value, False):
                site = n
            elif isinstance(n, ast.Call) and callee(n) in ("Binding", "cls") and any(k.arg == "nested" and not is_const(k.value, False) for k in n.keywords) \
                    and (callee(n) == "Binding" or top.cls == "Binding"):
                site = n
            if site is None:
                continue
            r8.instances += 1
            ok = top.key in WRITERS_OK
            r8.ob(ok, {"site": top.key, "write": norm(site)[:60]})
            if not ok:
                res.add("R-C13-8", (top.key, "nested flag set outside the parser/CLI"), f.loc(site),
                        f"{top.key}: `{norm(site)[:60]}` marks a binding as attrpath-derived from the shape of a Python value: the set "
                        f"renderer flattens such bindings into their leaves, so a value with no leaves (an empty dict) is rendered as "
                        f"nothing and the binding disappears")
    from sa.rules.c14 import mirrors_follow_values
    mirrors_follow_values(prog, res, "R-C13-9")
    from sa.rules.c12 import one_bare_name_language
    one_bare_name_language(prog, res, "R-C13-7")
    res.assumptions = ["Nix float grammar: a float literal needs a dot; list elements admit only select-level expressions"]
    return res


def _unescaped_uses(expr: ast.AST, fieldname: str) -> list[ast.AST]:
    """occurrences of self.<field> in `expr` that are neither inside an escaper call nor on the raw_string side of a
    conditional expression."""
    bad = []

    def walk(e, safe):
        if isinstance(e, ast.Attribute) and dotted(e) == f"self.{fieldname}":
            if not safe:
                bad.append(e)
            return
        if isinstance(e, ast.Call) and callee(e) in ESCAPERS:
            for a in e.args:
                walk(a, True)
            return
        if isinstance(e, ast.IfExp):
            t, neg = strip_not(e.test)
            if dotted(t) == "self.raw_string":
                walk(e.body, safe or not neg)
                walk(e.orelse, safe or neg)
                return
        for c in ast.iter_child_nodes(e):
            walk(c, safe)

    walk(expr, False)
    return bad
