"""A walk's result is used: after a loop that advances a cursor (`cur = start; for …: cur = next(cur)`), the code that
follows looks things up through the cursor.  Looking them up through `start` again while the cursor is not used at all
means the walk was for nothing — the classic "wrong variable after a refactoring" (e.g. the leaf is searched in the
root set instead of the parent set the walk arrived at)."""
from __future__ import annotations

import ast

from sa.model import Program, norm
from sa.report import Results


def cursor_loops(f):
    out = []
    seqs = []
    for blk in ast.walk(f.node):
        for fld in ("body", "orelse", "finalbody"):
            seq = getattr(blk, fld, None)
            if isinstance(seq, list) and seq and isinstance(seq[0], ast.stmt):
                seqs.append(seq)
    seen = set()
    for seq in seqs:
        for i, st in enumerate(seq):
            if not isinstance(st, (ast.For, ast.While)):
                continue
            for d in ast.walk(st):
                if not (isinstance(d, ast.Assign) and len(d.targets) == 1 and isinstance(d.targets[0], ast.Name)):
                    continue
                c = d.targets[0].id
                init = [p for p in seq[:i] if isinstance(p, (ast.Assign, ast.AnnAssign))
                        and norm(p.targets[0] if isinstance(p, ast.Assign) else p.target) == c and getattr(p, "value", None) is not None]
                if not init or not isinstance(init[-1].value, (ast.Name, ast.Attribute)):
                    continue
                if (id(st), c) in seen:
                    continue
                seen.add((id(st), c))
                out.append((st, c, init[-1].value, seq[i + 1:]))
    return out


def check(prog: Program, res: Results, rid: str, modules: tuple[str, ...], floor: int) -> None:
    r = res.rule(rid, "a walk's result is used: after a loop that advances a cursor from a start object, the statements that follow "
                 "do not go back to the start object for lookups while ignoring the cursor", floor=floor)
    for f in prog.all_functions():
        if not f.module.endswith(modules):
            continue
        for st, c, iv, after in cursor_loops(f):
            if not after:
                continue
            r.instances += 1
            base = norm(iv)
            root = base.split(".")[0]
            uses_c = any(isinstance(x, ast.Name) and x.id == c and isinstance(x.ctx, ast.Load) for a in after for x in ast.walk(a))
            base_uses = [x for a in after for x in ast.walk(a)
                         if (isinstance(x, ast.Attribute) and norm(x.value) == base and x.attr in ("values", "value", "scope", "local_variables", "attrpath_order"))
                         or (isinstance(x, ast.Subscript) and norm(x.value) == base)
                         or (isinstance(x, ast.Call) and any(norm(a_) == base for a_ in x.args) and getattr(x.func, "id", "").startswith("_find"))]
            ok = uses_c or not base_uses
            r.ob(ok, {"site": f.key, "cursor": c, "start": base, "after_loop_uses_cursor": uses_c})
            if not ok:
                res.add(rid, (f.key, "lookup through the start object after the walk", c), f.loc(base_uses[0]),
                        f"{f.key}: after walking `{c}` from `{base}` the code looks up `{norm(base_uses[0])[:60]}` in the start object and "
                        f"never uses `{c}`: for a dotted path the leaf is searched in the wrong set (a same-named top-level attribute "
                        f"answers for the nested one)")
