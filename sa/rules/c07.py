"""C07 — sources with syntax errors are passed through untouched and never edited (gate + dominance rules)."""
from __future__ import annotations

import ast

from sa.cfg import CFG, ReachingDefs, edges_establishing
from sa.model import AnalysisError, Program, norm, walk_no_nested
from sa.report import Results
from sa.util import parent_map, assignments_to, callee, dotted, exc_name, is_const

STRUCTURED_CALLS = {"tree_sitter_node_to_expression", "parse_delimited_sequence", "source_bytes_context", "from_cst",
                    "parse_binding_sequence", "parse_let_expression"}
REWRITING_METHODS = {"strip", "lstrip", "rstrip", "replace", "expandtabs", "splitlines", "split", "lower", "upper", "title",
                     "removeprefix", "removesuffix", "translate", "normalize", "join", "format", "dedent", "sub", "partition"}


def _contains(root: ast.AST, node: ast.AST) -> bool:
    return any(n is node for n in ast.walk(root))


# exits that precede the error gate and cannot be taken for parser output: (function, statement) -> reason
REVIEWED_PRE_GATE = {
    ("NixSourceCode.from_cst", "raise ValueError('Missing source text')"): "guards `node.text is None`; a tree-sitter node parsed from bytes always carries its text "
    "(the raw text is exactly what pass-through needs)",
}


def _utf8(prog: Program, module: str, a: ast.AST) -> bool:
    """the argument names UTF-8: a literal, or a module-level constant bound to one"""
    if isinstance(a, ast.Name):
        a = prog.module_assigns.get(module, {}).get(a.id, a)
    return isinstance(a, ast.Constant) and isinstance(a.value, str) and a.value.lower().replace("_", "-") in ("utf-8", "utf8")


def run(prog: Program) -> Results:
    res = Results("C07")
    fc = prog.func("NixSourceCode.from_cst")
    parse = prog.func("parse")
    p2a = prog.func("parse_to_ast")
    sv = prog.func("set_value")
    raw_rebuild = prog.func("RawExpression.rebuild")
    res.analysed_functions |= {fc.key, parse.key, p2a.key, sv.key, raw_rebuild.key}
    fn = fc.node
    cfg = CFG(fn)
    node_param = fc.params()[1] if len(fc.params()) > 1 else None
    if node_param is None:
        raise AnalysisError("NixSourceCode.from_cst lost its node parameter")

    # ---------------------------------------------------------------- R-C07-1 the gate
    r1 = res.rule("R-C07-1", "the syntax-error predicate is computed from the root node by an accepted idiom and its false "
                  "edge dominates every call into structured parsing; the true arm returns one RawExpression", floor=4)
    # the gate test: an `if <name>` whose true arm returns cls(..., contains_error=True)
    gates = []
    for t in cfg.nodes:
        if t.kind == "test" and isinstance(getattr(t, "stmt", None), ast.If):
            body = ast.Module(body=t.stmt.body, type_ignores=[])
            for r in ast.walk(body):
                if isinstance(r, ast.Return) and isinstance(r.value, ast.Call) and any(
                        k.arg == "contains_error" and is_const(k.value, True) for k in r.value.keywords):
                    gates.append((t, r))
    if len(gates) != 1:
        res.add("R-C07-1", ("NixSourceCode.from_cst", "gate"), fc.loc(),
                f"expected exactly one `if <error predicate>: return cls(..., contains_error=True)` gate, found {len(gates)}")
        return res
    gate, raw_return = gates[0]
    r1.instances += 1
    gate_names = {n.id for n in ast.walk(gate.ast) if isinstance(n, ast.Name)}

    def predicate_ok(e: ast.AST, depth=0) -> bool:
        """accepted idioms: <node>.has_error ; a nested recursive scan for type == 'ERROR' applied to <node> ; False."""
        if isinstance(e, ast.Constant) and e.value is False:
            return True
        if isinstance(e, ast.Attribute) and e.attr == "has_error" and isinstance(e.value, ast.Name) and e.value.id == node_param:
            return True
        if isinstance(e, ast.Call) and isinstance(e.func, ast.Name) and len(e.args) == 1 \
                and isinstance(e.args[0], ast.Name) and e.args[0].id == node_param and (
                    e.func.id in fc.nested or (e.func.id in prog.funcs and prog.funcs[e.func.id].cls is None)):
            inner = (fc.nested.get(e.func.id) or prog.funcs[e.func.id]).node  # nested or module-level scanner
            txt = norm(inner)
            scans = "'ERROR'" in txt and ".children" in txt and f"{e.func.id}(" in txt and ".type" in txt
            return scans
        if isinstance(e, ast.IfExp):  # `<root>.has_error if <it exists> else <scan>(root)`
            return predicate_ok(e.body, depth + 1) and predicate_ok(e.orelse, depth + 1)
        if isinstance(e, ast.BoolOp) and isinstance(e.op, ast.Or):
            return all(predicate_ok(v, depth + 1) for v in e.values)
        if isinstance(e, ast.Call) and isinstance(e.func, ast.Name) and e.func.id == "getattr" and len(e.args) >= 2 and isinstance(e.args[0], ast.Name) \
                and e.args[0].id == node_param and isinstance(e.args[1], ast.Constant) and e.args[1].value == "has_error":
            return True  # getattr(<root>, "has_error", None): the same attribute, read defensively
        if isinstance(e, ast.Name) and depth < 3:
            ds = assignments_to(fn, e.id)
            return bool(ds) and all(isinstance(d, (ast.Assign, ast.AnnAssign, ast.NamedExpr)) and predicate_ok(d.value, depth + 1) for d in ds)
        return False

    if not isinstance(gate.ast, ast.Name):
        ok = predicate_ok(gate.ast)
    else:
        ok = predicate_ok(gate.ast)
        # at least one definition must be a real predicate (not only the False initialiser)
        ds = assignments_to(fn, gate.ast.id)
        ok = ok and any(not (isinstance(d.value, ast.Constant)) for d in ds if isinstance(d, (ast.Assign, ast.AnnAssign)))
    r1.ob(ok, {"gate": norm(gate.ast), "definitions": [norm(d) for n in gate_names for d in assignments_to(fn, n)][:6]})
    if not ok:
        res.add("R-C07-1", ("NixSourceCode.from_cst", "error predicate"), fc.loc(gate.ast),
                f"the gate `{norm(gate.ast)}` is not computed by an accepted idiom (<root>.has_error, or a recursive scan "
                f"for ERROR nodes over the whole tree); part of the damaged texts would be parsed structurally")
    structured = []
    for c in walk_no_nested(fn):
        if isinstance(c, ast.Call) and callee(c) in STRUCTURED_CALLS:
            structured.append(c)
    for g in fc.nested.values():
        for c in ast.walk(g.node):
            if isinstance(c, ast.Call) and callee(c) in STRUCTURED_CALLS:
                # closure bodies run only when called/passed: locate the call sites of the closure in fn
                for use in walk_no_nested(fn):
                    if isinstance(use, ast.Name) and use.id == g.name and isinstance(use.ctx, ast.Load):
                        structured.append(use)
    r1.instances += len(structured)
    for c in structured:
        n = cfg.containing(c)
        if n is None:
            raise AnalysisError(f"from_cst: cannot place `{norm(c)[:40]}` in the CFG")
        ok = cfg.all_paths_pass(n, cut_edges=[(gate, False)])
        r1.ob(ok, {"call": norm(c)[:60], "dominated_by": "gate false edge"})
        if not ok:
            res.add("R-C07-1", ("NixSourceCode.from_cst", "structured parsing before gate", callee(c) if isinstance(c, ast.Call) else c.id),
                    fc.loc(c), f"`{norm(c)[:60]}` is reachable without passing the false edge of the syntax-error gate")
    # true arm shape
    rv = raw_return.value
    exprs = next((k.value for k in rv.keywords if k.arg == "expressions"), None)
    if isinstance(exprs, ast.List) and len(exprs.elts) == 1 and isinstance(exprs.elts[0], ast.Name):
        ds = assignments_to(fn, exprs.elts[0].id)  # `verbatim = RawExpression(…)` named before the return
        if len(ds) == 1 and isinstance(ds[0], ast.Assign):
            exprs = ast.List(elts=[ds[0].value], ctx=ast.Load())
    trailing = next((k.value for k in rv.keywords if k.arg == "trailing"), None)
    ok = isinstance(exprs, ast.List) and len(exprs.elts) == 1 and isinstance(exprs.elts[0], ast.Call) \
        and callee(exprs.elts[0]) == "RawExpression"
    ok_tr = trailing is None or (isinstance(trailing, ast.List) and not trailing.elts)
    r1.ob(ok and ok_tr, {"true_arm": norm(rv)[:100]})
    if not ok or not ok_tr:
        res.add("R-C07-1", ("NixSourceCode.from_cst", "raw arm shape"), fc.loc(raw_return),
                "the error arm does not return exactly one RawExpression with empty trailing trivia")
        return res
    # the true arm must not fall through
    arm_nodes = cfg.reachable(gate, removed_edges=[(gate, False)], follow_exc=False)
    falls = any(_contains(fn, n.ast) and n.kind != "return" and any(m not in arm_nodes for _, m in n.succ if m is not cfg.raise_exit)
                for n in arm_nodes if n is not gate and n.ast is not None)
    r1.ob(not falls, {"true_arm_terminates": not falls})
    if falls:
        res.add("R-C07-1", ("NixSourceCode.from_cst", "raw arm falls through"), fc.loc(gate.ast),
                "the error arm can fall through into structured parsing")

    # ---------------------------------------------------------------- R-C07-2 raw text = the whole input
    # the gate is reached for every input: nothing between the entry of parse()/from_cst and the gate may reject
    for key in ("parse", "NixSourceCode.from_cst"):
        g = prog.func(key)
        gcfg = CFG(g.node)
        if key == "parse":
            goal = [n for n in gcfg.nodes if n.ast is not None and n.kind in ("stmt", "return", "test") and any(
                isinstance(c, ast.Call) and norm(c.func).endswith("from_cst") for c in ast.walk(n.ast))]
        else:
            goal = [n for n in gcfg.nodes if n.kind == "test" and n.ast is gate.ast] or [n for n in gcfg.nodes if n.kind == "test" and norm(n.ast) == norm(gate.ast)]
        r1.instances += 1
        if not goal:
            res.unclass(f"{key}: the call into NixSourceCode.from_cst / the error gate was not found")
            continue
        early = []
        for n in gcfg.nodes:
            if isinstance(n.ast, (ast.Raise, ast.Assert)) or (n.kind == "return" and n not in goal):
                if not gcfg.all_paths_pass(n, cut_nodes=goal):
                    early.append(n)
        early = [n for n in early if (key, norm(n.ast)) not in REVIEWED_PRE_GATE]
        r1.ob(not early, {"function": key, "exits_before_the_gate": [norm(n.ast)[:50] for n in early], "reviewed": len(REVIEWED_PRE_GATE)})
        for n in early:
            res.add("R-C07-1", (key, "exit before the error gate", type(n.ast).__name__), g.loc(n.ast),
                    f"{key}: `{norm(n.ast)[:70]}` can leave before the syntax-error gate is consulted: a text whose tree-sitter root is "
                    f"itself an ERROR node (nothing recoverable) is rejected with an exception instead of being passed through")
    r2 = res.rule("R-C07-2", "the raw text is the complete parser input (no strip/slice/normalise in between) and "
                  "RawExpression.rebuild returns it unchanged", floor=3)
    raw_call = exprs.elts[0]
    targ = next((k.value for k in raw_call.keywords if k.arg == "text"), raw_call.args[0] if raw_call.args else None)
    params = fc.params()
    bytes_param = next((p for p in params[2:] if "byte" in p or "source" in p), None)

    chain: list[str] = []

    rd = ReachingDefs(cfg)

    def whole_input(e: ast.AST, at, depth=0) -> str:
        """'input' if e (evaluated at CFG node `at`) is exactly the parser-input parameter (decoded), 'node' if it is
        <root>.text, 'mixed' if it depends on the path, 'bad:<why>' otherwise.  Flow-sensitive (reaching definitions)."""
        chain.append(norm(e)[:60])
        if depth > 8:
            return "bad:too deep"
        if isinstance(e, ast.Call) and isinstance(e.func, ast.Attribute) and e.func.attr == "decode":
            if any(not _utf8(prog, fc.module, a) for a in e.args) or \
                    any(k.arg == "errors" for k in e.keywords):
                return "bad:lossy decode"
            return whole_input(e.func.value, at, depth + 1)
        if isinstance(e, ast.Name):
            ds = rd.defs_at(at, e.id)
            if not ds:
                return f"bad:unbound {e.id}"
            kinds = set()
            for d in ds:
                if d == "PARAM":
                    kinds.add("input" if e.id == bytes_param else f"bad:parameter {e.id}")
                elif isinstance(d, (ast.Assign, ast.AnnAssign)) and d.value is not None:
                    kinds.add(whole_input(d.value, cfg.node_of(d), depth + 1))
                else:
                    kinds.add("bad:bound by a loop/with")
            bad = [k for k in kinds if k.startswith("bad")]
            if bad:
                return bad[0]
            return kinds.pop() if len(kinds) == 1 else "mixed"
        if isinstance(e, ast.Attribute) and e.attr == "text" and isinstance(e.value, ast.Name) and e.value.id == node_param:
            return "node"
        if isinstance(e, ast.IfExp):
            a, b = whole_input(e.body, at, depth + 1), whole_input(e.orelse, at, depth + 1)
            for k in (a, b):
                if k.startswith("bad"):
                    return k
            # `param if param is not None else node.text`: the fallback may only be taken when no input was given
            t = norm(e.test)
            if {a, b} == {"input", "node"} and bytes_param and bytes_param in t and "None" in t:
                return "input"
            if a == b:
                return a
            return "mixed"
        if isinstance(e, ast.Call) and isinstance(e.func, ast.Attribute) and e.func.attr in REWRITING_METHODS:
            return f"bad:rewritten by .{e.func.attr}()"
        if isinstance(e, ast.Subscript):
            return "bad:sliced"
        if isinstance(e, ast.BinOp):
            return "bad:concatenated"
        return f"bad:{type(e).__name__}"

    r2.instances += 1
    kind = whole_input(targ, cfg.containing(raw_call)) if targ is not None else "bad:no text argument"
    ok = kind == "input"
    r2.ob(ok, {"raw_text_chain": chain[:8], "verdict": kind})
    if not ok:
        why = {"node": "it is <root node>.text, which starts at the first token (leading whitespace of the input is lost)",
               "mixed": "on some path it is <root node>.text instead of the parser input"}.get(kind, kind[4:] if kind.startswith("bad:") else kind)
        res.add("R-C07-2", ("NixSourceCode.from_cst", "raw text source"), fc.loc(raw_call),
                f"the text kept for an erroneous source is not the complete parser input: {why}")
    # parse(): from_cst receives the same bytes that were parsed, derived from the parameter by encode only
    pfn = parse.node
    src_param = parse.params()[0]
    calls_fc = [c for c in ast.walk(pfn) if isinstance(c, ast.Call) and dotted(c.func) == "NixSourceCode.from_cst"]
    calls_ast = [c for c in ast.walk(pfn) if isinstance(c, ast.Call) and callee(c) == "parse_to_ast"]
    r2.instances += 1
    if len(calls_fc) != 1 or len(calls_ast) != 1:
        raise AnalysisError("parse(): expected one parse_to_ast call and one NixSourceCode.from_cst call")

    def encoded_param(e, depth=0):
        if isinstance(e, ast.Name) and e.id == src_param and not assignments_to(pfn, src_param):
            return True
        if isinstance(e, ast.Name) and depth < 3:
            ds = assignments_to(pfn, e.id)
            return bool(ds) and all(isinstance(d, (ast.Assign, ast.AnnAssign)) and encoded_param(d.value, depth + 1) for d in ds)
        if isinstance(e, ast.Call) and isinstance(e.func, ast.Attribute) and e.func.attr == "encode" \
                and all(_utf8(prog, parse.module, a) for a in e.args) and not any(k.arg == "errors" for k in e.keywords):
            return encoded_param(e.func.value, depth + 1)
        if isinstance(e, ast.IfExp):
            return encoded_param(e.body, depth + 1) and encoded_param(e.orelse, depth + 1)
        return False

    bytes_kw = None
    if bytes_param:
        bytes_kw = next((k.value for k in calls_fc[0].keywords if k.arg == bytes_param), None)
        if bytes_kw is None and len(calls_fc[0].args) >= 2:
            bytes_kw = calls_fc[0].args[1]
    ok = bytes_kw is not None and encoded_param(bytes_kw)
    r2.ob(ok, {"parse_passes": norm(bytes_kw) if bytes_kw is not None else None})
    if not ok:
        res.add("R-C07-2", ("parse", "input bytes not forwarded"), parse.loc(calls_fc[0]),
                "parse() does not hand its complete, unmodified input bytes to NixSourceCode.from_cst")
    a_arg = calls_ast[0].args[0] if calls_ast[0].args else (calls_ast[0].keywords[0].value if calls_ast[0].keywords else None)
    ok = a_arg is not None and encoded_param(a_arg)
    r2.ob(ok, {"parse_to_ast_arg": norm(a_arg) if a_arg is not None else None})
    if not ok:
        res.add("R-C07-2", ("parse", "parsed bytes differ from input"), parse.loc(calls_ast[0]),
                "the text handed to the tree-sitter parser is not the unmodified input")
    # every other construction site of the document must forward the parsed bytes too
    for f in prog.all_functions():
        if f.key == parse.key:
            continue
        for c in walk_no_nested(f.node):
            if isinstance(c, ast.Call) and dotted(c.func) == "NixSourceCode.from_cst":
                r2.instances += 1
                kw = next((k.value for k in c.keywords if k.arg == bytes_param), c.args[1] if len(c.args) >= 2 else None)
                asts = [x for x in walk_no_nested(f.node) if isinstance(x, ast.Call) and callee(x) == "parse_to_ast"]
                parsed = None
                if asts:
                    parsed = asts[0].args[0] if asts[0].args else (asts[0].keywords[0].value if asts[0].keywords else None)
                okc = kw is not None and parsed is not None and norm(kw) == norm(parsed)
                r2.ob(okc, {"site": f.key, "from_cst_bytes": norm(kw) if kw is not None else None})
                if not okc:
                    res.add("R-C07-2", (f.key, "input bytes not forwarded"), f.loc(c),
                            f"{f.key} builds the document with NixSourceCode.from_cst but does not hand it the bytes that were "
                            f"parsed: an erroneous source falls back to <root>.text and loses its leading whitespace")
    # RawExpression.rebuild: every return is self.text, add_trivia(self.text, ...) or rebuild_scoped
    for rt in [n for n in ast.walk(raw_rebuild.node) if isinstance(n, ast.Return)]:
        r2.instances += 1
        v = rt.value
        ok = dotted(v) == "self.text" or (isinstance(v, ast.Call) and dotted(v.func) == "self.rebuild_scoped") or (
            isinstance(v, ast.Call) and dotted(v.func) == "self.add_trivia" and v.args and dotted(v.args[0]) == "self.text")
        r2.ob(ok, {"RawExpression.rebuild": norm(rt)})
        if not ok:
            res.add("R-C07-2", ("RawExpression.rebuild", "return", norm(rt)), raw_rebuild.loc(rt),
                    f"RawExpression.rebuild returns `{norm(v)}` instead of the unchanged raw text")
    # the plain return must be the one taken when there is no trivia
    rcfg = CFG(raw_rebuild.node)
    plain = [n for n in rcfg.nodes if n.kind == "return" and dotted(n.ast.value) == "self.text"]
    ok = bool(plain)
    r2.ob(ok, {"plain_return_exists": ok})
    if not ok:
        res.add("R-C07-2", ("RawExpression.rebuild", "no verbatim return"), raw_rebuild.loc(),
                "RawExpression.rebuild has no path that returns self.text verbatim")

    # ---------------------------------------------------------------- R-C07-3 edits refuse raw documents / raw values
    r3 = res.rule("R-C07-3", "neither target resolver accepts RawExpression and both default arms raise ValueError; set_value "
                  "rejects a value that is not exactly one non-raw expression before any use; contains_error is written only "
                  "by NixSourceCode.__init__", floor=4)
    for key in ("_resolve_target_set_from_expr", "NixSourceCode._resolve_target_set.<resolve_from_expr>"):
        f = prog.func(key)
        res.analysed_functions.add(key)
        from sa.util import match_form
        fnode = match_form(f.node)  # a chain of `if isinstance(target, C): … return` reads as the match it stands for
        ms = [n for n in walk_no_nested(fnode) if isinstance(n, ast.Match)]
        if len(ms) != 1:
            raise AnalysisError(f"{key}: expected exactly one match statement")
        m = ms[0]
        r3.instances += 1
        accepted = []
        wildcard_ok = True
        for c in m.cases:
            p = c.pattern
            if isinstance(p, ast.MatchClass):
                cn = norm(p.cls)
                accepted.append(cn)
                if cn in ("RawExpression", "NixExpression", "object"):
                    res.add("R-C07-3", (key, "accepts raw", cn), f.loc(c.pattern),
                            f"{key} has a case `{cn}()` that matches RawExpression: an erroneous document could be edited")
            elif isinstance(p, ast.MatchAs) and p.pattern is None:
                body = ast.Module(body=c.body, type_ignores=[])
                rs = [n for n in ast.walk(body) if isinstance(n, ast.Raise)]
                if not (c.body and isinstance(c.body[-1], ast.Raise) and exc_name(c.body[-1].exc) == "ValueError"):
                    wildcard_ok = False
        # after the match: fallthrough must raise ValueError
        fcfg = CFG(fnode)
        mnode = next(n for n in fcfg.nodes if n.kind == "test" and getattr(n, "stmt", None) is m)
        fall = [(lab, s) for lab, s in mnode.succ if lab == ("case", None)]
        fall_ok = all(s.kind == "raise" and exc_name(s.ast.exc) == "ValueError" for _, s in fall)
        ok = wildcard_ok and fall_ok and "RawExpression" not in accepted
        r3.ob(ok, {"resolver": key, "cases": accepted, "default": "raise ValueError"})
        if not wildcard_ok or not fall_ok:
            res.add("R-C07-3", (key, "default arm"), f.loc(m),
                    f"the default arm of {key} does not raise ValueError (an unsupported/raw top-level expression must be refused)")
    # set_value: value gate.  Stated on expressions, not on local names: L = parse(<value>).expressions (however it is named);
    # an element of L reaches the edit only where `len(L) == 1` and "the element is not a RawExpression" (or
    # `parse(<value>).contains_error` is false) have been established
    from sa.util import Aliases
    fnv = sv.node
    vcfg = CFG(fnv)
    value_param = sv.params()[2] if len(sv.params()) > 2 else None
    al = Aliases(fnv, calls=("parse",))
    L = f"parse({value_param}).expressions"
    parses = [d for d in ast.walk(fnv) if isinstance(d, ast.Call) and callee(d) == "parse" and d.args]
    as_given = [d for d in parses if isinstance(d.args[0], ast.Name) and d.args[0].id == value_param]
    if not as_given:
        # the value is parsed, but not as given: any rewriting (strip, slice, normalise) lets text through that is not one expression
        rewritten = [d for d in parses if any(isinstance(x, ast.Name) and x.id == value_param for x in ast.walk(d.args[0]))]
        if rewritten:
            r3.instances += 1
            r3.ob(False, {"value_parse": norm(rewritten[0])[:60]})
            res.add("R-C07-3", ("set_value", "value rewritten before it is validated"), sv.loc(rewritten[0]),
                    f"set_value parses `{norm(rewritten[0].args[0])[:50]}` instead of the value as given: what the rewrite removes (e.g. "
                    f"str.strip() also removes U+00A0, U+2028, U+3000 …, which Nix does not treat as blanks) is no longer checked, so a "
                    f"value that is not exactly one well-formed expression is accepted")
            return res
        raise AnalysisError("set_value: `parse(value)` not found")

    def is_L(e) -> bool:
        return al.norm(e) == L

    def is_elem(e) -> bool:
        return (isinstance(e, ast.Subscript) and is_L(e.value)) or (isinstance(e, ast.Name) and e.id in elem_names)

    # names that hold the element: `v = L[0]`, `(v,) = L`, copies of those
    elem_names: set = set()
    changed = True
    while changed:
        changed = False
        for d in walk_no_nested(fnv):
            if not (isinstance(d, ast.Assign) and len(d.targets) == 1):
                continue
            t = d.targets[0]
            new = None
            if isinstance(t, ast.Name) and is_elem(d.value):
                new = t.id
            elif isinstance(t, (ast.Tuple, ast.List)) and len(t.elts) == 1 and isinstance(t.elts[0], ast.Name) and is_L(d.value):
                new = t.elts[0].id
            if new and new not in elem_names:
                elem_names.add(new)
                changed = True
    # sinks: the element handed to anything but a test
    uses = []
    for st in vcfg.nodes:
        if st.ast is None or st.kind not in ("stmt", "return"):
            continue
        for c in ast.walk(st.ast):
            if isinstance(c, ast.Call) and callee(c) not in ("isinstance", "len", "type") and any(is_elem(a) for a in list(c.args) + [k.value for k in c.keywords]):
                uses.append((c, st))
    r3.instances += len(uses)
    if not uses:
        raise AnalysisError("set_value: the value expression is never handed to the edit")

    def not_raw(a, truth):
        return isinstance(a, ast.Call) and callee(a) == "isinstance" and len(a.args) == 2 and is_elem(a.args[0]) \
            and "RawExpression" in norm(a.args[1]) and truth is False

    def single(a, truth):
        if not (isinstance(a, ast.Compare) and len(a.ops) == 1 and isinstance(a.left, ast.Call) and callee(a.left) == "len"
                and a.left.args and is_L(a.left.args[0]) and is_const(a.comparators[0], 1)):
            return False
        return (isinstance(a.ops[0], ast.NotEq) and truth is False) or (isinstance(a.ops[0], ast.Eq) and truth is True)

    def no_error(a, truth):
        return al.norm(a) == f"parse({value_param}).contains_error" and truth is False

    e_raw = edges_establishing(vcfg, not_raw) + edges_establishing(vcfg, no_error)
    e_one = edges_establishing(vcfg, single)
    unpacks = [vcfg.node_of(d) for d in walk_no_nested(fnv) if isinstance(d, ast.Assign) and isinstance(d.targets[0], (ast.Tuple, ast.List))
               and len(d.targets[0].elts) == 1 and is_L(d.value)]  # `(v,) = L` raises ValueError unless len(L) == 1
    for n, st in uses:
        a = vcfg.all_paths_pass(st, cut_edges=e_raw)
        b = vcfg.all_paths_pass(st, cut_edges=e_one, cut_nodes=[u for u in unpacks if u is not None])
        r3.ob(a and b, {"use": norm(st.ast)[:70], "guards": ["not RawExpression", "len == 1"]})
        if not a:
            res.add("R-C07-3", ("set_value", "value may be raw"), sv.loc(n),
                    f"`{norm(st.ast)[:60]}` is reachable without establishing that the parsed VALUE is not a RawExpression "
                    f"(a VALUE with a syntax error could be written into the document)")
        if not b:
            res.add("R-C07-3", ("set_value", "value may be several expressions"), sv.loc(n),
                    f"`{norm(st.ast)[:60]}` is reachable without establishing len(expressions) == 1")
    # the rejecting arms raise ValueError
    for t, lab in set(e_raw + e_one):
        reach = vcfg.reachable(t, removed_edges=[(t, lab)], follow_exc=False)
        first = [s for l, s in t.succ if l == (not lab)]
        ok = all(s.kind == "raise" and exc_name(s.ast.exc) == "ValueError" for s in first)
        r3.ob(ok, {"reject_arm": norm(t.ast)[:70]})
        if not ok:
            res.add("R-C07-3", ("set_value", "reject arm"), sv.loc(t.ast),
                    "the arm rejecting an invalid VALUE does not raise ValueError immediately")
    # who-may-write contains_error
    for f in prog.all_functions():
        for n in walk_no_nested(f.node):
            if isinstance(n, ast.Attribute) and isinstance(n.ctx, (ast.Store, ast.Del)) and n.attr == "contains_error":
                r3.instances += 1
                ok = f.key == "NixSourceCode.__init__"
                r3.ob(ok, {"writer": f.key})
                if not ok:
                    res.add("R-C07-3", (f.key, "writes contains_error"), f.loc(n),
                            f"{f.key} writes `.contains_error`; only NixSourceCode.__init__ may set it")

    # ---------------------------------------------------------------- R-C07-4 nima test
    from sa.rules import c16
    r4 = res.rule("R-C07-4", "`nima test`: OK/return 0 are dominated by the false edge of contains_error (shared with R-C16-1)",
                  floor=1)
    sub = c16.run(prog)
    st16 = sub.rules.get("R-C16-1")
    r4.instances = st16.instances if st16 else 0
    r4.obligations = st16.obligations if st16 else 0
    r4.discharged = st16.discharged if st16 else 0
    for f in sub.findings:
        if f.rule == "R-C16-1":
            res.add("R-C07-4", f.key, f.where, f.message)
    st162 = sub.rules.get("R-C16-2")
    r7 = res.rule("R-C07-7", "the value is judged as supplied: the CLI hands VALUE to set_value unmodified and writes nothing but its "
                  "result (shared with R-C16-2) — a repaired value would pass the validity check in place of the invalid one", floor=2)
    if st162:
        r7.instances, r7.obligations, r7.discharged = st162.instances, st162.obligations, st162.discharged
    for f in sub.findings:
        if f.rule == "R-C16-2":
            res.add("R-C07-7", f.key, f.where, f.message)
    res.analysed_functions.add("main")
    # ---------------------------------------------------------------- R-C07-5 the shape gate cannot be bypassed
    r5 = res.rule("R-C07-5", "the document's top-level expression becomes an edit target only through the shape gate "
                  "(_resolve_target_set_from_expr, whose default arm refuses the raw node of an erroneous document): elsewhere in the "
                  "CLI edit code `source.expressions[i]` is only inspected (type tests, attribute reads), never returned, stored or "
                  "passed on", floor=2)
    GATE = {"_resolve_target_set_from_expr"}
    INSPECT = {"isinstance", "getattr", "hasattr", "len", "type", "id", "bool"}
    for f in prog.all_functions():
        if f.module != "nix_manipulator/cli/manipulations.py":
            continue
        docs = {a.arg for a in f.node.args.posonlyargs + f.node.args.args + f.node.args.kwonlyargs
                if a.annotation is not None and "NixSourceCode" in ast.unparse(a.annotation)}
        if not docs:
            continue
        pm = parent_map(f.node)
        tops = set()  # locals holding the top-level expression
        reads = []
        for n in ast.walk(f.node):
            if isinstance(n, ast.Subscript) and isinstance(n.value, ast.Attribute) and n.value.attr == "expressions" \
                    and isinstance(n.value.value, ast.Name) and n.value.value.id in docs and isinstance(n.ctx, ast.Load):
                reads.append(n)
                par = pm.get(n)
                if isinstance(par, ast.Assign) and par.value is n:
                    for t in par.targets:
                        if isinstance(t, ast.Name):
                            tops.add(t.id)
        if not reads:
            continue
        res.analysed_functions.add(f.key)
        uses = list(reads) + [n for n in ast.walk(f.node) if isinstance(n, ast.Name) and n.id in tops and isinstance(n.ctx, ast.Load)]
        for u in uses:
            par = pm.get(u)
            r5.instances += 1
            verdict = "inspect"
            if isinstance(par, ast.Assign) and par.value is u:
                verdict = "inspect" if all(isinstance(t, ast.Name) for t in par.targets) else "stored"
            elif isinstance(par, ast.Call) and u in par.args or (isinstance(par, ast.keyword)):
                call = par if isinstance(par, ast.Call) else pm.get(par)
                cn = callee(call) if isinstance(call, ast.Call) else None
                verdict = "gate" if cn in GATE else ("inspect" if cn in INSPECT else f"passed to {cn}")
            elif isinstance(par, ast.Return):
                verdict = "returned"
            elif isinstance(par, (ast.Attribute,)) and isinstance(par.ctx, ast.Load):
                verdict = "inspect"
            elif isinstance(par, (ast.Attribute, ast.Subscript)) and isinstance(par.ctx, (ast.Store, ast.Del)):
                verdict = "written"
            elif isinstance(par, (ast.Tuple, ast.List, ast.Dict, ast.Starred)):
                verdict = "stored"
            ok = verdict in ("inspect", "gate")
            r5.ob(ok, {"site": f.key, "use": norm(par)[:60] if par is not None else norm(u), "verdict": verdict})
            if not ok:
                res.add("R-C07-5", (f.key, "top-level expression bypasses the shape gate", verdict), f.loc(u),
                        f"{f.key}: the document's top-level expression `{norm(u)}` is {verdict} without passing "
                        f"_resolve_target_set_from_expr: for a file with a syntax error that expression is the raw pass-through node, "
                        f"so `set`/`rm` would edit and emit a broken file instead of refusing")
    from sa.rules import c15 as _shared_c15_6
    _sub = _shared_c15_6.run(prog)
    _st = _sub.rules.get("R-C15-4")
    _r = res.rule("R-C07-6", "what is parsed is what is on disk now: no parse entry point is memoised over a file read, and nothing one-shot or shared is stored in a document (shared with R-C15-4)", floor=100)
    if _st:
        _r.instances, _r.obligations, _r.discharged = _st.instances, _st.obligations, _st.discharged
    for _f in _sub.findings:
        if _f.rule == "R-C15-4":
            res.add("R-C07-6", _f.key, _f.where, _f.message)
    res.assumptions = ["tree-sitter's has_error flags every damaged text (external parser contract)"]
    return res
