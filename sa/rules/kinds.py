"""Element-kind agreement between the parser and `format_inline_comment_suffix`.

That helper calls `.rebuild()` on every element, so it may only be given lists that hold Comment objects and nothing else.
Trivia lists filled by the collectors also hold the layout sentinels (linebreak / empty_line), which have no rebuild().
For each slot handed to the helper the writers in the class's from_cst are examined: the list must be built only from
the *inline* half of split_inline_comments, from appended Comment expressions, or start empty."""
from __future__ import annotations

import ast

from sa.model import Program, norm, walk_no_nested
from sa.report import Results
from sa.util import callee

MARKER_SOURCES = {"collect_comments_between_with_gap", "collect_comment_trivia_between", "collect_trailing_comment_trivia",
                  "_collect_comment_trivia", "_collect_comment_trivia_between"}


def comment_only(fn: ast.AST, name: str, depth=0) -> tuple[bool, str]:
    """is the local list `name` built from comments only?"""
    if depth > 3:
        return False, "too deep"
    for n in ast.walk(fn):
        if isinstance(n, (ast.Assign, ast.AnnAssign)):
            tg = n.targets[0] if isinstance(n, ast.Assign) else n.target
            v = n.value
            if v is None:
                continue
            if isinstance(tg, ast.Name) and tg.id == name:
                if isinstance(v, ast.List) and not v.elts:
                    continue
                if isinstance(v, ast.Name) and v.id != name:
                    ok, why = comment_only(fn, v.id, depth + 1)  # a plain copy holds what the copied list holds
                    if not ok:
                        return False, why
                    continue
                if isinstance(v, ast.Call) and callee(v) == "list" and v.args and isinstance(v.args[0], ast.Name):
                    ok, why = comment_only(fn, v.args[0].id, depth + 1)
                    if not ok:
                        return False, why
                    continue
                return False, f"`{norm(n)[:60]}`"
            if isinstance(tg, (ast.Tuple, ast.List)):
                names = [e.id if isinstance(e, ast.Name) else None for e in tg.elts]
                if name in names:
                    idx = names.index(name)
                    if isinstance(v, ast.Call) and callee(v) == "split_inline_comments" and idx == 1:
                        continue
                    return False, f"`{norm(n)[:60]}` (element {idx} of {callee(v) if isinstance(v, ast.Call) else 'a tuple'})"
        if isinstance(n, ast.Call) and isinstance(n.func, ast.Attribute) and isinstance(n.func.value, ast.Name) and n.func.value.id == name:
            if n.func.attr == "append" and n.args:
                a = n.args[0]
                if isinstance(a, ast.Name) and ("comment" in a.id.lower()):
                    continue
                if isinstance(a, ast.Call) and norm(a.func).endswith("Comment.from_cst"):
                    continue
                return False, f"`{norm(n)[:60]}`"
            if n.func.attr == "extend" and n.args and isinstance(n.args[0], ast.Name):
                ok, why = comment_only(fn, n.args[0].id, depth + 1)
                if not ok:
                    return False, why
                continue
            if n.func.attr in ("insert",):
                return False, f"`{norm(n)[:60]}`"
    for n in ast.walk(fn):
        if isinstance(n, ast.Call) and callee(n) in ("append_gap_trivia", "append_gap_between", "append_gap_between_offsets", "append_gap_trivia_from_offsets",
                                                     "append_comment_between") and n.args and isinstance(n.args[0], ast.Name) and n.args[0].id == name:
            return False, f"`{norm(n)[:60]}` (adds layout markers)"
    return True, ""


def check(prog: Program, res: Results, rid: str) -> None:
    r = res.rule(rid, "format_inline_comment_suffix calls .rebuild() on every element: each slot handed to it is filled by its "
                 "class's from_cst with Comment objects only (the inline half of split_inline_comments, appended comments, or "
                 "empty) — never with a collector's list, which also holds linebreak/empty_line markers", floor=3)
    for f in prog.all_functions():
        owner = f
        while owner.parent is not None:
            owner = owner.parent
        if not owner.cls:
            continue
        for c in walk_no_nested(f.node):
            if not (isinstance(c, ast.Call) and callee(c) == "format_inline_comment_suffix" and c.args):
                continue
            a = c.args[0]
            if isinstance(a, (ast.ListComp, ast.GeneratorExp)):
                # a filtered copy of a slot: only comments marked inline may be put on one line with what follows
                r.instances += 1
                inline_only = any(isinstance(x, ast.Attribute) and x.attr == "inline" for g in a.generators for t in g.ifs for x in ast.walk(t))
                r.ob(inline_only, {"site": f.key, "argument": norm(a)[:60], "inline_only": inline_only})
                if not inline_only:
                    res.add(rid, (f.key, "own-line comments rendered as an inline suffix", norm(a.generators[0].iter)[:40]), f.loc(c),
                            f"{f.key}: `{norm(c)[:80]}` puts every comment of the gap on the current line; one that is not marked inline may be a "
                            f"`#` comment from an earlier line, which then swallows the tokens that follow it on that line")
                continue
            if not (isinstance(a, ast.Attribute) and isinstance(a.value, ast.Name) and a.value.id == "self"):
                continue
            r.instances += 1
            fc = prog.method(owner.cls, "from_cst")
            if fc is None:
                res.unclass(f"{owner.cls}.from_cst not found for slot {a.attr}")
                continue
            passed = None
            for call in ast.walk(fc.node):
                if isinstance(call, ast.Call) and callee(call) in ("cls", owner.cls):
                    for k in call.keywords:
                        if k.arg == a.attr:
                            passed = k.value
            if passed is None:
                r.ob(True, {"slot": f"{owner.cls}.{a.attr}", "writer": "not passed by from_cst (default: empty list)"})
                continue
            if isinstance(passed, ast.Name):
                ok, why = comment_only(fc.node, passed.id)
            else:
                ok, why = (isinstance(passed, ast.List) and not passed.elts), norm(passed)[:50]
            r.ob(ok, {"slot": f"{owner.cls}.{a.attr}", "comment_only": ok})
            if not ok:
                res.add(rid, (f.key, "slot with layout markers rendered as inline comments", a.attr), f.loc(c),
                        f"{f.key}: `{norm(c)[:70]}` renders `{owner.cls}.{a.attr}` element by element with .rebuild(), but from_cst fills it "
                        f"from {why}: when a comment starts on a later line the list holds a Linebreak/EmptyLine marker and the rebuild "
                        f"raises AttributeError (and a `#` comment would be glued to the following token)")
