"""Shared by C04 / C05: the parse-time merge of attrpath bindings (`a.b = 1; a.c = 2;`) into one tree per family.

set/rm locate attrpath leaves by walking that tree, so two facts are necessary for an edit to reach the binding it
addresses: (1) members of a family are merged into ONE node at every depth, (2) the by-name index used for merging
designates only nodes that are part of the result."""
from __future__ import annotations

import ast
import itertools

from sa.dtable import outcome
from sa.model import AnalysisError, Program, norm, walk_no_nested
from sa.report import Results

MERGERS = ("_merge_attrpath_sets", "_merge_attrpath_bindings")


def _loop_parts(f):
    loops = [n for n in walk_no_nested(f.node) if isinstance(n, ast.For)]
    if len(loops) != 1 or not isinstance(loops[0].target, ast.Name):
        raise AnalysisError(f"{f.key}: expected one `for item in ...` loop")
    lp = loops[0]
    item = lp.target.id
    existing = None
    for n in ast.walk(lp):
        if isinstance(n, ast.Assign) and len(n.targets) == 1 and isinstance(n.targets[0], ast.Name) and isinstance(n.value, ast.Call):
            fn = n.value.func
            nm = fn.id if isinstance(fn, ast.Name) else fn.attr
            if nm in ("next", "get") and item in norm(n.value):
                existing = n.targets[0].id
    if existing is None:
        raise AnalysisError(f"{f.key}: the lookup of the already-seen binding was not recognised")
    return lp, item, existing


def category(actions: set[str], item: str, existing: str) -> str:
    cats = set()
    for a in actions:
        if a.startswith("raise"):
            cats.add("raise")
        elif "_merge_attrpath_sets(" in a and f"{existing}.value" in a and f"{item}.value" in a:
            cats.add("merge")
        elif a.endswith(f".append({item})"):
            cats.add("append")
    return "+".join(sorted(cats)) or "nothing"


def check(prog: Program, res: Results, rid_table: str, rid_index: str) -> None:
    rt = res.rule(rid_table, "attrpath families form one tree: both merge procedures (top level and nested) send "
                  "(both attrpath-derived, both sets) to a recursive merge, (one attrpath-derived, both sets) to side-by-side "
                  "append, and every other clash of an attrpath-derived binding to ValueError", floor=12)
    ri = res.rule(rid_index, "the by-name index used while merging designates only bindings that are part of the result: a binding is "
                  "entered into it only on a path that also appends it to the result list", floor=1)
    tables = {}
    for key in MERGERS:
        f = prog.func(key)
        res.analysed_functions.add(key)
        lp, item, existing = _loop_parts(f)
        EN, IN = f"{existing}.nested", f"{item}.nested"
        ES, IS = f"isinstance({existing}.value, AttributeSet)", f"isinstance({item}.value, AttributeSet)"
        base = {f"isinstance({item}, Binding)": True, f"{existing} is None": False, f"{existing} is not None": True}
        rows = {}
        for en, inn, es, is_ in itertools.product((True, False), repeat=4):
            if not (en or inn):
                continue
            env = dict(base)
            env.update({EN: en, IN: inn, ES: es, IS: is_})
            o = outcome(lp.body, env)
            rows[(en, inn, es, is_)] = category(o.must, item, existing) if len(o.paths) == 1 or o.must else category(o.may, item, existing) + "?"
        tables[key] = rows
        for (en, inn, es, is_), got in sorted(rows.items(), reverse=True):
            want = ("merge" if (en and inn) else "append") if (es and is_) else "raise"
            rt.instances += 1
            ok = got == want
            rt.ob(ok, {"procedure": key, "existing.nested": en, "item.nested": inn, "both_sets": es and is_, "action": got})
            if not ok:
                res.add(rid_table, (key, "merge table row", f"existing.nested={en} item.nested={inn} sets={es},{is_}", got), f.loc(lp),
                        f"{key}: for (existing attrpath-derived={en}, incoming attrpath-derived={inn}, existing is a set={es}, incoming is "
                        f"a set={is_}) the procedure does `{got}` where `{want}` is required: members of one attrpath family end up "
                        f"in separate nodes, so set/rm of an existing member does not find it (a duplicate line is appended / KeyError)")
        # index discipline
        stores = [n for n in ast.walk(lp) if isinstance(n, ast.Assign) and isinstance(n.targets[0], ast.Subscript)
                  and isinstance(n.targets[0].value, ast.Name) and norm(n.value) == item]
        for stn in stores:
            ri.instances += 1
            text = norm(stn)
            bad = []
            for ex_none in (True, False):
                env = {f"isinstance({item}, Binding)": True, f"{existing} is None": ex_none, f"{existing} is not None": not ex_none}
                o = outcome(lp.body, env)
                for pth in o.paths:
                    if text in pth and not any(a.endswith(f".append({item})") for a in pth) and not any(a.startswith("raise") for a in pth):
                        bad.append(pth)
            ri.ob(not bad, {"procedure": key, "index_store": text})
            if bad:
                res.add(rid_index, (key, "index designates a discarded binding"), f.loc(stn),
                        f"{key}: `{text}` also runs on a path that merges `{item}` into another binding and drops it "
                        f"({' ; '.join(bad[0])[:120]}): later members of the family are merged into the dropped object and never reach "
                        f"the tree that set/rm walk")
    if ri.instances == 0:
        # the nested merger looks bindings up by scanning the target list itself: nothing to check there, but the top-level one must index
        raise AnalysisError("no by-name index store found in the attrpath mergers")
