"""C11 — editing through a reference updates exactly the defining binding (two clauses + shared resolver rules)."""
from __future__ import annotations

import ast

from sa.cfg import CFG, edges_establishing
from sa.effects import Effects
from sa.model import Program, alpha, norm, walk_no_nested
from sa.report import Results
from sa.tables.reviewed import Reviewed
from sa.util import Aliases, callee, dotted


def setter_copy_rule(prog: Program, res: Results, rid: str, r1) -> None:
    setter = prog.func("Identifier.value#setter")
    stores = [n for n in walk_no_nested(setter.node) if isinstance(n, ast.Assign) and isinstance(n.targets[0], ast.Attribute) and n.targets[0].attr == "value"]
    copies = [n for n in walk_no_nested(setter.node) if isinstance(n, ast.Assign) and isinstance(n.value, ast.Call)
              and isinstance(n.value.func, ast.Attribute) and n.value.func.attr == "model_copy"]
    r1.instances += 1
    if len(stores) != 1 or not copies:
        res.unclass("Identifier.value setter: the copy of the assigned expression / the single store was not recognised")
        return
    from sa.util import parent_map
    pm = parent_map(setter.node)
    cp = copies[0]
    stored = norm(stores[0].value)
    guards = []
    cur = cp
    while cur in pm:
        par = pm[cur]
        if isinstance(par, ast.If) and any(cur is x for x in par.body):
            guards.append(par.test)
        cur = par
    aliases = {norm(d.targets[0]): norm(d.value) for d in walk_no_nested(setter.node) if isinstance(d, ast.Assign) and isinstance(d.targets[0], ast.Name)}

    def only_expression_test(t) -> bool:
        if not (isinstance(t, ast.Call) and callee(t) == "isinstance" and len(t.args) == 2 and "NixExpression" in norm(t.args[1])):
            return False
        subj = norm(t.args[0])
        subj = aliases.get(subj, subj)
        return subj.endswith(".value")

    keeps = {k.value for k in cp.value.keywords[0].value.keys} if cp.value.keywords and isinstance(cp.value.keywords[0].value, ast.Dict) \
        and all(isinstance(k, ast.Constant) for k in cp.value.keywords[0].value.keys) else set()
    ok = norm(cp.targets[0]) == stored and all(only_expression_test(g) for g in guards) and {"before", "after"} <= keeps
    r1.ob(ok, {"copy": norm(cp)[:70], "guards": [norm(g)[:50] for g in guards]})
    if not ok:
        res.add(rid, (setter.key, "assigned expression installed without a copy on some path"), setter.loc(cp),
                f"{setter.key}: the copy `{norm(cp)[:60]}` runs only under {[norm(g)[:50] for g in guards]}: on the other paths the caller's "
                f"own object becomes the binding's value and is stamped with this document's scope chain — the same object, still "
                f"referenced from another document, then resolves names there against this one")


def run(prog: Program, _no_c10: bool = False) -> Results:
    res = Results("C11")
    getter = prog.func("Identifier.value")
    setter = prog.func("Identifier.value#setter")
    res.analysed_functions |= {getter.key, setter.key}

    # ---------------------------------------------------------------- R-C11-1
    r1 = res.rule("R-C11-1", "reads and writes use the same resolver: getter and setter obtain the binding from "
                  "_resolve_identifier(self, context.scopes); the setter writes only that binding's value", floor=2)
    calls = {}
    for f in (getter, setter):
        cs = [c for c in walk_no_nested(f.node) if isinstance(c, ast.Call) and callee(c) == "_resolve_identifier"]
        r1.instances += 1
        cvar = next((norm(d.targets[0]) for d in ast.walk(f.node) if isinstance(d, ast.Assign) and isinstance(d.value, ast.Call)
                     and callee(d.value) == "get_resolution_context" and [norm(a) for a in d.value.args] == ["self"]), None)
        al_ = Aliases(f.node)
        ok = len(cs) == 1 and cvar is not None and [al_.norm(a) for a in cs[0].args] == ["self", f"{cvar}.scopes"] and not cs[0].keywords
        calls[f.key] = cs
        r1.ob(ok, {"function": f.key, "resolver_call": norm(cs[0]) if cs else None})
        if not ok:
            res.add("R-C11-1", (f.key, "resolver call"), f.loc(cs[0] if cs else None),
                    f"{f.key} does not resolve through `_resolve_identifier(self, context.scopes)`: reading and assigning through a "
                    f"reference could designate different bindings")
    # the setter assigns `.value` of the binding element of the result
    bind_names = set()
    for d in ast.walk(setter.node):
        if isinstance(d, ast.Assign) and isinstance(d.value, ast.Call) and callee(d.value) == "_resolve_identifier" \
                and isinstance(d.targets[0], ast.Tuple) and len(d.targets[0].elts) == 2 and isinstance(d.targets[0].elts[1], ast.Name):
            bind_names.add(d.targets[0].elts[1].id)
        # `binding = _resolve_identifier(self, scopes)[1]` names the same element as the tuple unpacking
        if isinstance(d, ast.Assign) and isinstance(d.value, ast.Subscript) and isinstance(d.value.value, ast.Call) and callee(d.value.value) == "_resolve_identifier" \
                and isinstance(d.value.slice, ast.Constant) and d.value.slice.value == 1 and isinstance(d.targets[0], ast.Name):
            bind_names.add(d.targets[0].id)
    stores = [n for n in walk_no_nested(setter.node) if isinstance(n, ast.Assign) and isinstance(n.targets[0], ast.Attribute)]
    r1.instances += 1
    ok = len(stores) == 1 and stores[0].targets[0].attr == "value" and isinstance(stores[0].targets[0].value, ast.Name) \
        and stores[0].targets[0].value.id in bind_names
    r1.ob(ok, {"setter_store": [norm(s_) for s_ in stores]})
    if not ok:
        res.add("R-C11-1", (setter.key, "store target"), setter.loc(stores[0] if stores else None),
                f"the setter does not assign `<resolved binding>.value` exactly once (found {[norm(s_) for s_ in stores]}): the reference "
                f"itself or another object would be changed")
    eng = Effects(prog, reviewed=Reviewed(prog))
    sm = eng.summarize(setter.key)
    direct = [m for m in sm.mut_sites if m.via is None and m.kind == "doc"]
    r1.instances += 1
    ok = all(m.fld == "value" and m.tcls in (None, "Binding") for m in direct) and len(direct) == 1
    r1.ob(ok, {"setter_document_writes": [m.text for m in direct]})
    if not ok:
        res.add("R-C11-1", (setter.key, "extra document write"), setter.loc(),
                f"the setter writes document state other than the defining binding's value: {[m.text for m in direct]}")
    # the assigned expression is copied before it is installed (the caller keeps its own object; the copy inherits the replaced
    # value's trivia): the copy is skipped only when the replaced value is not an expression at all
    setter_copy_rule(prog, res, "R-C11-1", r1)

    # ---------------------------------------------------------------- R-C11-2
    r2 = res.rule("R-C11-2", "assign-through precedes overwrite: every overwrite of a binding located by path is dominated, when "
                  "its value may be a reference, by the assign-through attempt; enclosing let bindings are tried before siblings",
                  floor=4)
    for key in ("_set_value_in_attrset", "_set_attrpath_value"):
        f = prog.func(key)
        res.analysed_functions.add(key)
        cfg = CFG(f.node)
        params = set(f.params())
        value_param = next((p for p in f.params() if "value" in p), "value_expr")
        overwrites = []
        al = Aliases(f.node)
        from sa.util import FlowAliases
        fa = FlowAliases(f.node, cfg)

        def spellings(e, al=al, fa=fa, cfg=cfg):
            """what `e` names: through single-definition locals, and through the one definition that reaches its statement"""
            out = {al.norm(e)}
            at = cfg.containing(e)
            if at is not None:
                out.add(fa.norm_at(at, e))
            return out
        for n in cfg.nodes:
            a = n.ast
            if isinstance(a, ast.Assign) and isinstance(a.targets[0], ast.Attribute) and a.targets[0].attr == "value" \
                    and isinstance(a.targets[0].value, ast.Name) and norm(a.value) == value_param:
                overwrites.append((n, a.targets[0].value.id))
        for n, b in overwrites:
            if any(al.norm(ast.Name(id=b, ctx=ast.Load())).endswith(".value") for _ in (0,)):
                continue  # `alias.value = <value>` with alias = <binding>.value is the assign-through itself, not an overwrite
            # classify how b was located: by path (attrset lookups) vs fallback targets (outer/sibling found by *name of the
            # reference*); plain copies between locals (`chosen = inherited_binding`) are followed to the definitions they copy
            ref_names = {norm(d.targets[0]) for d in ast.walk(f.node) if isinstance(d, ast.Assign) and isinstance(d.targets[0], ast.Name)
                         and isinstance(d.value, ast.Attribute) and d.value.attr == "name" and norm(d.value.value).endswith(".value")}
            roots: dict = {}  # name -> non-copy definitions
            todo, seen_names = [b], set()
            while todo:
                x = todo.pop()
                if x in seen_names:
                    continue
                seen_names.add(x)
                for d in ast.walk(f.node):
                    if isinstance(d, ast.Assign) and any(isinstance(t, ast.Name) and t.id == x for t in d.targets):
                        if isinstance(d.value, ast.Name):
                            todo.append(d.value.id)
                        elif isinstance(d.value, ast.Constant) and d.value.value is None:
                            continue
                        else:
                            roots.setdefault(x, []).append(d)
                    elif isinstance(d, ast.For) and norm(d.target) == x:
                        roots.setdefault(x, []).append(d)
                if x in params:
                    roots.setdefault(x, []).append("param")

            lb_param = next((p for p in f.params() if "let" in p), "let_bindings")

            def is_fallback(d):
                if isinstance(d, ast.For):
                    return True
                if isinstance(d, ast.Assign) and isinstance(d.value, ast.Call) and callee(d.value) == "next" and d.value.args \
                        and isinstance(d.value.args[0], ast.GeneratorExp) and lb_param in norm(d.value.args[0].generators[0].iter) \
                        and norm(d.value.args[0].elt) == norm(d.value.args[0].generators[0].target):
                    return True  # next((outer for outer in let_bindings if outer.name == <reference>.name), None): the loop as an expression
                return isinstance(d, ast.Assign) and isinstance(d.value, ast.Call) and callee(d.value) == "_find_binding" and len(d.value.args) > 1 and (
                    norm(d.value.args[1]) in ref_names or al.norm(d.value.args[1]).endswith(".value.name"))

            by_path = {x: [d for d in ds if not is_fallback(d)] for x, ds in roots.items()}
            by_path = {x: ds for x, ds in by_path.items() if ds}
            if not by_path:
                continue
            r2.instances += 1

            def not_ref(a_, truth, _names=tuple(by_path)):
                return isinstance(a_, ast.Call) and callee(a_) == "isinstance" and any(f"{x}.value" in spellings(a_.args[0]) for x in _names) \
                    and "Identifier" in norm(a_.args[1]) and truth is False

            e_not = edges_establishing(cfg, not_ref)
            attempts = [t for t in cfg.nodes if t.ast is not None and t.kind in ("test", "stmt") and
                        any(isinstance(c, ast.Call) and callee(c) == "_assign_through_identifier" and c.args
                            and any(f"{x}.value" in spellings(a_) for x in by_path for a_ in c.args)
                            for c in ast.walk(t.ast))]
            # the attempt written in place (helper folded into the function): `ref.value = <value>` on the reference itself,
            # made whenever a scope chain is available (`if (scopes := scopes_for_owner(…)):` — without one there is nothing
            # to assign through)
            scope_vars = {norm(d.targets[0]) for d in ast.walk(f.node) if isinstance(d, ast.Assign) and isinstance(d.value, ast.Call)
                          and callee(d.value) == "scopes_for_owner"} | {d.target.id for d in ast.walk(f.node) if isinstance(d, ast.NamedExpr)
                                                                        and isinstance(d.value, ast.Call) and callee(d.value) == "scopes_for_owner"}
            inline_attempts = [t for t in cfg.nodes if isinstance(t.ast, ast.Assign) and isinstance(t.ast.targets[0], ast.Attribute)
                               and t.ast.targets[0].attr == "value" and norm(t.ast.value) == value_param
                               and any(f"{x}.value" in spellings(t.ast.targets[0].value) for x in by_path)]
            e_noscopes = edges_establishing(cfg, lambda a_, t_: t_ is False and ((isinstance(a_, ast.Call) and callee(a_) == "scopes_for_owner")
                                                                                  or norm(a_) in scope_vars)) if inline_attempts else []
            attempts = attempts + inline_attempts
            ok = bool(e_not) and bool(attempts) and cfg.all_paths_pass(n, cut_edges=e_not + e_noscopes, cut_nodes=attempts)
            r2.ob(ok, {"site": key, "overwrite": norm(n.ast), "assign_through_attempt": [norm(t.ast)[:60] for t in attempts]})
            if not ok:
                # how the binding was located: the lookup functions (constructors of fresh bindings are not lookups)
                how = sorted({callee(d.value) for ds in by_path.values() for d in ds if isinstance(d, ast.Assign) and isinstance(d.value, ast.Call)
                              and not (callee(d.value) or "")[:1].isupper()}) or ["loop/param"]
                res.add("R-C11-2", (key, "overwrite without assign-through", "located by " + ",".join(str(h) for h in how)), f.loc(n.ast),
                        f"{key}: `{norm(n.ast)}` overwrites a binding located by path without first trying to assign through when its "
                        f"value is a reference: `set a.b 2` on `let v = 1; in {{ a.b = v; }}` replaces the reference instead of updating `v`")
        if key == "_set_value_in_attrset":
            # fallback order: let bindings are consulted before siblings of the set itself
            for g in [f] + list(f.nested.values()):
                gcfg = CFG(g.node)
                sib = []
                for n in gcfg.nodes:
                    if n.ast is None or n.kind in ("def",):
                        continue
                    roots = [n.ast.iter] if n.kind == "for" else ([n.ast] if n.kind != "with" else [])
                    for r_ in roots:
                        for c in ast.walk(r_):
                            if isinstance(c, ast.Call) and callee(c) == "_find_binding" and len(c.args) > 1 and (
                                    norm(c.args[1]).endswith(".name") or any(
                                        isinstance(d, ast.Assign) and norm(d.targets[0]) == norm(c.args[1]) and isinstance(d.value, ast.Attribute) and d.value.attr == "name"
                                        for d in ast.walk(g.node))):
                                sib.append(n)
                            if isinstance(c, ast.Attribute) and c.attr == "values" and n.kind in ("for", "stmt") \
                                    and next((p for p in f.params() if "let" in p), "let_bindings") in norm(g.node):
                                sib.append(n)
                lb = next((p for p in f.params() if "let" in p), "let_bindings")
                lets = [n for n in gcfg.nodes if n.ast is not None and n.kind in ("test", "for", "stmt") and
                        lb in norm(n.ast.iter if n.kind == "for" else n.ast) and n not in sib]
                for sn in dict.fromkeys(sib):
                    r2.instances += 1
                    ok = bool(lets) and gcfg.all_paths_pass(sn, cut_nodes=lets)
                    r2.ob(ok, {"site": g.key, "sibling_lookup": norm(sn.ast)[:70] if sn.kind != "for" else norm(sn.ast.iter)[:70]})
                    if not ok:
                        res.add("R-C11-2", (g.key, "sibling fallback before let bindings"), g.loc(sn.ast),
                                f"{g.key}: the same-named attribute of the set itself is consulted before (or without) the enclosing "
                                f"let bindings: in a non-rec set the attribute is not in scope for its own values, so the wrong "
                                f"binding would be rewritten")
    # ---------------------------------------------------------------- R-C11-3 no stale chain when an owner is given
    r3 = res.rule("R-C11-3", "an owner-relative attach recomputes the scope chain: in attach_resolution_context the chain remembered "
                  "on the expression (`_get_context(expr).scopes`) flows into the stored context only on paths where no owner was "
                  "given; with an owner it is `scopes_for_owner(owner)`, which sees bindings added since the last lookup", floor=2)
    arc = prog.func("attach_resolution_context")
    res.analysed_functions.add(arc.key)
    acfg = CFG(arc.node)
    owner_p = next((p_ for p_ in arc.params() if p_ == "owner"), None)
    expr_p = arc.params()[0]
    if owner_p is None:
        res.unclass("attach_resolution_context has no `owner` parameter")
    else:
        no_owner = edges_establishing(acfg, lambda a, t: (norm(a) == f"{owner_p} is None" and t is True) or
                                      (norm(a) == f"{owner_p} is not None" and t is False) or (norm(a) == owner_p and t is False))
        remembered = {norm(d.targets[0]) for d in walk_no_nested(arc.node) if isinstance(d, ast.Assign) and isinstance(d.value, ast.Call)
                      and callee(d.value) == "_get_context" and d.value.args and norm(d.value.args[0]) == expr_p}
        for n in acfg.nodes:
            a = n.ast
            if not isinstance(a, ast.Assign):
                continue
            v = norm(a.value)
            if any(v == f"{m}.scopes" for m in remembered) or f"_get_context({expr_p}).scopes" in v:
                r3.instances += 1
                ok = bool(no_owner) and acfg.all_paths_pass(n, cut_edges=no_owner)
                r3.ob(ok, {"statement": norm(a), "only_without_owner": ok})
                if not ok:
                    res.add("R-C11-3", (arc.key, "remembered chain used although an owner is given"), arc.loc(a),
                            f"attach_resolution_context: `{norm(a)}` is reachable when an owner is passed: the chain stamped on the "
                            f"reference by an earlier lookup is reused, so a binding added since then (e.g. a rec-level `v` shadowing a "
                            f"let-level `v`) is ignored and the next assignment through the reference rewrites the shadowed binding")
        calls = [c for c in walk_no_nested(arc.node) if isinstance(c, ast.Call) and callee(c) == "scopes_for_owner"]
        r3.instances += 1
        ok = len(calls) == 1 and norm(calls[0].args[0]) == owner_p
        r3.ob(ok, {"owner_chain": [norm(c) for c in calls]})
        if not ok:
            res.add("R-C11-3", (arc.key, "owner chain not recomputed"), arc.loc(), "attach_resolution_context does not call scopes_for_owner(owner)")
        else:
            # with an owner, every way out of the function has recomputed the chain first
            cn = acfg.containing(calls[0])
            for n in acfg.nodes:
                if n.kind == "return":
                    r3.instances += 1
                    ok = acfg.all_paths_pass(n, cut_nodes=[cn] if cn is not None else [], cut_edges=no_owner)
                    r3.ob(ok, {"return": norm(n.ast), "after_recomputation_or_without_owner": ok})
                    if not ok:
                        res.add("R-C11-3", (arc.key, "return before the owner's chain is recomputed"), arc.loc(n.ast),
                                f"attach_resolution_context: `{norm(n.ast)}` is reachable with an owner but without scopes_for_owner(owner) having "
                                f"run: an expression that already carries a chain keeps it, so after `del doc[\"a\"]` (or a new shadowing "
                                f"binding) a reference reached once before still resolves — and is edited — against the old bindings")

    # ---------------------------------------------------------------- R-C11-4 a resolved value keeps the chain of its definition site
    r4 = res.rule("R-C11-4", "a value reached through a reference is never re-stamped: in the CLI target resolution no "
                  "set_resolution_context/attach_resolution_context is applied to a local that may hold the result of following an "
                  "identifier (`_resolve_identifier_target`, `.value`) — its references must keep resolving where it was written", floor=2)
    from sa.cfg import ReachingDefs
    for f in prog.all_functions():
        if f.module != "nix_manipulator/cli/manipulations.py":
            continue
        stamps = [c for c in walk_no_nested(f.node) if isinstance(c, ast.Call) and callee(c) in ("set_resolution_context", "attach_resolution_context")
                  and c.args and isinstance(c.args[0], ast.Name)]
        if not stamps:
            continue
        fcfg = CFG(f.node)
        rd = ReachingDefs(fcfg)
        for c in stamps:
            r4.instances += 1
            x = c.args[0].id
            defs = rd.defs_for_use(c, x)
            def holds_binding(name_node) -> bool:
                """`<name>.value` reads what a *binding* stores (not what a reference resolves to): the name is the result of a
                binding lookup or a parameter annotated Binding"""
                nm = name_node.id
                for a_ in ast.walk(f.node):
                    if isinstance(a_, ast.arg) and a_.arg == nm and a_.annotation is not None and "Binding" in norm(a_.annotation) \
                            and "Identifier" not in norm(a_.annotation):
                        return True
                ds_ = rd.defs_for_use(name_node, nm)
                return bool(ds_) and all(not isinstance(d_, str) and isinstance(d_, ast.Assign) and isinstance(d_.value, ast.Call)
                                         and callee(d_.value) in ("_find_binding", "_find_named_binding", "_find_attrpath_leaf", "_resolve_inherited_binding", "Binding")
                                         for d_ in ds_)

            via_ref = [d for d in defs if not isinstance(d, str) and isinstance(d, ast.Assign) and (
                (isinstance(d.value, ast.Call) and callee(d.value) == "_resolve_identifier_target") or
                (isinstance(d.value, ast.Attribute) and d.value.attr == "value" and isinstance(d.value.value, ast.Name)
                 and not holds_binding(d.value.value)))]
            # re-assignments that only strip parentheses keep the provenance
            if not via_ref:
                for d in defs:
                    if not isinstance(d, str) and isinstance(d, ast.Assign) and isinstance(d.value, ast.Call) and callee(d.value) == "_strip_parentheses" \
                            and d.value.args and isinstance(d.value.args[0], ast.Name):
                        inner = rd.defs_for_use(d.value, d.value.args[0].id)
                        via_ref += [e for e in inner if not isinstance(e, str) and isinstance(e, ast.Assign) and isinstance(e.value, ast.Call)
                                    and callee(e.value) == "_resolve_identifier_target"]
            r4.ob(not via_ref, {"site": f.key, "stamp": norm(c)[:60]})
            if via_ref:
                res.add("R-C11-4", (f.key, "resolved value re-stamped with the call-site chain", x), f.loc(c),
                        f"{f.key}: `{norm(c)[:60]}` may be applied to a value obtained by following a reference (`{norm(via_ref[0])[:50]}`): "
                        f"`args = {{ a = v; }}` defined next to `v = \"1\"` but passed as `f args` below another `v` then has its `v` "
                        f"looked up at the call site, and the edit lands on the wrong binding")
    closer_scope_first(prog, res)
    if _no_c10:
        return res
    # shared clauses: chain orientation and with precedence (C10)
    from sa.rules import c10
    sub = c10.run(prog)
    for rid in ("R-C10-1", "R-C10-5"):
        st = sub.rules.get(rid)
        if st:
            res.rules[rid] = st
    for fnd in sub.findings:
        if fnd.rule in ("R-C10-1", "R-C10-5"):
            res.add(fnd.rule, fnd.key, fnd.where, fnd.message)
    res.analysed_functions |= sub.analysed_functions
    res.assumptions = ["which binding the CLI-only fallbacks pick under shadowing is runtime data (let_bindings holds only the outermost layer)"]
    return res


def closer_scope_first(prog: Program, res: Results, rid: str = "R-C11-5") -> None:
    """R-C11-5: where the CLI follows `inherit name;` inside a call argument to the binding that defines `name`, the set that
    holds the call (the closer scope) is consulted before the enclosing let bindings."""
    r = res.rule(rid, "the closer scope wins when an inherited name is followed to its definition: in _resolve_inherited_binding "
                 "the enclosing let bindings are consulted only after the lookup of the name in the set that holds the call found "
                 "nothing (and never ahead of it in one combined scan)", floor=1)
    f = prog.funcs.get("_resolve_inherited_binding")
    if f is None:
        res.unclass("_resolve_inherited_binding vanished")
        return
    ps = f.params()
    sp = ps[0] if ps else None
    leaf = next((p for p in ps if "leaf" in p), None)
    outer = next((p for p in ps if "outer" in p or "let" in p), None)
    if not (sp and leaf and outer):
        res.unclass(f"_resolve_inherited_binding: parameters not recognised ({ps})")
        return
    res.analysed_functions.add(f.key)
    cfg = CFG(f.node)

    def mentions(e, name):
        return any(isinstance(x, ast.Name) and x.id == name for x in ast.walk(e))

    def iter_exprs(n):
        """the expressions this node iterates over (for-statement, generator of next()/any()/comprehension)"""
        out = []
        if n.kind == "for":
            out.append(n.ast.iter)
        elif n.ast is not None and n.kind in ("stmt", "test", "return"):
            for g in ast.walk(n.ast):
                if isinstance(g, ast.comprehension):
                    out.append(g.iter)
                # a combined candidate list handed to a search (`[*outer, *set.values]`, `outer + set.values`)
                elif isinstance(g, (ast.List, ast.Tuple)) and any(isinstance(x, ast.Starred) for x in g.elts):
                    out.append(g)
                elif isinstance(g, ast.BinOp) and isinstance(g.op, ast.Add) and mentions(g, outer):
                    out.append(g)
        return out

    def parts(e):
        """a concatenation read left to right"""
        if isinstance(e, (ast.Tuple, ast.List)):
            return [p_ for x in e.elts for p_ in parts(x.value if isinstance(x, ast.Starred) else x)]
        if isinstance(e, ast.BinOp) and isinstance(e.op, ast.Add):
            return parts(e.left) + parts(e.right)
        if isinstance(e, ast.Call) and callee(e) in ("chain", "list", "tuple") and e.args:
            return [p_ for a in e.args for p_ in parts(a)]
        if isinstance(e, ast.BoolOp) and isinstance(e.op, ast.Or) and len(e.values) == 2 and isinstance(e.values[1], (ast.Tuple, ast.List)) and not e.values[1].elts:
            return parts(e.values[0])
        return [e]

    # lookups of the leaf name in the holding set
    s_calls = [n for n in cfg.nodes if n.ast is not None and n.kind in ("stmt", "test") and any(
        isinstance(c, ast.Call) and (callee(c) or "").startswith("_find") and c.args and mentions(c.args[0], sp) and any(norm(a) == leaf for a in c.args[1:])
        for c in ast.walk(n.ast))]
    s_vars = {norm(n.ast.targets[0]) for n in s_calls if isinstance(n.ast, ast.Assign) and isinstance(n.ast.targets[0], ast.Name)}
    s_vars |= {w.target.id for n in s_calls for w in ast.walk(n.ast) if isinstance(w, ast.NamedExpr) and isinstance(w.target, ast.Name)}
    miss = edges_establishing(cfg, lambda a, t: (norm(a) in {f"{v} is None" for v in s_vars} and t is True)
                              or (norm(a) in {f"{v} is not None" for v in s_vars} | s_vars and t is False)) if s_vars else []
    o_nodes = [(n, e) for n in cfg.nodes for e in iter_exprs(n) if mentions(e, outer)]
    if not o_nodes:
        res.unclass(f"_resolve_inherited_binding: no scan of `{outer}` was found")
        return
    for n, e in o_nodes:
        r.instances += 1
        ps_ = parts(e)
        io = [i for i, p_ in enumerate(ps_) if mentions(p_, outer)]
        iset = [i for i, p_ in enumerate(ps_) if mentions(p_, sp)]
        if iset:
            ok = max(iset) < min(io)
            why = f"`{norm(e)[:60]}` scans the enclosing let bindings ahead of the bindings of `{sp}`"
        else:
            ok = bool(miss) and cfg.all_paths_pass(n, cut_edges=miss)
            why = (f"the scan of `{outer}` at `{norm(e)[:40]}` is reachable without the lookup of `{leaf}` in `{sp}` having found nothing"
                   if s_calls else f"the name is never looked up in `{sp}` itself before `{outer}` is scanned")
        r.ob(ok, {"site": f.key, "outer_scan": norm(e)[:60], "after_miss_in": sorted(s_vars)})
        if not ok:
            res.add(rid, (f.key, "enclosing let bindings consulted before the holding set"), f.loc(n.ast),
                    f"{f.key}: {why}: when the name is bound both in the set that holds the call (e.g. a `rec` set) and in an enclosing "
                    f"`let`, the shadowed outer binding is rewritten and the one the call really sees keeps its value")
