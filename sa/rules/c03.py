"""C03 — comments survive a round trip exactly once, in order and in place (structural clauses)."""
from __future__ import annotations

import ast

from sa.cfg import CFG, ReachingDefs
from sa.gaps import COLLECT1, COLLECT2, analyse_class, coverage
from sa.model import AnalysisError, Program, alpha, norm, walk_no_nested
from sa.report import Results
from sa.rules.c01 import content_findings, renderer_classes
from sa.tables.grammar import ARGS_PRODUCTION, GENERIC_CLASSES, PRODUCTIONS
from sa.util import callee, is_const, parent_map


def is_comment_field(prog: Program, cname: str, fld: str) -> bool:
    """comment-bearing slots: `before`, `after`, list[Any] trivia slots and Comment-typed fields"""
    ann = prog.fields(cname).get(fld, ("", None))[0]
    if fld in ("before", "after"):
        return True
    if "Comment" in ann:
        return True
    if ann.replace(" ", "") in ("list[Any]", "list[Any]|None"):
        return True
    return False


def run(prog: Program) -> Results:
    res = Results("C03")

    # ---------------------------------------------------------------- R-C03-1 gap coverage
    r1 = res.rule("R-C03-1", "gap coverage on the parser side: in every presence scenario of every production, each gap between "
                  "consecutive anchors is covered by a comment route (collector call, byte-range filter, generic walk)", floor=11)
    r1b = res.rule("R-C03-1b", "no gap is collected twice: two routes may cover the same gap only when they draw from comment "
                   "lists that are disjoint by construction", floor=2)
    n_gaps = n_routes = 0
    for cname in PRODUCTIONS:
        ga = analyse_class(prog, cname)
        if ga is None:
            raise AnalysisError(f"{cname}.from_cst vanished")
        f = prog.own_method(cname, "from_cst")
        res.analysed_functions.add(f.key)
        r1.instances += 1
        n_routes += len(ga.routes)
        for fk, call, st, en in ga.unresolved:
            res.unclass(f"{fk}: collector call `{norm(call)[:60]}` has an anchor that could not be resolved ({st}, {en})")
        seen = set()
        for scenario, a, b, cov in coverage(ga, cname):
            n_gaps += 1
            key = (cname, "uncovered gap", f"{a} -> {b}")
            ok = bool(cov)
            r1.ob(ok, {"class": cname, "scenario": list(scenario), "gap": f"{a} -> {b}", "routes": [str(r) for r in cov][:3]})
            if not ok and key not in seen:
                seen.add(key)
                res.add("R-C03-1", key, f.loc(),
                        f"{cname}.from_cst: no comment route covers the gap between `{a}` and `{b}`"
                        f"{' when ' + ', '.join(scenario) + ' is present' if scenario else (' when the optional parts are absent' if '*opt' in ''.join(PRODUCTIONS[cname]) else '')}: "
                        f"a comment written there is silently dropped")
            if len(cov) > 1:
                r1b.instances += 1
                ok2 = _disjoint(prog, ga, cov)
                r1b.ob(ok2, {"class": cname, "gap": f"{a} -> {b}", "routes": [str(r) for r in cov]})
                k2 = (cname, "gap collected twice", f"{a} -> {b}")
                if not ok2 and k2 not in seen:
                    seen.add(k2)
                    res.add("R-C03-1b", k2, f.loc(cov[1].node),
                            f"{cname}.from_cst: the gap `{a}` -> `{b}` is covered by {[str(r) for r in cov]} drawing from the same "
                            f"comment list: a comment there would be routed into two slots and emitted twice")
    # the parameter part of a lambda: identifier "@" formals / formals "@" identifier
    r1.instances += 1
    pn = prog.func("_parse_named_argument_set")
    txt = alpha(pn.node, pn.node, anonymous=True)
    collects = any(isinstance(c, ast.Call) and callee(c) in (COLLECT1 | COLLECT2 | {"append_comment_between"}) for c in ast.walk(pn.node))
    filters_out = "$.type != 'comment'" in txt
    ok = collects or not filters_out
    r1.ob(ok, {"class": "FunctionDefinition", "gap": "identifier -> @ -> formals", "routes": []})
    if not ok:
        res.add("R-C03-1", ("FunctionDefinition", "uncovered gap", "identifier/formals -> @ -> formals/identifier"), pn.loc(),
                "FunctionDefinition: _parse_named_argument_set filters comments out of the signature and nothing collects the gaps "
                "around `@`: `args # c\\n@{ }: 1` loses the comment")
    for cname, why in GENERIC_CLASSES.items():
        r1.instances += 1
        f = prog.own_method(cname, "from_cst")
        if f is None:
            raise AnalysisError(f"{cname}.from_cst vanished")
        t = norm(f.node)
        if cname == "NixList":
            t += norm(prog.func("process_list").node)
        loop_walk = False
        for lp in [n for n in ast.walk(f.node) if isinstance(n, ast.For) and isinstance(n.target, ast.Name)]:
            lv = lp.target.id
            over_children = "children" in norm(lp.iter) or any(
                isinstance(d, ast.Assign) and norm(d.targets[0]) == norm(lp.iter) and "children" in norm(d.value) for d in ast.walk(f.node))
            if over_children and f"{lv}.type == 'comment'" in norm(lp):
                loop_walk = True
        generic = "parse_delimited_sequence(" in t or "parse_binding_sequence(" in t or "process_list(" in t or loop_walk
        r1.ob(generic, {"class": cname, "generic": why})
        if not generic:
            res.add("R-C03-1", (cname, "generic walk missing"), f.loc(),
                    f"{cname}.from_cst no longer walks all children with a comment arm ({why})")
    if n_routes < 25:
        res.unclass(f"only {n_routes} comment routes recognised (floor 25)")
    if n_gaps < 30:
        res.unclass(f"only {n_gaps} gaps enumerated (floor 30)")
    # the generic walker itself: every comment child is either attached inline or appended to the pending trivia
    pds = prog.func("parse_delimited_sequence")
    r1.instances += 1
    # stated on the paths of the loop body under "the child is a comment" (decision table, sa/dtable.py): each of them hands
    # the comment to the inline-attach callback or appends it to the pending trivia — however the arms are arranged
    loop = next((n for n in pds.node.body if isinstance(n, ast.For) and any(
        isinstance(c, ast.Call) and callee(c) == "append_comment_between" for c in ast.walk(n))), None)
    ok = False
    if loop is not None and isinstance(loop.target, ast.Name):
        from sa.dtable import outcome as _outcome
        lv = loop.target.id
        attach = next((p_ for p_ in pds.params() if "attach" in p_), "attach_inline_comment")
        o = _outcome(loop.body, {f"{lv}.type == 'comment'": True, f"{lv}.type != 'comment'": False})
        ok = bool(o.paths) and all(any(a.startswith(f"{attach}(") or a.startswith("append_comment_between(") for a in p_) for p_ in o.paths)
    r1.ob(ok, {"parse_delimited_sequence": "comment arm attaches inline or appends to pending trivia"})
    if not ok:
        res.add("R-C03-1", ("parse_delimited_sequence", "comment arm"), pds.loc(),
                "the generic sequence parser's comment arm no longer keeps every comment (inline attach or pending trivia)")

    # ---------------------------------------------------------------- R-C03-1c collected comments reach the node
    r1c = res.rule("R-C03-1c", "the list returned by each comment route flows into the constructed node: it is used after the call "
                   "(constructor keyword, or the before/after of a child)", floor=20)
    for f in prog.all_functions():
        if not (f.name == "from_cst" or f.key in ("_collect_binary_comment_trivia", "_collect_colon_trivia", "_parse_formal_default",
                                                 "_parse_argument_set") or (f.parent is not None and f.parent.name == "from_cst")):
            continue
        calls = [n for n in walk_no_nested(f.node) if isinstance(n, ast.Call) and callee(n) in (COLLECT1 | COLLECT2)]
        if not calls:
            continue
        cfg = CFG(f.node)
        rd = ReachingDefs(cfg)
        used_defs = set()
        for node in cfg.nodes:
            if node.ast is None or node.kind in ("def", "case", "handler"):
                continue
            roots = [node.ast.iter] if node.kind == "for" else ([i.context_expr for i in node.ast.items] if node.kind == "with" else [node.ast])
            for r_ in roots:
                for n in ast.walk(r_):
                    if isinstance(n, ast.Name) and isinstance(n.ctx, ast.Load):
                        for d in rd.defs_at(node, n.id):
                            if d != "PARAM":
                                used_defs.add((id(d), n.id))
        for c in calls:
            r1c.instances += 1
            st = cfg.containing(c)
            target = None
            if st is not None and isinstance(st.ast, ast.Assign) and st.ast.value is c:
                t0 = st.ast.targets[0]
                if isinstance(t0, ast.Tuple) and t0.elts and isinstance(t0.elts[0], ast.Name):
                    target = t0.elts[0].id
                elif isinstance(t0, ast.Name):
                    target = t0.id
            elif st is not None and isinstance(st.ast, ast.Return):
                target = "<returned>"
            nested_use = target is not None and any(isinstance(n, ast.Name) and n.id == target and isinstance(n.ctx, ast.Load)
                                                    for g in f.nested.values() for n in ast.walk(g.node))
            ok = target == "<returned>" or (target is not None and not target.startswith("_") and ((id(st.ast), target) in used_defs or nested_use))
            r1c.ob(ok, {"site": f.key, "call": norm(c)[:60], "result": target})
            if not ok:
                res.add("R-C03-1c", (f.key, "collected comments discarded", alpha(c, (f.parent or f).node)[:70]), f.loc(c),
                        f"{f.key}: the comments returned by `{norm(c)[:70]}` are "
                        f"{'discarded' if target is None or target.startswith('_') else 'assigned to `' + target + '` but never used'}: "
                        f"the route covers its gap on paper only")

    # ---------------------------------------------------------------- R-C03-2 slot rendering
    content_findings(prog, res, "R-C03-2", only_fields=is_comment_field, describe="comment-bearing")

    # ---------------------------------------------------------------- R-C03-3 trailing trivia after the last token
    r3 = res.rule("R-C03-3", "trailing trivia (`after`) is emitted after the node's last token: a string that already contains the "
                  "node's `after` (result of add_trivia) is never followed by more of the node's content", floor=20)
    for c in renderer_classes(prog):
        f = prog.method(c, "rebuild")
        r3.instances += 1
        bad = []
        trivia_vars = set()
        for n in walk_no_nested(f.node):
            if isinstance(n, ast.Assign) and isinstance(n.value, ast.Call) and isinstance(n.value.func, ast.Attribute) \
                    and n.value.func.attr == "add_trivia" and isinstance(n.targets[0], ast.Name):
                trivia_vars.add(n.targets[0].id)
        for n in walk_no_nested(f.node):
            segs = None
            if isinstance(n, ast.JoinedStr):
                segs = [v.value if isinstance(v, ast.FormattedValue) else v for v in n.values]
            if not segs:
                continue
            for i, sg in enumerate(segs):
                if isinstance(sg, ast.Name) and sg.id in trivia_vars:
                    rest = [x for x in segs[i + 1:] if not (isinstance(x, ast.Constant))]
                    content_after = [x for x in rest if isinstance(x, ast.Name) and not any(k in x.id for k in ("sep", "separator", "indent", "prefix"))]
                    if content_after:
                        bad.append((n, sg.id, [x.id for x in content_after]))
        r3.ob(not bad, {"class": c, "add_trivia_results": sorted(trivia_vars)})
        for n, v, after in bad:
            res.add("R-C03-3", (f"{c}.rebuild", "content after trailing trivia"), f.loc(n),
                    f"{c}.rebuild: `{norm(n)[:70]}` appends {after} after `{v}`, which already ends with the node's trailing trivia "
                    f"(`after`): a comment that followed the whole construct is emitted in the middle of it")

    # ---------------------------------------------------------------- R-C03-4 comment text reader/writer agreement
    r4 = res.rule("R-C03-4", "every comment node built by Comment.from_cst carries its text (the per-branch prefix agreement of "
                  "reader and writer was withdrawn: it could only be matched textually)", floor=3)
    cf = prog.func("Comment.from_cst")
    cs = prog.func("Comment.__str__")
    mr = prog.func("MultilineComment.rebuild")
    # Withdrawn: the clause "the prefix stripped per branch equals the prefix re-added by __str__" was decided by matching
    # fragments of source text (`$ = $[1:]`, `'# ' if self.space_after_hash else '#'` …).  A behaviour-preserving rewrite of
    # Comment.from_cst (neutral wave p) tripped it, no seeded change ever needed it, and a sound version would have to fold
    # string operations over sample texts — i.e. run the code.  What is kept is the structural part below; the value-level
    # round trip of comment *text* is not decided by this framework (DESIGN §8.7).
    for name, fobj in (("Comment.from_cst", cf),):
        ctor = [c for c in ast.walk(fobj.node) if isinstance(c, ast.Call) and callee(c) in ("cls", "MultilineComment")]
        r4.instances += len(ctor)
        for c in ctor:
            ok = any(k.arg == "text" for k in c.keywords)
            r4.ob(ok, {"constructor": norm(c)[:50]})
            if not ok:
                res.add("R-C03-4", (name, "comment without text", norm(c)[:50]), fobj.loc(c), "a comment node is built without its text")

    # ---------------------------------------------------------------- R-C03-5 snapshot, then no more writes
    r5 = res.rule("R-C03-5", "trivia snapshots are taken last: after `_collect_attrpath_order(X)` has copied the before/after lists "
                  "of X's items, no statement adds trivia to X's items", floor=2)
    for f in prog.all_functions():
        snaps = [n for n in walk_no_nested(f.node) if isinstance(n, ast.Call) and callee(n) == "_collect_attrpath_order"
                 and n.args and isinstance(n.args[0], ast.Name)]
        if not snaps or f.name == "_collect_attrpath_order":
            continue
        cfg = CFG(f.node)
        for sn in snaps:
            r5.instances += 1
            x = sn.args[0].id
            node = cfg.containing(sn)
            later = cfg.reachable(node) - {node}
            bad = []
            for m in later:
                if m.ast is None or m.kind in ("def",):
                    continue
                root = m.ast.iter if m.kind == "for" else m.ast
                for c in ast.walk(root):
                    if isinstance(c, ast.Call) and isinstance(c.func, ast.Attribute) and c.func.attr in ("extend", "append", "insert") \
                            and isinstance(c.func.value, ast.Attribute) and c.func.value.attr in ("before", "after") \
                            and x in norm(c.func.value.value):
                        bad.append(c)
                    if isinstance(c, ast.Assign) and any(isinstance(t, ast.Attribute) and t.attr in ("before", "after") and x in norm(t.value) for t in c.targets):
                        bad.append(c)
            r5.ob(not bad, {"site": f.key, "snapshot": norm(sn)[:50]})
            for c in bad:
                res.add("R-C03-5", (f.key, "trivia added after snapshot", alpha(c, f.node)[:70]), f.loc(c),
                        f"{f.key}: `{norm(c)[:70]}` adds trivia to an item of `{x}` after `_collect_attrpath_order({x})` copied the items' "
                        f"before/after lists: bindings written in attrpath form are rendered from the copies and lose these comments")
    # ---------------------------------------------------------------- R-C03-6 newline flags are measured over the whole gap
    r6 = res.rule("R-C03-6", "a stored `*_on_newline` flag that decides whether the token after an inline-comment slot starts a new "
                  "line is computed from the gap that starts at the slot's start anchor, not at a cursor that moves over comments",
                  floor=1)
    for f in prog.all_functions():
        if not (f.name == "from_cst" or f.module.endswith("function/definition.py")) or f.name == "rebuild":
            continue
        stores = [n for n in walk_no_nested(f.node) if isinstance(n, ast.Assign) and isinstance(n.targets[0], ast.Attribute)
                  and n.targets[0].attr.endswith("_on_newline")]
        if not stores:
            continue
        cfg = CFG(f.node)
        rd = ReachingDefs(cfg)
        loop_assigned = set()
        for lp in [n for n in ast.walk(f.node) if isinstance(n, (ast.While, ast.For))]:
            for n in ast.walk(lp):
                if isinstance(n, ast.Assign):
                    for t in n.targets:
                        if isinstance(t, ast.Name):
                            loop_assigned.add(t.id)
        for st in stores:
            r6.instances += 1
            node = cfg.node_of(st)
            # follow the value back to the gap_between(...) call(s)
            starts = []

            def back(e, at, depth=0):
                if depth > 5:
                    return
                for n in ast.walk(e):
                    if isinstance(n, ast.Call) and callee(n) in ("gap_between", "gap_from_offsets") and len(n.args) >= 3:
                        starts.append(n.args[1])
                    elif isinstance(n, ast.Name) and isinstance(n.ctx, ast.Load):
                        for d in rd.defs_at(at, n.id):
                            if d != "PARAM" and isinstance(d, (ast.Assign, ast.AnnAssign)) and d.value is not None:
                                back(d.value, cfg.node_of(d), depth + 1)

            back(st.value, node)
            bad = [a for a in starts if isinstance(a, ast.Name) and a.id in loop_assigned]
            ok = bool(starts) and not bad
            r6.ob(ok, {"site": f.key, "flag": norm(st.targets[0]), "gap_starts": [norm(a) for a in starts]})
            if not starts:
                res.unclass(f"{f.key}: `{norm(st)[:60]}` is not derived from a gap_between/gap_from_offsets call")
            for a in bad:
                res.add("R-C03-6", (f.key, "newline flag from a partial gap", st.targets[0].attr), f.loc(st),
                        f"{f.key}: `{norm(st)[:70]}` is computed from a gap that starts at `{a.id}`, a cursor that advances over comments: "
                        f"an end-of-line comment before the value is then followed by text on the same line and absorbs it")
    # ---------------------------------------------------------------- R-C03-7 source order of concatenated pieces
    from sa.callgraph import CallGraph
    from sa.deadrender import renderer_functions
    from sa.order import Order, misordered
    r7 = res.rule("R-C03-7", "concatenations in the renderers list trivia in source order: X.before < X < X.after, and everything of "
                  "a child lies between its owner's before and after (f-strings, `+`, list displays, join, apply_trailing_trivia)",
                  floor=15)
    rfs = renderer_functions(prog, CallGraph(prog))
    for f in rfs:
        o = Order(f)
        inner = set()
        cands = []
        for n in walk_no_nested(f.node):
            if isinstance(n, (ast.JoinedStr, ast.List, ast.Tuple)) or (isinstance(n, ast.BinOp) and isinstance(n.op, ast.Add)) or \
                    (isinstance(n, ast.Call) and callee(n) in ("apply_trailing_trivia", "join")):
                cands.append(n)
        for n in cands:
            for sub in ast.walk(n):
                if sub is not n and any(sub is c for c in cands):
                    inner.add(id(sub))
        for n in cands:
            if id(n) in inner:
                continue
            labels = o.seq(n)
            if len(labels) < 2:
                continue
            r7.instances += 1
            bad = misordered(labels)
            r7.ob(not bad, {"site": f.key, "pieces": [f"{'.'.join(p)}.{k}" for lab in labels for p, k in ([lab] if lab[0] != "bag" else lab[1])][:6]})
            for a, b in bad[:1]:
                sa_, sb_ = f"{'.'.join(a[0])}.{a[1]}", f"{'.'.join(b[0])}.{b[1]}"
                res.add("R-C03-7", (f.key, "pieces out of source order", sa_, sb_), f.loc(n),
                        f"{f.key}: `{norm(n)[:70]}` emits {sa_} before {sb_}, but in the source {sb_} comes first: comments of the two "
                        f"slots swap places in a round trip")
    # ---------------------------------------------------------------- R-C03-8 every layer slot is consumed for every layer
    r8 = res.rule("R-C03-8", "re-wrapping let layers consumes every trivia slot of every layer: in a renderer loop over scope layers, "
                  "each of body_before/body_after/after_let_comment/attrpath_order/scope is read on every path through an iteration",
                  floor=5)
    LAYER_KEYS = ("scope", "body_before", "body_after", "attrpath_order", "after_let_comment")
    for f in rfs:
        loops = [n for n in walk_no_nested(f.node) if isinstance(n, ast.For)]
        if not loops:
            continue
        cfg = None
        for lp in loops:
            tnames = {x.id for x in ast.walk(lp.target) if isinstance(x, ast.Name)}
            reads = {}
            for st in lp.body:
                for x in ast.walk(st):
                    key = None
                    if isinstance(x, ast.Subscript) and isinstance(x.value, ast.Name) and x.value.id in tnames and isinstance(x.slice, ast.Constant):
                        key = x.slice.value
                    elif isinstance(x, ast.Call) and isinstance(x.func, ast.Attribute) and x.func.attr == "get" and isinstance(x.func.value, ast.Name) \
                            and x.func.value.id in tnames and x.args and isinstance(x.args[0], ast.Constant):
                        key = x.args[0].value
                    if key in LAYER_KEYS:
                        reads.setdefault(key, []).append(x)
            if len(reads) < 3:
                continue  # not a loop over scope layers
            cfg = cfg or CFG(f.node)
            header = cfg.node_of(lp)
            entry = cfg.containing(lp.body[0]) if not isinstance(lp.body[0], (ast.If, ast.For, ast.While, ast.Try, ast.With)) else None
            if entry is None:
                # compound first statement: its test / header node
                entry = next((n for n in cfg.nodes if n.ast is (lp.body[0].test if isinstance(lp.body[0], (ast.If, ast.While)) else lp.body[0])), None)
            if header is None or entry is None:
                res.unclass(f"{f.key}: layer loop at line {lp.lineno} could not be located in the control-flow graph")
                continue
            for key in LAYER_KEYS:
                r8.instances += 1
                readers = [cfg.containing(x) for x in reads.get(key, [])]
                readers = [n for n in readers if n is not None]
                ok = bool(readers) and (entry in readers or cfg.postdominated_by(entry, readers, exits=[header, cfg.exit]))
                r8.ob(ok, {"site": f.key, "layer_slot": key, "reads": len(readers)})
                if not ok:
                    res.add("R-C03-8", (f.key, "layer slot not consumed on every path", key), f.loc(lp),
                            f"{f.key}: the loop over let layers reads `{key}` of the layer only on some paths (or never): for the layers "
                            f"that take the other path the comments stored there are dropped, and another layer's are shown instead")
    # ---------------------------------------------------------------- R-C03-9 a trivia-consuming branch is not dead code
    r9 = res.rule("R-C03-9", "no trivia consumer is dead code: when a boolean parameter of a renderer helper decides whether the "
                  "`before`/`after` (or comment) slots of a node are consumed, both values reach it from its call sites "
                  "(a flag that is false at every call, directly or by being passed through in recursion, silently drops the slots)",
                  floor=1)
    all_fns = prog.all_functions()
    for f in rfs:
        for g in [f] + list(f.nested.values()):
            a = g.node.args
            params = [x.arg for x in a.posonlyargs + a.args + a.kwonlyargs]
            defaults = dict(zip([x.arg for x in (a.posonlyargs + a.args)][len(a.posonlyargs + a.args) - len(a.defaults):], a.defaults))
            defaults.update({x.arg: d for x, d in zip(a.kwonlyargs, a.kw_defaults) if d is not None})
            for p_ in params:
                d = defaults.get(p_)
                if not (isinstance(d, ast.Constant) and isinstance(d.value, bool)):
                    continue
                guarded = []
                for n in walk_no_nested(g.node):
                    if isinstance(n, ast.If) and norm(n.test) in (p_, f"not {p_}"):
                        live_when = norm(n.test) == p_
                        for br, when in ((n.body, live_when), (n.orelse, not live_when)):
                            reads = [x for st in br for x in ast.walk(st) if isinstance(x, ast.Attribute) and x.attr in ("before", "after")
                                     and isinstance(x.ctx, ast.Load)]
                            if reads:
                                guarded.append((n, when, reads))
                if not guarded:
                    continue
                # values reaching the parameter
                vals = set()
                unknown = False
                scope_fns = [g.parent] + list(g.parent.nested.values()) if g.parent is not None else all_fns
                for h in scope_fns:
                    for c in ast.walk(h.node):
                        if isinstance(c, ast.Call) and isinstance(c.func, ast.Name) and c.func.id == g.node.name:
                            arg = next((k.value for k in c.keywords if k.arg == p_), None)
                            if arg is None:
                                pos = [x.arg for x in a.posonlyargs + a.args]
                                if p_ in pos and pos.index(p_) < len(c.args):
                                    arg = c.args[pos.index(p_)]
                            if arg is None:
                                vals.add(d.value)
                            elif isinstance(arg, ast.Constant) and isinstance(arg.value, bool):
                                vals.add(arg.value)
                            elif isinstance(arg, ast.Name) and arg.id == p_ and any(c is y for y in ast.walk(g.node)):
                                pass  # passed through in recursion: adds no new value
                            else:
                                unknown = True
                r9.instances += 1
                for n, when, reads in guarded:
                    ok = unknown or when in vals or not vals
                    r9.ob(ok, {"helper": g.key, "flag": p_, "values_at_call_sites": sorted(vals), "consumer_needs": when})
                    if not ok:
                        res.add("R-C03-9", (g.key, "trivia consumer is dead", p_), g.loc(n),
                                f"{g.key}: the branch that consumes `{norm(reads[0])}` runs only when `{p_}` is {when}, but every call "
                                f"passes {sorted(vals)} (recursive calls hand the flag through): comments stored on nested nodes are "
                                f"never rendered")
    # ---------------------------------------------------------------- R-C03-10 stable partition by `inline` keeps source order
    r10 = res.rule("R-C03-10", "comments split by their `inline` flag (split_inline_comments renders the inline part first, right after "
                   "the keyword) keep their order only if the flagged ones form a leading run: the collector sets `inline` under a "
                   "latch that goes false at the first comment that is not inline (`run = run and same_row`), never relative to "
                   "whatever comment came before", floor=1)
    for f in prog.all_functions():
        if "allow_inline" not in f.params():
            continue
        stores = [n for n in walk_no_nested(f.node) if isinstance(n, ast.Assign) and isinstance(n.targets[0], ast.Attribute)
                  and n.targets[0].attr == "inline" and is_const(n.value, True)]
        loops = [l for l in walk_no_nested(f.node) if isinstance(l, ast.For)]
        for st in stores:
            loop = next((l for l in loops if any(st is x for x in ast.walk(l))), None)
            if loop is None:
                continue
            r10.instances += 1
            fcfg = CFG(f.node)
            latches = set()
            for d in ast.walk(loop):
                if isinstance(d, ast.Assign) and isinstance(d.targets[0], ast.Name) and isinstance(d.value, ast.BoolOp) and isinstance(d.value.op, ast.And) \
                        and any(isinstance(v, ast.Name) and v.id == d.targets[0].id for v in d.value.values):
                    latches.add(d.targets[0].id)
            from sa.cfg import edges_establishing as _ee
            e = _ee(fcfg, lambda a, t: isinstance(a, ast.Name) and a.id in latches and t is True)
            node = fcfg.containing(st)
            ok = bool(latches) and bool(e) and node is not None and fcfg.all_paths_pass(node, cut_edges=e)
            # … and the converse: a comment that is not marked inline ends the run.  From the statement that updates the latch,
            # the next iteration is reached only through the marking or over an edge on which the latch is false — a second
            # condition on the marking alone (`if run and gap_ok:`) leaves the latch true behind an unmarked comment
            if ok:
                upd = [fcfg.node_of(d) for d in ast.walk(loop) if isinstance(d, ast.Assign) and isinstance(d.targets[0], ast.Name)
                       and d.targets[0].id in latches and isinstance(d.value, ast.BoolOp)]
                upd = [u for u in upd if u is not None]
                off = _ee(fcfg, lambda a, t: isinstance(a, ast.Name) and a.id in latches and t is False)
                ln = fcfg.node_of(loop)
                for u in upd:
                    reach = fcfg.reachable(u, removed_nodes=[node], removed_edges=off, follow_exc=False)
                    if ln in reach or fcfg.exit in reach:
                        ok = False
            r10.ob(ok, {"collector": f.key, "latch": sorted(latches)})
            if not ok:
                res.add("R-C03-10", (f.key, "inline flag relative to the previous comment"), f.loc(st),
                        f"{f.key}: `{norm(st)}` is decided by comparing rows with the previous item, which may itself be an own-line "
                        f"comment: in `then\\n  /* first */ /* second */\\n  b` the second comment is marked inline, split_inline_comments "
                        f"moves it in front of the first (`then /* second */\\n/* first */`), and after a `# eol` comment it is absorbed "
                        f"into that line comment")
    # ---------------------------------------------------------------- R-C03-11 inline attachment in delimited sequences
    r11 = res.rule("R-C03-11", "in a delimited sequence a comment is attached inline to the previous *item* only while every comment "
                   "since that item was inline: parse_delimited_sequence latches (`run` false after the first own-line comment, true "
                   "again after an item) or every can_inline_comment callback refuses a previous node that is a comment — otherwise "
                   "`/* x */ /* y */` on their own line are split between the previous item (y) and the next one (x): reordered",
                   floor=4)
    pds = prog.func("parse_delimited_sequence")
    res.analysed_functions.add(pds.key)
    loop = next((l for l in walk_no_nested(pds.node) if isinstance(l, ast.For) and any(
        isinstance(c, ast.Call) and callee(c) == "can_inline_comment" for c in ast.walk(l))), None)
    latched = False
    if loop is None:
        res.unclass("parse_delimited_sequence: the loop that consults can_inline_comment was not found")
    else:
        # the latch, stated on the paths of the loop body (sa/dtable.py): a boolean local L such that (1) with L false no
        # comment is attached inline, (2) every comment that is not attached inline sets L false, (3) an item sets L true
        from sa.dtable import outcome as _outcome
        lv = loop.target.id if isinstance(loop.target, ast.Name) else "child"
        attach = next((p_ for p_ in pds.params() if "attach" in p_), "attach_inline_comment")
        flags = {norm(d.targets[0]) for d in ast.walk(loop) if isinstance(d, ast.Assign) and isinstance(d.targets[0], ast.Name)
                 and isinstance(d.value, ast.Constant) and isinstance(d.value.value, bool)}
        comment = {f"{lv}.type == 'comment'": True, f"{lv}.type != 'comment'": False}
        item = {f"{lv}.type == 'comment'": False, f"{lv}.type != 'comment'": True}

        def attaches(path):
            return any(a.startswith(f"{attach}(") for a in path)

        for nm in sorted(flags):
            off = _outcome(loop.body, dict(comment, **{nm: False}))
            anyc = _outcome(loop.body, comment)
            it = _outcome(loop.body, item)
            c1 = bool(off.paths) and not any(attaches(p_) for p_ in off.paths)
            c2 = bool(anyc.paths) and all(attaches(p_) or f"{nm} = False" in p_ for p_ in anyc.paths)
            c3 = any(f"{nm} = True" in p_ for p_ in it.paths)
            if c1 and c2 and c3:
                latched = True
    for f in prog.all_functions():
        for c in walk_no_nested(f.node):
            if isinstance(c, ast.Call) and callee(c) == "parse_delimited_sequence":
                cb = next((k.value for k in c.keywords if k.arg == "can_inline_comment"), None)
                if not isinstance(cb, ast.Name):
                    continue
                g, target = f, None
                while g is not None and target is None:
                    target = g.nested.get(cb.id)
                    g = g.parent
                if target is None:
                    continue
                r11.instances += 1
                prevp = target.params()[0] if target.params() else "prev"
                refuses = any(isinstance(x, ast.Compare) and norm(x.left) == f"{prevp}.type" and (
                    (isinstance(x.ops[0], ast.In) and isinstance(x.comparators[0], (ast.Tuple, ast.List, ast.Set)) and
                     "comment" not in [getattr(e, "value", None) for e in x.comparators[0].elts]) or
                    (isinstance(x.ops[0], ast.NotEq) and is_const(x.comparators[0], "comment"))) for x in ast.walk(target.node))
                ok = latched or refuses
                r11.ob(ok, {"caller": f.key, "callback": target.key, "sequence_latched": latched, "callback_refuses_comment_prev": refuses})
                if not ok:
                    res.add("R-C03-11", (target.key, "inline attachment relative to a previous comment"), target.loc(),
                            f"{target.key} accepts a previous node that is itself a comment and parse_delimited_sequence has no latch: in "
                            f"`[\\n  a\\n  /* x */ /* y */\\n  b\\n]` the second comment is attached to `a` and the first to `b` "
                            f"(`a /* y */\\n/* x */\\n  b`): the two comments swap places")
    # ---------------------------------------------------------------- R-C03-12 a one-comment slot is not overwritten in a loop
    r12 = res.rule("R-C03-12", "every comment converted in a parser loop is kept: `x = Comment.from_cst(node)` inside a loop is "
                   "consumed in the same iteration (appended, or handed to a call) or assigned only while the slot is still empty — "
                   "a scalar slot that is simply reassigned keeps the last comment and loses the others", floor=8)
    for f in prog.all_functions():
        pm12 = None
        for n in walk_no_nested(f.node):
            if not (isinstance(n, ast.Assign) and isinstance(n.value, ast.Call) and norm(n.value.func).endswith("Comment.from_cst")
                    and isinstance(n.targets[0], (ast.Name, ast.Attribute))):
                continue
            pm12 = pm12 or parent_map(f.node)
            cur, loop = n, None
            while cur in pm12:
                cur = pm12[cur]
                if isinstance(cur, (ast.For, ast.While)):
                    loop = cur
                    break
            if loop is None:
                continue
            r12.instances += 1
            tgt = norm(n.targets[0])
            consumed = any(isinstance(x, ast.Call) and any(norm(a) == tgt for a in list(x.args) + [k.value for k in x.keywords])
                           and not norm(x.func).endswith("Comment.from_cst") for x in ast.walk(loop))
            fcfg = CFG(f.node)
            from sa.cfg import edges_establishing as _ee12
            empty = _ee12(fcfg, lambda a, t, _t=tgt: (norm(a) == f"{_t} is None" and t is True) or (norm(a) == f"{_t} is not None" and t is False)
                          or (norm(a) == _t and t is False))
            node = fcfg.containing(n)
            guarded = bool(empty) and node is not None and fcfg.all_paths_pass(node, cut_edges=[(x, l) for x, l in empty if any(x.ast is y for y in ast.walk(loop))])
            ok = consumed or guarded
            r12.ob(ok, {"site": f.key, "assignment": norm(n)[:60], "consumed_in_iteration": consumed, "only_while_empty": guarded})
            if not ok:
                res.add("R-C03-12", (f.key, "one-comment slot reassigned in a loop", alpha(n.targets[0], f.node)), f.loc(n),
                        f"{f.key}: `{norm(n)[:60]}` runs for every matching comment of the loop and the slot holds one: in "
                        f"`x: /* a */ /* b */ y` both comments follow the colon on its line, the second overwrites the first, and "
                        f"`/* a */` is gone from the output")
    # ---------------------------------------------------------------- R-C03-13 window filters are closed at their start anchor
    r13 = res.rule("R-C03-13", "a window filter that picks the comments between two anchors is closed at the first one: "
                   "`A.end_byte <= c.start_byte < B.start_byte` (every sibling filter is written this way). A comment written "
                   "directly against the first token (`a/* c */;`) starts exactly at A.end_byte; with a strict `<` it belongs to no "
                   "window and is dropped", floor=5)
    for f in prog.all_functions():
        if not f.module.startswith("nix_manipulator/expressions/"):
            continue
        if "select" in f.name and "between" in f.name:
            # the shared selector behind every collector: its lower bound must be inclusive however the test is written
            for lc in [n for n in walk_no_nested(f.node) if isinstance(n, (ast.ListComp, ast.GeneratorExp))]:
                elem = lc.generators[0].target.id if isinstance(lc.generators[0].target, ast.Name) else None
                for cond in lc.generators[0].ifs:
                    for c in ast.walk(cond):
                        if isinstance(c, ast.Compare) and len(c.ops) == 1 and all(isinstance(x, ast.Attribute) for x in [c.left, c.comparators[0]]):
                            l, rgt, op = c.left, c.comparators[0], c.ops[0]
                            strict = (isinstance(op, ast.Gt) and l.attr == "start_byte" and norm(l.value) == elem and rgt.attr == "end_byte") or \
                                     (isinstance(op, ast.Lt) and l.attr == "end_byte" and rgt.attr == "start_byte" and norm(rgt.value) == elem)
                            if strict:
                                r13.instances += 1
                                r13.ob(False, {"site": f.key, "filter": norm(c)})
                                res.add("R-C03-13", (f.key, "comment window open at its start anchor", alpha(c, f.node, anonymous=True)[:60]), f.loc(c),
                                        f"{f.key}: `{norm(c)}` excludes a comment that starts exactly where the start anchor ends: every "
                                        f"collector built on this selector drops a comment written directly against the preceding token "
                                        f"(`if c/* b */ then …`, `with/* a */ pkgs; …`)")
        for c in walk_no_nested(f.node):
            if not (isinstance(c, ast.Compare) and len(c.ops) == 2 and all(isinstance(x, ast.Attribute) and x.attr in ("start_byte", "end_byte")
                                                                            for x in [c.left] + c.comparators)):
                continue
            a, m, b = c.left, c.comparators[0], c.comparators[1]
            if not (a.attr == "end_byte" and m.attr == "start_byte" and b.attr == "start_byte"):
                continue
            r13.instances += 1
            ok = isinstance(c.ops[0], ast.LtE) and isinstance(c.ops[1], ast.Lt)
            r13.ob(ok, {"site": f.key, "window": norm(c)[:80]})
            if not ok:
                res.add("R-C03-13", (f.key, "comment window open at its start anchor", alpha(c, f.node, anonymous=True)[:60]), f.loc(c),
                        f"{f.key}: `{norm(c)[:80]}` excludes a comment that starts exactly where `{norm(a.value)}` ends: "
                        f"`{{ inherit a/* c */; }}` (no blank between the name and the comment) is rebuilt without the comment")
    # ---------------------------------------------------------------- R-C03-14 the two halves of a split are not swapped
    from sa import lints as _l
    r14 = res.rule("R-C03-14", "tuple results are unpacked in the order they are returned: where a caller names its two targets after "
                   "the *other* positions of the callee's named return tuple (`inline_x, rest = split_inline_comments(…)` while it "
                   "returns `(remaining, inline)`), own-line and end-of-line comments change places", floor=80)
    for f in prog.all_functions():
        if not f.module.startswith("nix_manipulator/expressions/"):
            continue
        r14.instances += 1
        bad = _l.swapped_unpacks(prog, f)
        r14.ob(not bad, None if not bad else {"site": f.key, "unpack": [norm(a)[:60] for a, _w in bad]})
        for a, why in bad:
            res.add("R-C03-14", (f.key, "tuple unpacked in the opposite order", norm(a.value.func)), f.loc(a),
                    f"{f.key}: `{norm(a)[:70]}` but {why}: the end-of-line comments are treated as own-line ones and vice versa — their order "
                    f"in the output is reversed and a `#` comment can swallow the next one")
    from sa.rules import linecomment
    linecomment.check(prog, res, "R-C03-15")
    both_halves_consumed(prog, res)
    from sa.rules.c01 import no_greedy_strip
    no_greedy_strip(prog, res, "R-C03-16")  # a comment keeps its wording: `*/` is cut off by position, not by a character-set strip
    res.tables.append(f"sa/tables/grammar.py: {len(PRODUCTIONS)} productions, {len(GENERIC_CLASSES)} generic walkers")
    res.assumptions = ["relative order of two comments routed into different slots of the same gap is a value-level fact and is not decided"]
    return res


def _disjoint(prog: Program, ga, routes) -> bool:
    """the overlapping routes draw from comment lists that are disjoint by construction"""
    f_keys = {r.func for r in routes}
    # idiom 3: the routes draw from different sub-lists of one sorting loop (`for c in comments: (a if P(c) else b).append(c)`)
    srcs = [r.source for r in routes]
    if all(srcs) and len(set(srcs)) == len(srcs) and any(set(srcs) <= parts for _src, parts, _loop in ga.partitions):
        return True
    for fk in f_keys:
        f = prog.funcs[fk]
        txt = norm(f.node)
        # idiom 1: `rest = [c for c in all if c not in taken]`
        if " not in " in txt and any(isinstance(n, ast.ListComp) and any(isinstance(c, ast.Compare) and isinstance(c.ops[0], ast.NotIn)
                                                                        for g in n.generators for c in g.ifs) for n in ast.walk(f.node)):
            return True
        # idiom 2: the extracting loop removes the comment from the shared list (`comments.remove(c)`)
        for r in routes:
            if r.how.startswith("loop-filter") and isinstance(r.node, ast.For):
                if any(isinstance(c, ast.Call) and callee(c) == "remove" for c in ast.walk(r.node)):
                    return True
    return False


def both_halves_consumed(prog: Program, res: Results) -> None:
    """R-C03-17: `split_inline_comments` hands back the own-line comments and the same-line comments of one gap; both lists hold
    comments of the source."""
    from sa.cfg import CFG, edges_establishing
    r = res.rule("R-C03-17", "both halves of a split are kept: after `rest, inline = split_inline_comments(<comments>)` every path to a "
                 "normal exit of the function reads each of the two lists (other than in a bare emptiness test) or has "
                 "established that it is empty — an early `return inline` drops the own-line comments of the gap", floor=4)
    for f in prog.all_functions():
        if not f.module.startswith("nix_manipulator/expressions/"):
            continue
        splits = [d for d in walk_no_nested(f.node) if isinstance(d, ast.Assign) and len(d.targets) == 1 and isinstance(d.targets[0], ast.Tuple)
                  and isinstance(d.value, ast.Call) and callee(d.value) == "split_inline_comments" and all(isinstance(e, ast.Name) for e in d.targets[0].elts)]
        if not splits:
            continue
        cfg = CFG(f.node)
        res.analysed_functions.add(f.key)
        for d in splits:
            dn = cfg.node_of(d)
            if dn is None:
                continue
            for t in d.targets[0].elts:
                name = t.id
                if name == "_":
                    continue
                r.instances += 1

                def reads(n):
                    if n.ast is None or n is dn:
                        return False
                    root = n.ast.iter if n.kind == "for" else n.ast
                    if n.kind == "test":
                        # `if name:` only looks at it; `if f(name):` / a comprehension over it consumes it
                        t_ = root
                        bare = {id(x) for x in ast.walk(t_) if isinstance(x, ast.Name) and x.id == name}
                        used = [x for x in ast.walk(t_) if isinstance(x, (ast.Call, ast.comprehension, ast.Subscript, ast.BinOp))
                                and any(isinstance(y, ast.Name) and y.id == name for y in ast.walk(x))]
                        return bool(used) and bool(bare)
                    return any(isinstance(x, ast.Name) and x.id == name and isinstance(x.ctx, ast.Load) for x in ast.walk(root))

                uses = [n for n in cfg.nodes if reads(n)]
                redefs = [n for n in cfg.nodes if n is not dn and n.ast is not None and isinstance(n.ast, ast.Assign)
                          and any(isinstance(x, ast.Name) and x.id == name and isinstance(x.ctx, ast.Store) for tg in n.ast.targets for x in ast.walk(tg))]
                empty = edges_establishing(cfg, lambda a, tr: (norm(a) in (name, f"len({name})", f"len({name}) > 0") and tr is False)
                                           or (norm(a) in (f"not {name}", f"len({name}) == 0") and tr is True))
                reach = cfg.reachable(dn, removed_nodes=uses + redefs, removed_edges=empty, follow_exc=False)
                lost = cfg.exit in reach
                r.ob(not lost, {"site": f.key, "half": name})
                if lost:
                    res.add("R-C03-17", (f.key, "half of a split dropped on some path", name), f.loc(d),
                            f"{f.key}: after `{norm(d)[:70]}` a normal exit is reachable on which `{name}` was never read although it may "
                            f"hold comments: `then # t1\\n  # t2\\n  t` keeps `# t1` and loses `# t2` (or the reverse)")
