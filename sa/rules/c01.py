"""C01 — a parse/rebuild round trip never changes what the program means (structural clauses)."""
from __future__ import annotations

import ast

from sa.callgraph import CallGraph
from sa.contentrule import analyse_renderer, field_table, GRAMMAR_EXCEPTIONS, OWNERS, EXCLUSIVE, REVIEWED_DROPS
from sa.deadrender import dead_definitions, discarded_nonempty, renderer_functions
from sa.model import AnalysisError, Program, alpha, norm, walk_no_nested
from sa.report import Results
from sa.tables.grammar import EXPRESSION_KINDS, OTHER_DISPATCHED_KINDS
from sa.util import callee, dotted, exc_name

MAPPING = "nix_manipulator/mapping.py"
SKIP_RENDER_CLASSES = {"NixExpression", "TypedExpression", "Primitive"}


def renderer_classes(prog: Program) -> list[str]:
    out = []
    for c in sorted(prog.classes):
        if c in SKIP_RENDER_CLASSES:
            continue
        if "NixExpression" not in prog.mro(c) and c != "NixSourceCode":
            continue
        if prog.method(c, "rebuild") is None:
            continue
        out.append(c)
    return out


ALTERNATIVE_RENDERERS = [("NixList", "simple_inline_preview")]  # methods whose non-None result other renderers use verbatim


def content_findings(prog: Program, res: Results, rid: str, only_fields=None, describe="token-bearing"):
    """shared by C01 (all content fields) and C03 (comment-bearing fields only)"""
    r = res.rule(rid, f"every {describe} field of every renderer reaches the returned string on every path; a field may be "
                 f"absent only on the empty side of an emptiness/None test of the field itself (or of its owner)", floor=26)
    classes = renderer_classes(prog)
    total_returns = 0
    jobs = [(c, "rebuild") for c in classes] + [(c, e) for c, e in ALTERNATIVE_RENDERERS if c in classes and prog.method(c, e) is not None]
    for c, entry in jobs:
        out = analyse_renderer(prog, c, entry=entry)
        if out is None:
            continue
        flow, rets, table, problems, n_ob = out
        r.instances += 1
        total_returns += len(rets)
        res.analysed_functions.add(f"{c}.{entry}")
        content = [k for k, v in table.items() if v in ("content", "bool-content")]
        if only_fields is not None:
            content = [k for k in content if only_fields(prog, c, k)]
        relevant = [p for p in problems if p["field"] in content or (only_fields is None and p["field"].startswith("param:"))]
        r.obligations += len(content) * max(1, len(rets))
        seen = set()
        for p in relevant:
            site = p["site"]
            tnode = flow.tests.get(site, (None,))[0] if site else None
            owner_f = prog.funcs.get(site[0]) if site else None
            while owner_f is not None and owner_f.parent is not None:
                owner_f = owner_f.parent
            # the key states the condition positively: `not t` (body side) is the same condition as `t` (else side)
            lacking_side = p["lacking"]
            kn = tnode
            while isinstance(kn, ast.UnaryOp) and isinstance(kn.op, ast.Not) and lacking_side in ("body", "else"):
                kn = kn.operand
                lacking_side = "else" if lacking_side == "body" else "body"
            ttxt = alpha(kn, owner_f.node)[:70] if (kn is not None and owner_f is not None) else p["test"][:70]
            key = (c if entry == "rebuild" else f"{c}.{entry}", p["field"], "never rendered" if p["kind"] == "never" else f"dropped under `{ttxt}` ({lacking_side} side)")
            if key in seen:
                continue
            seen.add(key)
            f = prog.method(c, entry)
            where = f"{prog.funcs[site[0]].file}:{site[1]}" if site and site[0] in prog.funcs else f.loc(p["return"])
            if p["kind"] == "never":
                msg = (f"{c}.{entry}: the return at line {p['return'].lineno} never contains field `{p['field']}` "
                       f"(path: {p['test'] or 'unconditional'}): its tokens/comments vanish whenever this path is taken")
            else:
                msg = (f"{c}.{entry}: field `{p['field']}` is rendered on one side of `{p['test']}` only (missing on the "
                       f"{p['lacking']} side), and that test is not an emptiness test of the field: the content is dropped "
                       f"whenever that branch runs")
            res.add(rid, key, where, msg)
        r.discharged += len(content) * max(1, len(rets)) - len(seen)
        if len(r.samples) < 6:
            r.samples.append({"class": c, "returns": len(rets), "fields": content[:8]})
    if total_returns < 50:
        res.unclass(f"content-flow analysis saw only {total_returns} return sites (floor 50)")
    return r


def run(prog: Program) -> Results:
    res = Results("C01")

    # ---------------------------------------------------------------- R-C01-1 dispatch exhaustiveness
    r1 = res.rule("R-C01-1", "every expression kind of the grammar (and binding/inherit/comment/ellipses) has a handler; every "
                  "dispatched class defines its own from_cst and rebuild; kinds claimed by two classes are disjoint", floor=24)
    try:  # cross-check the frozen kind list against the installed grammar when available (data only, no repo code runs)
        import tree_sitter_nix as tsn  # type: ignore
        from tree_sitter import Language  # type: ignore
        lang = Language(tsn.language())
        kinds = sorted({lang.node_kind_for_id(i) for i in range(lang.node_kind_count)
                        if lang.node_kind_is_named(i) and lang.node_kind_is_visible(i) and lang.node_kind_for_id(i).endswith("_expression")})
        if kinds != sorted(EXPRESSION_KINDS):
            raise AnalysisError(f"installed tree-sitter-nix lists {len(kinds)} expression kinds, frozen table {len(EXPRESSION_KINDS)}")
    except ImportError:
        res.notes.append("tree_sitter_nix not importable: frozen kind table used without cross-check")
    et = prog.module_assigns.get(MAPPING, {}).get("EXPRESSION_TYPES")
    if not isinstance(et, ast.Set):
        raise AnalysisError("mapping.EXPRESSION_TYPES is not a set literal")
    dispatched = [e.id for e in et.elts if isinstance(e, ast.Name)]
    claims: dict[str, list[str]] = {}
    for c in dispatched:
        cls = prog.cls(c)
        tst = None
        for k in prog.mro(c):
            tst = prog.classes[k].classvars.get("tree_sitter_types") if k in prog.classes else None
            if tst is not None:
                break
        if not isinstance(tst, ast.Set):
            raise AnalysisError(f"{c}.tree_sitter_types is not a set literal")
        for e in tst.elts:
            if isinstance(e, ast.Constant):
                claims.setdefault(e.value, []).append(c)
    # explicit branches of tree_sitter_node_to_expression
    tn = prog.func("tree_sitter_node_to_expression")
    explicit = set()
    for n in ast.walk(tn.node):
        if isinstance(n, ast.Compare) and dotted(n.left) == "node.type" and isinstance(n.comparators[0], ast.Constant):
            explicit.add(n.comparators[0].value)
    handled = set(claims) | explicit
    for k in EXPRESSION_KINDS + OTHER_DISPATCHED_KINDS:
        r1.instances += 1
        ok = k in handled
        r1.ob(ok, {"kind": k, "handler": claims.get(k, ["explicit branch"] if k in explicit else [])})
        if not ok:
            res.add("R-C01-1", ("no handler", k), tn.loc(), f"grammar node kind `{k}` has no handler: a valid program using it raises "
                    f"ValueError('Unsupported node type') instead of round-tripping")
    for k, cs in claims.items():
        if len(cs) > 1 and k not in explicit:
            r1.ob(False, {"kind": k, "claimed_by": cs})
            res.add("R-C01-1", ("kind claimed twice", k), tn.loc(),
                    f"`{k}` is claimed by {cs}: the winner depends on set iteration order (PYTHONHASHSEED)")
    for c in dispatched + ["Import", "Identifier", "Operator"]:
        for m in ("from_cst", "rebuild"):
            r1.instances += 1
            own = any(prog.own_method(k, m) is not None for k in prog.mro(c) if k not in ("NixExpression", "TypedExpression"))
            r1.ob(own, {"class": c, "method": m})
            if not own:
                res.add("R-C01-1", (c, "inherits abstract", m), prog.cls(c).module + ":1",
                        f"{c} is dispatched but does not define {m} (the base raises NotImplementedError)")
    # the default arm raises ValueError
    raises = [n for n in ast.walk(tn.node) if isinstance(n, ast.Raise)]
    ok = bool(raises) and all(exc_name(n.exc) == "ValueError" for n in raises)
    r1.ob(ok, {"default": "raise ValueError"})
    if not ok:
        res.add("R-C01-1", ("dispatch default",), tn.loc(), "an unknown node kind is not rejected with ValueError")

    # ---------------------------------------------------------------- R-C01-2 content flow
    content_findings(prog, res, "R-C01-2")
    res.tables.append(f"sa/contentrule.py: {len(OWNERS)} owner rows, {len(EXCLUSIVE)} exclusive-partner rows, {len(GRAMMAR_EXCEPTIONS)} grammar "
                      f"exception, {len(REVIEWED_DROPS)} reviewed content-conditioned drop")

    # ---------------------------------------------------------------- R-C01-3 gap offsets index the bytes they were measured against
    r3 = res.rule("R-C01-3", "the bytes installed by source_bytes_context are addressable by absolute CST offsets (the parser's own "
                  "input), because _gap_span does not rebase in that arm", floor=1)
    gs = prog.func("_gap_span")
    txt = norm(gs.node)
    rebases_ctx = "start_byte - " in txt.split("return source_bytes, start_byte, end_byte")[0] if "return source_bytes, start_byte, end_byte" in txt else None
    sites = []
    for f in prog.all_functions():
        for c in walk_no_nested(f.node):
            if isinstance(c, ast.Call) and callee(c) == "source_bytes_context" and f.name != "source_bytes_context":
                sites.append((f, c))
    r3.instances = len(sites)
    if not sites:
        raise AnalysisError("no source_bytes_context(...) call site found")
    from sa.dataflow import FnFlow
    for f, c in sites:
        flow = FnFlow(f.node)
        arg = c.args[0] if c.args else None
        ex = flow.expand(arg, at=flow.cfg.containing(c)) if arg is not None else None
        t = norm(ex) if ex is not None else ""
        is_node_text = ".text" in t and "node" in t
        params = f.params()
        from_input = isinstance(ex, ast.Name) and ex.id in params and ex.id != "node"
        ok = (from_input and not is_node_text) or bool(rebases_ctx)
        r3.ob(ok, {"site": f.key, "installed": t})
        if not ok:
            res.add("R-C01-3", (f.key, "source bytes start at the first token"), f.loc(c),
                    f"{f.key} installs `{t}` as the shared source bytes; the root node starts at the first token, so when the file "
                    f"begins with blank lines or spaces every absolute gap offset is shifted and gaps are misclassified "
                    f"(blank lines and the final newline are lost)")

    # ---------------------------------------------------------------- R-C01-4 child loops accept comments
    r4 = res.rule("R-C01-4", "a from_cst loop over CST children that rejects unknown children (`Unsupported child`) has an arm for "
                  "`comment` (comments are grammar extras and may appear between any two children)", floor=2)
    for f in prog.all_functions():
        if not (f.name == "from_cst" or (f.parent is None and f.cls is None and f.module.startswith("nix_manipulator/expressions"))):
            continue
        for loop in [n for n in ast.walk(f.node) if isinstance(n, ast.For)]:
            lv = loop.target.id if isinstance(loop.target, ast.Name) else None
            if lv is None:
                continue
            raises = [s_ for s_ in ast.walk(ast.Module(body=loop.body, type_ignores=[])) if isinstance(s_, ast.Raise) and "Unsupported" in norm(s_)]
            inner_loops = [l for l in ast.walk(ast.Module(body=loop.body, type_ignores=[])) if isinstance(l, ast.For)]
            raises = [x for x in raises if not any(any(x is y for y in ast.walk(l)) for l in inner_loops)]
            typed = [t for t in ast.walk(ast.Module(body=loop.body, type_ignores=[])) if isinstance(t, ast.Compare) and norm(t.left) == f"{lv}.type"]
            if not raises or not typed:
                continue
            # decision table: with child.type == "comment", may the `Unsupported child` rejection execute?  (independent of how
            # the arms are arranged: if/elif order, negated tests, early continue)
            from sa.dtable import outcome
            r4.instances += 1
            o = outcome(loop.body, {f"{lv}.type": "comment"})
            rejected = any(a_.startswith("raise") and "Unsupported" in a_ for a_ in o.may)
            r4.ob(not rejected, {"site": f.key, "loop_var": lv, "arms": sorted({norm(t)[:40] for t in typed})[:8]})
            if rejected:
                res.add("R-C01-4", (f.key, "child loop rejects comments", alpha(loop.iter, f.node)), f.loc(loop),
                        f"{f.key}: the loop over `{norm(loop.iter)}` raises 'Unsupported child' for anything but "
                        f"{sorted({norm(t)[:30] for t in typed})}: a comment in that position (valid Nix) makes parse raise ValueError")

    # ---------------------------------------------------------------- R-C01-5 dead render values
    r5 = res.rule("R-C01-5", "no dead render value: in the renderer closure every definition of a local that holds rendered text "
                  "reaches a use, and a conditional on its truthiness uses it on the non-empty side", floor=60)
    cg = CallGraph(prog)
    for f in renderer_functions(prog, cg):
        r5.instances += 1
        dd = dead_definitions(f)
        dn = discarded_nonempty(f)
        r5.ob(not dd and not dn, None)
        for a, name in dd:
            res.add("R-C01-5", (f.key, "dead render value", alpha(a, (f.parent or f).node)[:60]), f.loc(a),
                    f"{f.key}: `{norm(a)[:70]}` computes rendered text that no path uses afterwards: the piece it renders is missing "
                    f"from the output")
        for n, x in dn:
            res.add("R-C01-5", (f.key, "non-empty value discarded", alpha(n, (f.parent or f).node)[:60]), f.loc(n),
                    f"{f.key}: `{norm(n)[:70]}` tests `{x}` for emptiness but its non-empty arm does not contain `{x}`")

    # ---------------------------------------------------------------- R-C01-6 let lifting / re-wrapping orientation (shared with R-C09-1)
    from sa.rules import c09
    sub = c09.run(prog)
    st = sub.rules.get("R-C09-1")
    r6 = res.rule("R-C01-6", "let lifting and re-wrapping agree on the order of layers (shared with R-C09-1): nested lets are "
                  "re-emitted in their original order", floor=5)
    if st:
        r6.instances, r6.obligations, r6.discharged = st.instances, st.obligations, st.discharged
    for fnd in sub.findings:
        if fnd.rule == "R-C09-1":
            res.add("R-C01-6", fnd.key, fnd.where, fnd.message)
    presence_tests(prog, res, "R-C01-7", renderer_functions(prog, cg))
    marker_positions(prog, res, "R-C01-8")
    no_greedy_strip(prog, res, "R-C01-10")
    scoped_nodes_render_their_let(prog, res, "R-C01-12")
    container_children_all_handled(prog, res, "R-C01-13")
    byte_offsets_index_bytes(prog, res, "R-C01-14")
    parallel_lists_stay_aligned(prog, res, "R-C01-15")
    no_text_rewriting(prog, res, "R-C01-9", renderer_functions(prog, cg) + [prog.func("NixSourceCode.rebuild")])
    from sa.rules import kinds
    kinds.check(prog, res, "R-C01-11")
    from sa.rules import linecomment
    linecomment.check(prog, res, "R-C01-16")
    res.assumptions = ["glue between adjacent tokens (separator presence), line-comment/newline adjacency and integer/let/trailing-"
                       "comma normalisations are value-level facts about concatenated strings and are not decided"]
    return res


# ------------------------------------------------------------------------------------------------ R-C01-7
BUILTIN_SIZED = {"list", "dict", "set", "tuple", "str", "bytes", "frozenset", "Sequence", "Mapping", "MutableMapping",
                 "MutableSequence", "Collection", "Sized", "UserList", "UserDict", "deque"}


def falsy_capable(prog: Program) -> dict[str, str]:
    """package classes whose instances can be false: they (or a base) define __bool__/__len__ or derive from a sized builtin"""
    out = {}
    for c in prog.classes:
        for b in prog.mro(c):
            cl = prog.classes.get(b)
            if cl is None:
                continue
            for m in ("__bool__", "__len__"):
                if prog.own_method(b, m) is not None:
                    out.setdefault(c, f"{b}.{m}")
            for bb in cl.bases:
                if bb.split("[")[0].split(".")[-1] in BUILTIN_SIZED:
                    out.setdefault(c, f"{b}({bb})")
    return out


def admitted_expression_classes(prog: Program, ann: str) -> set[str] | None:
    """expression classes a field annotation admits; None when the annotation names no expression class"""
    import re
    toks = set(re.findall(r"[A-Za-z_][A-Za-z0-9_]*", ann))
    expr = set(prog.expression_classes()) | {"NixExpression", "TypedExpression"}
    named = toks & (expr | {c for c in prog.classes if "NixExpression" in prog.mro(c)})
    if not named:
        return None
    out = set()
    for c in named:
        out.add(c)
        out |= set(prog.subclasses(c))
    return out


def truthiness_operands(test: ast.AST):
    """sub-expressions whose truth value alone decides (part of) a test"""
    if isinstance(test, ast.BoolOp):
        for v in test.values:
            yield from truthiness_operands(v)
    elif isinstance(test, ast.UnaryOp) and isinstance(test.op, ast.Not):
        yield from truthiness_operands(test.operand)
    elif isinstance(test, ast.Call) and isinstance(test.func, ast.Name) and test.func.id == "bool" and len(test.args) == 1:
        yield from truthiness_operands(test.args[0])
    elif isinstance(test, (ast.Attribute, ast.Name)):
        yield test


def presence_tests(prog: Program, res: Results, rid: str, functions) -> None:
    r = res.rule(rid, "presence of an expression-valued slot is decided by identity (`is None`) or by a truth test that cannot be "
                 "false for a present node: no class the slot admits defines __bool__/__len__ (an empty list or set literal is "
                 "still a node that must be rendered)", floor=4)
    falsy = falsy_capable(prog)
    for f in functions:
        owner = f
        while owner.parent is not None:
            owner = owner.parent
        cls = owner.cls
        ann_of = {}
        a = f.node.args
        for p in a.posonlyargs + a.args + a.kwonlyargs:
            if p.annotation is not None:
                ann_of[p.arg] = ast.unparse(p.annotation)
        alias = {}
        for n in walk_no_nested(f.node):
            if isinstance(n, ast.Assign) and len(n.targets) == 1 and isinstance(n.targets[0], ast.Name) and isinstance(n.value, ast.Attribute):
                alias.setdefault(n.targets[0].id, []).append(n.value)
        tests = []
        for n in walk_no_nested(f.node):
            if isinstance(n, (ast.If, ast.While, ast.IfExp)):
                tests.append(n.test)
            elif isinstance(n, ast.Assert):
                tests.append(n.test)
            elif isinstance(n, ast.comprehension):
                tests.extend(n.ifs)
            elif isinstance(n, ast.BoolOp) and not any(n is t or any(n is x for x in ast.walk(t)) for t in tests):
                # value-position `a or b` / `a and b`: every operand but the last is truth-tested
                tests.extend(n.values[:-1])
        for t in tests:
            for x in truthiness_operands(t):
                exprs = [x]
                if isinstance(x, ast.Name) and len(alias.get(x.id, [])) == 1:
                    exprs = alias[x.id]
                for e in exprs:
                    if not isinstance(e, ast.Attribute) or not isinstance(e.value, ast.Name):
                        continue
                    base_cls = cls if e.value.id == "self" else None
                    if base_cls is None and e.value.id in ann_of:
                        m = [c for c in prog.classes if c in ann_of[e.value.id].replace('"', "").split("|")[0].strip().split("[")[0:1]]
                        base_cls = m[0] if m else None
                    if base_cls is None or base_cls not in prog.classes:
                        continue
                    fld = prog.fields(base_cls).get(e.attr)
                    if not fld:
                        continue
                    adm = admitted_expression_classes(prog, fld[0])
                    if adm is None or fld[0].strip().startswith(("list[", "List[", "dict[", "tuple[")):
                        continue
                    r.instances += 1
                    bad = sorted(c for c in adm if c in falsy)
                    r.ob(not bad, {"site": f.key, "test": norm(t)[:60], "slot": f"{base_cls}.{e.attr}", "annotation": fld[0][:50]})
                    for c in bad:
                        res.add(rid, (f.key, f"{base_cls}.{e.attr}", "truth test on a slot that admits", c), f.loc(t),
                                f"{f.key}: `{norm(t)[:70]}` decides whether `{base_cls}.{e.attr}` is present by its truth value, but the slot "
                                f"admits {c}, whose instances can be false ({falsy[c]}): an empty {c} is rendered as if the slot were absent")


# ------------------------------------------------------------------------------------------------ R-C01-8
def marker_positions(prog: Program, res: Results, rid: str) -> None:
    """writer/reader agreement for the `comma` trivia marker (leading-comma formals)"""
    r = res.rule(rid, "the `comma` marker is found wherever the parser put it: the parser appends it to a trivia list that may "
                 "already hold an empty_line marker or own-line comments, so a renderer may test for it only by membership "
                 "(`comma in xs`, a loop over xs), not at a fixed position", floor=2)
    writers = []
    for f in prog.all_functions():
        for n in walk_no_nested(f.node):
            if isinstance(n, ast.Call) and isinstance(n.func, ast.Attribute) and n.func.attr in ("append", "insert", "extend") \
                    and any(isinstance(a, ast.Name) and a.id == "comma" for a in ast.walk(ast.Module(body=[ast.Expr(value=x) for x in n.args], type_ignores=[]))):
                lst = norm(n.func.value)
                top = f
                while top.parent is not None:
                    top = top.parent
                # may the list be non-empty when the marker is added?  fresh-empty only if the statement just before (same block)
                # assigns `lst = []`; anything else counts as "anywhere"
                pos = "anywhere"
                if n.func.attr == "insert" and n.args and isinstance(n.args[0], ast.Constant) and n.args[0].value == 0:
                    pos = "first"
                pm_ = None
                for blk in ast.walk(top.node):
                    for fld in ("body", "orelse", "finalbody"):
                        seq = getattr(blk, fld, None)
                        if isinstance(seq, list):
                            for i, st in enumerate(seq):
                                if isinstance(st, ast.Expr) and st.value is n and i > 0:
                                    prev = seq[i - 1]
                                    if isinstance(prev, ast.Assign) and norm(prev.targets[0]) == lst and isinstance(prev.value, ast.List) and not prev.value.elts:
                                        pos = "first"
                writers.append((f, n, lst, pos))
    r.instances += len(writers)
    for f, n, lst, pos in writers:
        r.ob(True, {"writer": f.key, "statement": norm(n), "position": pos})
    if not writers:
        res.unclass("no writer of the `comma` marker found in the parser")
        return
    everywhere = any(pos == "anywhere" for *_x, pos in writers)
    for f in prog.all_functions():
        for n in walk_no_nested(f.node):
            positional = None
            if isinstance(n, ast.Compare) and len(n.ops) == 1 and isinstance(n.ops[0], (ast.Is, ast.Eq, ast.IsNot, ast.NotEq)):
                l, rgt = n.left, n.comparators[0]
                for a, b in ((l, rgt), (rgt, l)):
                    if isinstance(b, ast.Name) and b.id == "comma" and isinstance(a, ast.Subscript) and not isinstance(a.slice, ast.Slice):
                        positional = a
            member = isinstance(n, ast.Compare) and len(n.ops) == 1 and isinstance(n.ops[0], (ast.In, ast.NotIn)) \
                and isinstance(n.left, ast.Name) and n.left.id == "comma"
            if positional is None and not member:
                continue
            r.instances += 1
            ok = member or not everywhere
            r.ob(ok, {"reader": f.key, "test": norm(n)[:60], "kind": "membership" if member else "positional"})
            if not ok:
                res.add(rid, (f.key, "comma marker tested at a fixed position", alpha(positional, (f.parent or f).node, anonymous=True)), f.loc(n),
                        f"{f.key}: `{norm(n)[:70]}` looks for the leading-comma marker at a fixed index, but "
                        f"{sorted({w[0].key for w in writers if w[3] == 'anywhere'})} append it after an empty_line marker or own-line "
                        f"comments: for `{{ a\\n\\n, b }}:` the previous formal gets its own comma as well and the output has two commas")


# ------------------------------------------------------------------------------------------------ R-C01-9
REWRITERS = {"sub", "subn", "replace", "translate", "expandtabs", "casefold", "lower", "upper", "title", "swapcase", "capitalize", "zfill",
             "center", "ljust", "rjust", "encode"}


def no_text_rewriting(prog: Program, res: Results, rid: str, functions) -> None:
    from sa.deadrender import render_names
    r = res.rule(rid, "rendered text is assembled, never rewritten: in the renderer closure (and NixSourceCode.rebuild) no regex "
                 "substitution, str.replace/translate or case/width transformation is applied to a string that holds rendered "
                 "expressions (string literals, indented strings and comments are inside it verbatim); only end trimming "
                 "(strip/lstrip/rstrip, split at the first newline) occurs", floor=30)
    for f in functions:
        names = render_names(f)
        # generator/join results of rebuild() calls
        for n in ast.walk(f.node):
            if isinstance(n, ast.Assign) and isinstance(n.targets[0], ast.Name) and any(
                    isinstance(c, ast.Call) and isinstance(c.func, ast.Attribute) and c.func.attr == "rebuild" for c in ast.walk(n.value)):
                names.add(n.targets[0].id)
        r.instances += 1
        bad = []
        for c in walk_no_nested(f.node):
            if not (isinstance(c, ast.Call) and isinstance(c.func, ast.Attribute) and c.func.attr in REWRITERS):
                continue
            recv_is_text = isinstance(c.func.value, ast.Name) and c.func.value.id in names
            arg_is_text = any(isinstance(a, ast.Name) and a.id in names for a in c.args) and c.func.attr in ("sub", "subn")
            direct = any(isinstance(x, ast.Call) and isinstance(x.func, ast.Attribute) and x.func.attr == "rebuild"
                         for a in ([c.func.value] + list(c.args)) for x in ast.walk(a))
            if recv_is_text or arg_is_text or direct:
                bad.append(c)
        r.ob(not bad, None if not bad else {"site": f.key, "rewrites": [norm(c)[:60] for c in bad]})
        for c in bad:
            res.add(rid, (f.key, "rendered text rewritten", c.func.attr), f.loc(c),
                    f"{f.key}: `{norm(c)[:80]}` rewrites text that already contains rendered expressions: the pattern also matches "
                    f"inside string literals, indented strings and comments, whose contents (tokens) change in a round trip")


# ------------------------------------------------------------------------------------------------ greedy strip of token text
def no_greedy_strip(prog: Program, res: Results, rid: str) -> None:
    r = res.rule(rid, "delimiters are cut off token text by position (one at each end), never by a greedy strip: no from_cst "
                 "closure applies strip/lstrip/rstrip with non-whitespace characters to source text (a string ending in an escaped "
                 "quote `\\\"` would lose the quote of its escape as well)", floor=20)
    cg = CallGraph(prog)
    roots = [f.key for f in prog.all_functions() if f.name == "from_cst" and f.cls]
    closure = cg.reachable(roots)
    for k in sorted(closure):
        f = prog.funcs[k]
        if f.module.startswith(("nix_manipulator/cli/", "nix_manipulator/resolution.py")) or f.name in ("rebuild", "__str__", "__repr__") \
                or k.startswith("_resolve_identifier"):
            continue
        r.instances += 1
        bad = []
        for c in walk_no_nested(f.node):
            if isinstance(c, ast.Call) and isinstance(c.func, ast.Attribute) and c.func.attr in ("strip", "lstrip", "rstrip") and c.args \
                    and isinstance(c.args[0], ast.Constant) and isinstance(c.args[0].value, (str, bytes)):
                chars = c.args[0].value
                chars = chars.decode("latin1") if isinstance(chars, bytes) else chars
                if chars.strip(" \t\r\n") != "":
                    bad.append(c)
        r.ob(not bad, None if not bad else {"site": k, "strips": [norm(c)[:50] for c in bad]})
        for c in bad:
            res.add(rid, (k, "greedy strip of token text", norm(c.args[0])), f.loc(c),
                    f"{k}: `{norm(c)[:70]}` removes every leading/trailing `{norm(c.args[0])}` character, not one delimiter: the body of "
                    f"`\"echo \\\\\"hi\\\\\"\"` loses the quote of its final escape, and the rebuilt literal no longer parses")


# ------------------------------------------------------------------------------------------------ R-C01-12
SCOPELESS_CLASSES = {"Comment", "MultilineComment", "LetExpression", "NixSourceCode", "RawExpression"}
RENDER_ENTRIES = ("rebuild", "simple_inline_preview", "_inline_preview")


def scoped_nodes_render_their_let(prog: Program, res: Results, rid: str) -> None:
    from sa.cfg import CFG, edges_establishing
    r = res.rule(rid, "a node that carries lifted let layers (`scope`) is always rendered through rebuild_scoped: every rendering "
                 "entry of an expression class (rebuild, and the preview methods other renderers use verbatim) returns text only "
                 "on paths where `self.has_scope()` is false — or is private to such a path of its own class", floor=20)
    for c in renderer_classes(prog):
        if c in SCOPELESS_CLASSES:
            continue
        for entry in RENDER_ENTRIES:
            f = prog.own_method(c, entry)
            if f is None:
                continue
            r.instances += 1
            cfg = CFG(f.node)
            e = edges_establishing(cfg, lambda a, t: (norm(a) == "self.has_scope()" and t is False) or (norm(a) == "not self.has_scope()" and t is True))
            rets = [n for n in cfg.nodes if n.kind == "return" and not (n.ast.value is None or (isinstance(n.ast.value, ast.Constant) and n.ast.value.value is None))]
            un = [n for n in rets if not (e and cfg.all_paths_pass(n, cut_edges=e)) and "rebuild_scoped" not in norm(n.ast)]
            ok = not un
            if un and entry != "rebuild":
                # a private helper: every caller inside the package calls it on `self` from a path that already excluded a scope
                callers = []
                for g in prog.all_functions():
                    for call in walk_no_nested(g.node):
                        if isinstance(call, ast.Call) and isinstance(call.func, ast.Attribute) and call.func.attr == entry:
                            callers.append((g, call))
                def guarded(g, call):
                    if not (isinstance(call.func.value, ast.Name) and call.func.value.id == "self"):
                        return False
                    gc = CFG(g.node)
                    ge = edges_establishing(gc, lambda a, t: norm(a) == "self.has_scope()" and t is False)
                    node = gc.containing(call)
                    if ge and node is not None and gc.all_paths_pass(node, cut_edges=ge):
                        return True
                    # or the caller is itself a private entry that is only reached that way
                    return g.cls == c and g.name in RENDER_ENTRIES and g.name != "rebuild" and g.name != entry and False
                ok = bool(callers) and all(guarded(g, call) for g, call in callers)
            r.ob(ok, {"class": c, "entry": entry, "returns": len(rets)})
            if not ok:
                res.add(rid, (c, entry, "text returned for a node that carries let layers"), f.loc(un[0].ast),
                        f"{c}.{entry}: `{norm(un[0].ast)[:60]}` can be returned while `self.has_scope()` is true (and a caller outside the "
                        f"class uses the result verbatim): the lifted `let … in` is not rendered — `{{ a = let x = 1; in [ x ]; }}` "
                        f"rebuilds as `{{ a = [ x ]; }}`")


# ------------------------------------------------------------------------------------------------ R-C01-13
# named-children-only CST containers: every child is content (no punctuation inside), so a child kind that no arm handles and
# nothing rejects is silently dropped.  kind of container -> child kinds tree-sitter-nix can put there (comments are extras)
NAMED_ONLY_CONTAINERS = {"inherited_attrs": {"identifier", "string_expression", "interpolation"}}


def container_children_all_handled(prog: Program, res: Results, rid: str) -> None:
    from sa.dtable import outcome
    r = res.rule(rid, "no child of a names-only CST container is skipped silently: a from_cst loop over the children of such a "
                 "container (inherited_attrs) does something — convert or raise — for every child kind the grammar allows there",
                 floor=1)
    for f in prog.all_functions():
        if not (f.name == "from_cst" or (f.parent is not None and f.parent.name == "from_cst")):
            continue
        for loop in [l for l in walk_no_nested(f.node) if isinstance(l, ast.For) and isinstance(l.iter, ast.Attribute) and l.iter.attr == "children"
                     and isinstance(l.iter.value, ast.Name) and isinstance(l.target, ast.Name)]:
            l_kind = None
            from sa.util import parent_map as _pmf
            pmf = _pmf(f.node)
            for d in ast.walk(f.node):
                if isinstance(d, (ast.Assign, ast.AnnAssign)) and norm(d.targets[0] if isinstance(d, ast.Assign) else d.target) == loop.iter.value.id \
                        and getattr(d, "value", None) is not None:
                    srcs = [d.value]
                    cur = d
                    while cur in pmf:
                        cur = pmf[cur]
                        if isinstance(cur, ast.If):
                            srcs.append(cur.test)
                        elif isinstance(cur, ast.match_case):
                            srcs.append(cur.pattern)  # `case "inherited_attrs": container = child`
                    for s_ in srcs:
                        for x in ast.walk(s_):
                            if isinstance(x, ast.Constant) and x.value in NAMED_ONLY_CONTAINERS:
                                l_kind = x.value
            if l_kind is None:
                continue
            lv = loop.target.id
            for kind in sorted(NAMED_ONLY_CONTAINERS[l_kind]):
                r.instances += 1
                o = outcome(loop.body, {f"{lv}.type": kind})
                acts = {a_ for a_ in o.may if a_ not in ("continue", "break")}
                ok = bool(acts)
                r.ob(ok, {"site": f.key, "container": l_kind, "child_kind": kind, "handled": ok})
                if not ok:
                    res.add(rid, (f.key, "child kind silently skipped", l_kind, kind), f.loc(loop),
                            f"{f.key}: a `{kind}` child of `{l_kind}` matches no arm of the loop and nothing rejects it: "
                            f"`{{ inherit a ${{\"b\"}} \"c\"; }}` is rebuilt as `{{ inherit a \"c\"; }}` — the name is dropped without an error")


# ------------------------------------------------------------------------------------------------ R-C01-14 / R-C01-15
def byte_offsets_index_bytes(prog: Program, res: Results, rid: str) -> None:
    r = res.rule(rid, "byte offsets index bytes: a slice whose bounds are tree-sitter byte offsets (`…_byte`) is applied to a bytes "
                 "object, never to decoded text — after the first multi-byte character every window would be shifted", floor=1)
    str_vars = set()
    for mod, assigns in prog.module_assigns.items():
        tree = prog.modules[mod]
        for st in tree.body:
            if isinstance(st, ast.AnnAssign) and isinstance(st.target, ast.Name) and "ContextVar[str" in norm(st.annotation):
                str_vars.add(st.target.id)
    for f in prog.all_functions():
        if not f.module.startswith("nix_manipulator/expressions/"):
            continue
        for n in walk_no_nested(f.node):
            if not (isinstance(n, ast.Subscript) and isinstance(n.slice, ast.Slice)):
                continue
            bounds = [b for b in (n.slice.lower, n.slice.upper) if b is not None]
            if not bounds:
                continue
            by_offsets = all("byte" in norm(b) for b in bounds)
            if not by_offsets and "bytes" not in norm(n.value):
                continue
            r.instances += 1
            if not by_offsets:
                r.ob(True, {"site": f.key, "slice": norm(n)[:50], "sliced": "bytes"})
                continue
            v = n.value
            is_str = False
            why = ""
            if isinstance(v, ast.Name):
                for d in ast.walk(f.node):
                    if isinstance(d, ast.Assign) and norm(d.targets[0]) == v.id:
                        dv = d.value
                        if isinstance(dv, ast.Call) and isinstance(dv.func, ast.Attribute) and dv.func.attr == "decode":
                            is_str, why = True, norm(d)[:50]
                        if isinstance(dv, ast.Call) and isinstance(dv.func, ast.Attribute) and dv.func.attr == "get" and norm(dv.func.value) in str_vars:
                            is_str, why = True, norm(d)[:50]
                for a_ in f.node.args.args + f.node.args.kwonlyargs:
                    if a_.arg == v.id and a_.annotation is not None and norm(a_.annotation).startswith("str"):
                        is_str, why = True, f"parameter {a_.arg}: str"
            elif isinstance(v, ast.Call) and isinstance(v.func, ast.Attribute) and v.func.attr == "decode":
                is_str, why = True, norm(v)[:40]
            r.ob(not is_str, {"site": f.key, "slice": norm(n)[:50]})
            if is_str:
                res.add(rid, (f.key, "decoded text sliced by byte offsets"), f.loc(n),
                        f"{f.key}: `{norm(n)[:60]}` slices text ({why}) with byte offsets: in a file that contains a non-ASCII character "
                        f"every gap read after it is shifted, so newline/comment decisions are taken on the wrong characters")


def parallel_lists_stay_aligned(prog: Program, res: Results, rid: str) -> None:
    r = res.rule(rid, "lists the renderer walks in parallel are extended in parallel: for `zip(self.gaps, self.items[1:])` the parser "
                 "appends a gap for every item after the first, under that single condition — zip stops at the shorter list, so a "
                 "gap skipped for any other reason silently drops the last item", floor=1)
    for f in prog.all_functions():
        owner = f
        while owner.parent is not None:
            owner = owner.parent
        if not owner.cls:
            continue
        for c in walk_no_nested(f.node):
            if not (isinstance(c, ast.Call) and isinstance(c.func, ast.Name) and c.func.id == "zip" and len(c.args) == 2):
                continue
            a, b = c.args
            if not (isinstance(a, ast.Attribute) and norm(a.value) == "self" and isinstance(b, ast.Subscript) and isinstance(b.value, ast.Attribute)
                    and norm(b.value.value) == "self" and isinstance(b.slice, ast.Slice) and norm(b.slice.lower) == "1"):
                continue
            gaps_f, items_f = a.attr, b.value.attr
            fc = prog.method(owner.cls, "from_cst")
            if fc is None:
                continue
            locals_ = {}
            for call in ast.walk(fc.node):
                if isinstance(call, ast.Call) and callee(call) in ("cls", owner.cls):
                    for k in call.keywords:
                        if k.arg in (gaps_f, items_f) and isinstance(k.value, ast.Name):
                            locals_[k.arg] = k.value.id
            if len(locals_) != 2:
                continue
            from sa.util import parent_map
            pm = parent_map(fc.node)
            for ap in [x for x in ast.walk(fc.node) if isinstance(x, ast.Call) and isinstance(x.func, ast.Attribute) and x.func.attr == "append"
                       and norm(x.func.value) == locals_[gaps_f]]:
                r.instances += 1
                cur, guards = ap, []
                while cur in pm and not isinstance(pm[cur], (ast.For, ast.While, ast.FunctionDef)):
                    par = pm[cur]
                    if isinstance(par, ast.If) and any(cur is y or any(cur is z for z in ast.walk(y)) for y in par.body) and not any(
                            isinstance(x, ast.Call) and isinstance(x.func, ast.Attribute) and x.func.attr == "append" and norm(x.func.value) == locals_[items_f]
                            for y in par.body for x in ast.walk(y)):
                        guards.append(par.test)
                    cur = par
                single = len(guards) == 1 and not isinstance(guards[0], ast.BoolOp)
                r.ob(single, {"site": fc.key, "append": norm(ap)[:60], "guards": [norm(g)[:50] for g in guards]})
                if not single:
                    res.add(rid, (fc.key, "gap list extended under an extra condition", gaps_f), fc.loc(ap),
                            f"{fc.key}: `{norm(ap)[:60]}` runs under {[norm(g)[:60] for g in guards]}: whenever that extra condition fails, "
                            f"`{gaps_f}` gets shorter than `{items_f}[1:]` and `zip` in {f.key} drops the last {items_f[:-1]} — "
                            f"`inherit pkgs /* x */ stdenv;` loses `stdenv`")
