"""C17 — imports resolve relative to the importing file (a four-link dataflow chain, one rule per link)."""
from __future__ import annotations

import ast

from sa.callgraph import CallGraph
from sa.cfg import CFG, edges_establishing
from sa.model import AnalysisError, Program, norm, walk_no_nested
from sa.report import Results
from sa.util import assignments_to, callee, dotted, exc_name, handler_names, strip_not

CHAIN_MODULES = {"nix_manipulator/parser.py", "nix_manipulator/expressions/path.py",
                 "nix_manipulator/expressions/import_expression.py"}
# APIs that make the result depend on the process (cwd, home, environment) or hide a missing file
AMBIENT_APIS = {"getcwd", "cwd", "chdir", "resolve", "absolute", "expanduser", "expandvars", "abspath", "realpath",
                "environ", "getenv", "home"}
FALLBACK_APIS = {"exists", "is_file", "is_dir", "lexists"}
OSERROR_FAMILY = {"OSError", "IOError", "FileNotFoundError", "PermissionError", "IsADirectoryError", "NotADirectoryError",
                  "EnvironmentError", "Exception", "BaseException"}


def _single_def(fn: ast.AST, name: str):
    ds = assignments_to(fn, name)
    return ds


def run(prog: Program) -> Results:
    res = Results("C17")
    cg = CallGraph(prog)
    pf = prog.func("parse_file")
    # the step that follows the import: `_follow_import`, or whichever Import method calls parse_file when it was folded away
    fi = prog.funcs.get("Import._follow_import")
    if fi is None:
        cands = [m for m in prog.classes["Import"].methods.values()
                 if any(isinstance(c, ast.Call) and callee(c) == "parse_file" for c in walk_no_nested(m.node))] if "Import" in prog.classes else []
        if len(cands) != 1:
            raise AnalysisError("anchor function vanished: Import._follow_import (and no single Import method calls parse_file)")
        fi = cands[0]
    gi = prog.func("Import.__getitem__")
    # the argument unwrapper is a private step of _follow_import: under another name (or inlined) its obligations are asked
    # of whatever Import methods _follow_import reaches
    ra = prog.funcs.get("Import._resolve_argument")
    if ra is None:
        inner = [prog.funcs[k] for k in sorted(cg.reachable([fi.key], stop={"parse_file", "parse"}))
                 if prog.funcs[k].cls == "Import" and k != fi.key]
        ra = inner[0] if len(inner) == 1 else fi
    rp = prog.func("NixPath.resolved_path")
    fc = prog.func("NixPath.from_cst")
    spc = prog.func("source_path_context")
    chain = list({f.key: f for f in [pf, fi, gi, ra, rp, fc, spc]}.values())
    res.analysed_functions |= {f.key for f in chain}

    # ------------------------------------------------------------- R-C17-1 parse_file
    r1 = res.rule("R-C17-1", "parse_file: parse() runs inside source_path_context(p) where p is the path that was read, "
                  "unconditionally", floor=3)
    fn = pf.node
    params = pf.params()
    if len(params) < 1:
        raise AnalysisError("parse_file lost its path parameter")
    pname = params[0]
    reads = [c for c in walk_no_nested(fn) if isinstance(c, ast.Call) and isinstance(c.func, ast.Attribute)
             and c.func.attr in ("read_text", "read_bytes", "open", "read")]
    withs = [w for w in walk_no_nested(fn) if isinstance(w, ast.With)
             and any(isinstance(i.context_expr, ast.Call) and callee(i.context_expr) == "source_path_context" for i in w.items)]
    parses = [c for c in walk_no_nested(fn) if isinstance(c, ast.Call) and isinstance(c.func, ast.Name) and c.func.id == "parse"]
    r1.instances += len(reads) + len(withs) + len(parses)
    if len(reads) != 1 or len(parses) != 1:
        raise AnalysisError("parse_file: expected exactly one file read and one parse() call")

    def path_origin(e: ast.AST, depth=0) -> bool:
        """e is the parameter or Path(parameter) (through rebinding of the same name)."""
        if depth > 4:
            return False
        if isinstance(e, ast.Name):
            if e.id == pname:
                ds = assignments_to(fn, pname)
                return all(isinstance(d, ast.Assign) and _is_path_of(d.value, pname) for d in ds)
            ds = assignments_to(fn, e.id)
            return bool(ds) and all(isinstance(d, (ast.Assign, ast.AnnAssign)) and path_origin(d.value, depth + 1) for d in ds)
        return _is_path_of(e, pname)

    def _is_path_of(e, name):
        return (isinstance(e, ast.Call) and callee(e) == "Path" and len(e.args) == 1 and not e.keywords
                and isinstance(e.args[0], ast.Name) and e.args[0].id == name) or (isinstance(e, ast.Name) and e.id == name)

    read = reads[0]
    read_recv = read.func.value
    ok = path_origin(read_recv)
    r1.ob(ok, {"read": norm(read)})
    if not ok:
        res.add("R-C17-1", ("parse_file", "read target"), pf.loc(read),
                f"the file read `{norm(read)}` is not the path parameter (or Path(parameter))")
    if len(withs) != 1:
        res.add("R-C17-1", ("parse_file", "context missing"), pf.loc(),
                "parse_file does not establish source_path_context(...) exactly once")
    else:
        w = withs[0]
        ctx_call = next(i.context_expr for i in w.items if isinstance(i.context_expr, ast.Call)
                        and callee(i.context_expr) == "source_path_context")
        arg = ctx_call.args[0] if ctx_call.args else (ctx_call.keywords[0].value if ctx_call.keywords else None)
        same = arg is not None and path_origin(arg) and norm(arg) == norm(read_recv)
        r1.ob(same, {"context_arg": norm(arg) if arg is not None else None, "read_receiver": norm(read_recv)})
        if not same:
            res.add("R-C17-1", ("parse_file", "context path differs from read path"), pf.loc(ctx_call),
                    f"source_path_context({norm(arg) if arg is not None else ''}) is not the path that was read ({norm(read_recv)})")
        inside = any(n is parses[0] for n in ast.walk(ast.Module(body=w.body, type_ignores=[])))
        r1.ob(inside, {"parse_inside_with": inside})
        if not inside:
            res.add("R-C17-1", ("parse_file", "parse outside context"), pf.loc(parses[0]),
                    "parse() is called outside the `with source_path_context(...)` block")
        cfg = CFG(fn)
        wn = cfg.node_of(w)
        uncond = wn is not None and cfg.postdominated_by(cfg.entry, [wn])
        r1.ob(uncond, {"with_unconditional": uncond})
        if not uncond:
            res.add("R-C17-1", ("parse_file", "context conditional"), pf.loc(w),
                    "the source_path_context block is not on every path of parse_file (an 'already set' test would "
                    "keep the importing file's base for the imported file)")
    # the parsed text is what was read
    parg = parses[0].args[0] if parses[0].args else None
    okp = isinstance(parg, ast.Name) and all(isinstance(d, ast.Assign) and d.value is read for d in assignments_to(fn, parg.id)) \
        or parg is read
    r1.ob(bool(okp), {"parse_arg": norm(parg) if parg is not None else None})
    if not okp:
        res.add("R-C17-1", ("parse_file", "parsed text"), pf.loc(parses[0]),
                "the text handed to parse() is not exactly what was read from the path")
    # context manager resets its own token in finally
    setcalls = [c for c in ast.walk(spc.node) if isinstance(c, ast.Call) and dotted(c.func) == "_SOURCE_PATH.set"]
    okc = len(setcalls) == 1 and setcalls[0].args and isinstance(setcalls[0].args[0], ast.Name) \
        and setcalls[0].args[0].id == spc.params()[0] and not assignments_to(spc.node, spc.params()[0])
    r1.ob(bool(okc), {"source_path_context.set": norm(setcalls[0]) if setcalls else None})
    if not okc:
        res.add("R-C17-1", ("source_path_context", "set argument"), spc.loc(),
                "source_path_context does not install exactly its argument into _SOURCE_PATH")

    # ------------------------------------------------------------- R-C17-2 capture at parse time
    r2 = res.rule("R-C17-2", "NixPath.from_cst captures _SOURCE_PATH.get() into the node; nobody else writes NixPath.source_path",
                  floor=2)
    ctor = [c for c in ast.walk(fc.node) if isinstance(c, ast.Call) and isinstance(c.func, ast.Name) and c.func.id == "cls"]
    r2.instances += len(ctor)
    if not ctor:
        raise AnalysisError("NixPath.from_cst: constructor call cls(...) not found")
    for c in ctor:
        sp = next((k.value for k in c.keywords if k.arg == "source_path"), None)

        def is_ctx_get(e, depth=0):
            if isinstance(e, ast.Call) and dotted(e.func) == "_SOURCE_PATH.get" and not e.args:
                return True
            if isinstance(e, ast.Name) and depth < 3:
                ds = assignments_to(fc.node, e.id)
                return bool(ds) and all(isinstance(d, (ast.Assign, ast.AnnAssign)) and is_ctx_get(d.value, depth + 1) for d in ds)
            return False

        ok = sp is not None and is_ctx_get(sp)
        r2.ob(ok, {"constructor_kw": norm(sp) if sp is not None else None})
        if not ok:
            res.add("R-C17-2", ("NixPath.from_cst", "source_path not captured"), fc.loc(c),
                    f"NixPath.from_cst does not store _SOURCE_PATH.get() in source_path (got `{norm(sp) if sp is not None else 'nothing'}`)")
    stores = []
    for f in prog.all_functions():
        types = cg.local_types(f)
        for n in walk_no_nested(f.node):
            if isinstance(n, ast.Attribute) and isinstance(n.ctx, ast.Store) and n.attr == "source_path":
                recv_cls = None
                if isinstance(n.value, ast.Name):
                    recv_cls = f.cls if n.value.id == "self" else types.get(n.value.id)
                stores.append((f, n, recv_cls))
    r2.instances += len(stores)
    for f, n, c in stores:
        ok = c == "NixSourceCode"
        r2.ob(ok, {"store": f"{f.key}: {norm(n)}", "receiver": c})
        if not ok:
            res.add("R-C17-2", (f.key, "writes source_path", norm(n)), f.loc(n),
                    f"{f.key} writes `.source_path` on a receiver that is not provably the document object "
                    f"(NixPath.source_path must only be captured at parse time)")

    # ------------------------------------------------------------- R-C17-3 resolved_path
    r3 = res.rule("R-C17-3", "resolved_path: angle-bracket test raises ValueError first; every non-absolute literal is joined "
                  "to self.source_path.parent; nothing else decides the base", floor=2)
    fn = rp.node
    cfg = CFG(fn)
    angle_raises = []
    for n in cfg.nodes:
        if n.kind == "raise" and exc_name(n.ast.exc) == "ValueError":
            angle_raises.append(n)
    angle_tests = [n for n in cfg.nodes if n.kind == "test" and "startswith('<')" in norm(n.ast)]
    r3.instances += len(angle_tests)
    if not angle_tests:
        res.add("R-C17-3", ("NixPath.resolved_path", "angle-bracket guard missing"), rp.loc(),
                "resolved_path has no `startswith('<')` test raising ValueError")
    else:
        t = angle_tests[0]
        body_raises = any(rn in cfg.reachable(t, removed_edges=[(t, False)]) for rn in angle_raises) and \
            cfg.exit not in cfg.reachable(t, removed_edges=[(t, False)], follow_exc=False)
        r3.ob(body_raises, {"guard": norm(t.ast), "raises": "ValueError"})
        if not body_raises:
            res.add("R-C17-3", ("NixPath.resolved_path", "angle-bracket guard does not raise ValueError"), rp.loc(t.ast),
                    "the angle-bracket arm of resolved_path can reach a normal return")
        for rt in [n for n in cfg.nodes if n.kind == "return"]:
            ok = cfg.all_paths_pass(rt, cut_edges=[(t, False)])
            r3.ob(ok, {"return": norm(rt.ast), "dominated_by": "angle guard false edge"})
            if not ok:
                res.add("R-C17-3", ("NixPath.resolved_path", "return before angle-bracket guard"), rp.loc(rt.ast),
                        "a return of resolved_path is reachable without passing the angle-bracket test")
    joins = [n for n in walk_no_nested(fn) if isinstance(n, ast.BinOp) and isinstance(n.op, ast.Div)]
    joins += [n for n in walk_no_nested(fn) if isinstance(n, ast.Call) and callee(n) == "joinpath"]
    r3.instances += len(joins)
    if len(joins) != 1:
        res.add("R-C17-3", ("NixPath.resolved_path", "join count"), rp.loc(),
                f"resolved_path contains {len(joins)} path joins (expected exactly one: source_path.parent / literal)")
    else:
        j = joins[0]
        left = j.left if isinstance(j, ast.BinOp) else j.func.value
        right = j.right if isinstance(j, ast.BinOp) else (j.args[0] if j.args else None)
        from sa.util import Aliases as _Al17
        okl = dotted(_Al17(fn).expand(left)) == "self.source_path.parent"  # `importing_dir = self.source_path.parent` is looked through
        r3.ob(okl, {"join_base": norm(left)})
        if not okl:
            res.add("R-C17-3", ("NixPath.resolved_path", "join base"), rp.loc(j),
                    f"the base of the join is `{norm(left)}`, not the importing file's directory self.source_path.parent")

        def literal_path(e, depth=0):
            if isinstance(e, ast.Call) and callee(e) == "Path" and len(e.args) == 1 and dotted(e.args[0]) == "self.path":
                return True
            if dotted(e) == "self.path":
                return True
            if isinstance(e, ast.Name) and depth < 3:
                ds = [d for d in assignments_to(fn, e.id) if not (isinstance(d, ast.Assign) and d.value is j)]
                return bool(ds) and all(isinstance(d, (ast.Assign, ast.AnnAssign)) and literal_path(d.value, depth + 1) for d in ds)
            return False

        okr = right is not None and literal_path(right)
        r3.ob(okr, {"join_operand": norm(right) if right is not None else None})
        if not okr:
            res.add("R-C17-3", ("NixPath.resolved_path", "join operand"), rp.loc(j),
                    f"the joined operand `{norm(right) if right is not None else ''}` is not the unmodified path literal")
        # Stated on paths, not on the shape of the guard: a return is reached either through the join, or on an edge that
        # establishes "the literal is absolute" or "there is no importing file" — nothing else may let the bare literal out
        from sa.cfg import edges_establishing_any
        jn = cfg.containing(j)

        def abs_true(a, t):
            return isinstance(a, ast.Call) and callee(a) == "is_absolute" and not a.args and t is True

        def no_source(a, t):
            return (norm(a) == "self.source_path is None" and t is True) or (dotted(a) == "self.source_path" and t is False)

        def has_source(a, t):
            return (norm(a) == "self.source_path is not None" and t is True) or (dotted(a) == "self.source_path" and t is True)

        e_plain = edges_establishing_any(cfg, [abs_true, no_source])
        e_src = edges_establishing(cfg, has_source)
        okj = bool(e_src) and cfg.all_paths_pass(jn, cut_edges=e_src)
        r3.ob(okj, {"join": norm(j), "dominated_by": "self.source_path is not None"})
        if not okj:
            res.add("R-C17-3", ("NixPath.resolved_path", "join without an importing file"), rp.loc(j),
                    "the join is reachable when self.source_path is None: `.parent` of None raises AttributeError instead of resolving")
        for rt in [n for n in cfg.nodes if n.kind == "return"]:
            v = rt.ast.value
            joined = v is j or (isinstance(v, ast.Name) and any(isinstance(d, ast.Assign) and d.value is j for d in assignments_to(fn, v.id)))
            plain = v is not None and literal_path(v)
            okv = joined or plain
            r3.ob(okv, {"return": norm(rt.ast)})
            if not okv:
                res.add("R-C17-3", ("NixPath.resolved_path", "return value", norm(rt.ast)), rp.loc(rt.ast),
                        f"`{norm(rt.ast)}` returns neither the join nor the path literal")
                continue
            ok = cfg.all_paths_pass(rt, cut_edges=e_plain, cut_nodes=[jn])
            r3.ob(ok, {"return": norm(rt.ast), "reached_only": "through the join, or when the literal is absolute / no importing file"})
            if not ok:
                res.add("R-C17-3", ("NixPath.resolved_path", "extra join condition", norm(rt.ast)), rp.loc(rt.ast),
                        f"`{norm(rt.ast)}` can be reached without the join although the literal is relative and an importing file is "
                        f"known (the join is additionally conditioned): some relative literals would resolve against the working directory")

    # ------------------------------------------------------------- R-C17-4 _follow_import / __getitem__
    r4 = res.rule("R-C17-4", "_follow_import: non-path argument raises TypeError before anything else; parse_file receives "
                  "argument.resolved_path(); no OSError handler, no exists() fallback, no memoisation on the chain", floor=4)
    fn = fi.node
    cfg = CFG(fn)
    pcalls = [c for c in walk_no_nested(fn) if isinstance(c, ast.Call) and callee(c) == "parse_file"]
    r4.instances += len(pcalls)
    if len(pcalls) == 0 and "parse_file" in cg.reachable([fi.key]):
        res.unclass("Import._follow_import reaches parse_file only through a helper: argument/guard shape not classifiable")
    elif len(pcalls) != 1:
        res.add("R-C17-4", ("Import._follow_import", "parse_file call count"), fi.loc(),
                f"_follow_import calls parse_file {len(pcalls)} times (expected once: each hop must establish its own base)")
    else:
        pc = pcalls[0]
        arg = pc.args[0] if pc.args else None
        ok = isinstance(arg, ast.Call) and isinstance(arg.func, ast.Attribute) and arg.func.attr == "resolved_path" \
            and not arg.args and isinstance(arg.func.value, ast.Name)
        r4.ob(ok, {"parse_file_arg": norm(arg) if arg is not None else None})
        if not ok:
            res.add("R-C17-4", ("Import._follow_import", "parse_file argument"), fi.loc(pc),
                    f"parse_file receives `{norm(arg) if arg is not None else ''}`, not <argument>.resolved_path()")
        else:
            from sa.util import Aliases
            al = Aliases(fn)
            var = al.norm(arg.func.value)  # the argument under its first name (`target = unwrapped` copies are looked through)
            # isinstance(var, NixPath) false edge -> raise TypeError must cut every path to the call
            tests = []
            for t in cfg.nodes:
                if t.kind != "test":
                    continue
                inner, neg = strip_not(t.ast)
                if isinstance(inner, ast.Call) and callee(inner) == "isinstance" and len(inner.args) == 2 \
                        and isinstance(inner.args[0], ast.Name) and al.norm(inner.args[0]) == var and norm(inner.args[1]) == "NixPath":
                    tests.append((t, not neg))  # edge label on which var IS a NixPath
            pn = cfg.containing(pc)
            ok = bool(tests) and cfg.all_paths_pass(pn, cut_edges=[(t, lab) for t, lab in tests])
            r4.ob(ok, {"guard": "isinstance(argument, NixPath)", "dominates": "parse_file"})
            if not ok:
                res.add("R-C17-4", ("Import._follow_import", "type guard"), fi.loc(pc),
                        "parse_file is reachable without establishing isinstance(argument, NixPath)")
            for t, lab in tests:
                bad_edge = not lab
                reach = cfg.reachable(t, removed_edges=[(t, lab)], follow_exc=False)
                raises_te = any(n.kind == "raise" and exc_name(n.ast.exc) == "TypeError" for n in reach)
                falls = cfg.exit in reach
                r4.ob(raises_te and not falls, {"non_path_arm": "raise TypeError"})
                if not raises_te or falls:
                    res.add("R-C17-4", ("Import._follow_import", "non-path arm"), fi.loc(t.ast),
                            "the non-NixPath arm of _follow_import does not end in `raise TypeError`")
    # _resolve_argument: None -> TypeError
    r4.instances += 1
    rr = [n for n in ast.walk(ra.node) if isinstance(n, ast.Raise)]
    racfg = CFG(ra.node)
    none_edges = edges_establishing(racfg, lambda a, t: norm(a) == "self.argument is None" and t is True)
    guarded = [n for n in racfg.nodes if n.kind == "raise" and exc_name(n.ast.exc) == "TypeError" and none_edges
               and racfg.all_paths_pass(n, cut_edges=none_edges)]
    ok = bool(rr) and all(exc_name(n.exc) == "TypeError" for n in rr) and (bool(guarded) or ra.key == "Import._resolve_argument")
    r4.ob(ok, {"_resolve_argument": [norm(n) for n in rr]})
    if not ok:
        res.add("R-C17-4", ("Import._resolve_argument", "missing argument"), ra.loc(),
                "_resolve_argument does not raise TypeError for a missing argument")
    # __getitem__ delegates to the imported document
    r4.instances += 1
    rets = [n for n in ast.walk(gi.node) if isinstance(n, ast.Return)]
    ok = len(rets) == 1 and isinstance(rets[0].value, ast.Subscript) and (
        (isinstance(rets[0].value.value, ast.Call) and dotted(rets[0].value.value.func) == "self._follow_import") or
        (fi is gi and isinstance(rets[0].value.value, ast.Call) and callee(rets[0].value.value) == "parse_file") or
        (isinstance(rets[0].value.value, ast.Name) and all(
            isinstance(d, ast.Assign) and isinstance(d.value, ast.Call) and dotted(d.value.func) == "self._follow_import"
            for d in assignments_to(gi.node, rets[0].value.value.id)) and bool(assignments_to(gi.node, rets[0].value.value.id))))
    r4.ob(ok, {"__getitem__": norm(rets[0]) if rets else None})
    if not ok:
        res.add("R-C17-4", ("Import.__getitem__", "delegation"), gi.loc(),
                "Import.__getitem__ does not return self._follow_import()[key]")
    # closure-wide bans (chain functions and what they reach inside the three anchored modules)
    roots = [f.key for f in chain]
    reach = {k for k in cg.reachable(roots) if prog.funcs[k].module in CHAIN_MODULES}
    res.analysed_functions |= reach
    for k in sorted(reach):
        f = prog.funcs[k]
        r4.instances += 1
        for d in f.node.decorator_list:
            if "cache" in norm(d):
                res.add("R-C17-4", (k, "memoised", norm(d)), f.loc(),
                        f"{k} is memoised ({norm(d)}): a result keyed on a path spelling outlives a change of working "
                        f"directory or of the file")
        for n in walk_no_nested(f.node):
            if isinstance(n, ast.Try):
                for h in n.handlers:
                    caught = set(handler_names(h)) & OSERROR_FAMILY
                    if caught:
                        res.add("R-C17-4", (k, "handler", ",".join(sorted(caught))), f.loc(h),
                                f"{k} catches {sorted(caught)}: a missing import target must surface as an OS error")
            if isinstance(n, ast.Attribute) and n.attr in AMBIENT_APIS:
                res.add("R-C17-4", (k, "ambient api", n.attr), f.loc(n),
                        f"{k} uses `{norm(n)}`: the resolved file would depend on the process (cwd/home/environment)")
            if isinstance(n, ast.Attribute) and n.attr in FALLBACK_APIS:
                res.add("R-C17-4", (k, "existence fallback", n.attr), f.loc(n),
                        f"{k} probes `{norm(n)}`: an existence test on the import chain lets a missing file resolve to another one")
            if isinstance(n, ast.Name) and n.id in ("getcwd", "chdir"):
                res.add("R-C17-4", (k, "ambient api", n.id), f.loc(n), f"{k} uses {n.id}")
        r4.ob(True, {"function": k, "bans": "no cache decorator / OSError handler / cwd-home-env API / exists() fallback"})
    # memoisation through a module-level container written on the chain
    for mod in CHAIN_MODULES:
        for name, val in prog.module_assigns.get(mod, {}).items():
            if isinstance(val, (ast.Dict, ast.List, ast.Set)) or (isinstance(val, ast.Call) and callee(val) in ("dict", "WeakValueDictionary", "OrderedDict", "defaultdict")):
                for k in reach:
                    f = prog.funcs[k]
                    for n in walk_no_nested(f.node):
                        if isinstance(n, ast.Subscript) and isinstance(n.ctx, ast.Store) and isinstance(n.value, ast.Name) and n.value.id == name:
                            res.add("R-C17-4", (k, "module cache", name), f.loc(n),
                                    f"{k} stores into module-level container {name}: a cache on the import chain")
    # ------------------------------------------------------------- R-C17-5 only a path *literal* is followed
    r5 = res.rule("R-C17-5", "the import argument is classified as written: between Import.__getitem__ and the NixPath test nothing "
                  "resolves names (no scope-chain lookup, no Identifier.value) — an identifier or any other non-literal argument "
                  "reaches the test unchanged and raises TypeError", floor=1)
    RESOLUTION = {"_resolve_identifier", "set_resolution_context", "attach_resolution_context", "scopes_for_owner", "Identifier.value",
                  "get_resolution_context", "_get_context", "function_call_scope"}
    for root in dict.fromkeys((ra.key, fi.key)):
        if not prog.has_func(root):
            res.unclass(f"{root} vanished")
            continue
        r5.instances += 1
        reach = cg.reachable([root], stop={"parse_file", "parse"})
        hit = sorted(reach & RESOLUTION)
        # property reads of `.value` on a local in the functions on the way
        for k in sorted(reach):
            g = prog.funcs[k]
            if g.cls == "Import" or g.module.endswith("import_expression.py") or k in reach - {root}:
                for n in walk_no_nested(g.node):
                    if isinstance(n, ast.Attribute) and n.attr == "value" and isinstance(n.ctx, ast.Load) and isinstance(n.value, ast.Name) \
                            and any(isinstance(t, ast.Call) and callee(t) == "isinstance" and norm(t.args[0]) == n.value.id and "Identifier" in norm(t.args[1])
                                    for t in ast.walk(g.node)):
                        hit.append(f"{k}: {norm(n)} on an Identifier")
        r5.ob(not hit, {"root": root, "functions_on_the_way": sorted(reach)[:8]})
        if hit:
            res.add("R-C17-5", (root, "import argument is resolved before classification", hit[0].split(":")[0]), prog.func(root).loc(),
                    f"{root} reaches name resolution ({', '.join(hit)[:120]}) before the `NixPath` test: `let p = ./b.nix; in {{ x = import p; }}` "
                    f"is silently followed (and an unbound name raises a resolution error) instead of TypeError for a non-path argument")
    # ------------------------------------------------------------- R-C17-6 every parenthesis layer is removed
    r6 = res.rule("R-C17-6", "every parenthesis layer is removed before the path test: the value handed to the `NixPath` test is, on "
                  "every path, known not to be a Parenthesis after its last assignment (`import ((./a.nix))` has a path argument)", floor=1)
    _unwrapped_before_test(prog, res, r6, ra, fi)
    res.assumptions = ["the entry path is stored as given: if it is relative and the process later changes directory, "
                       "resolution follows the new directory (recorded in DESIGN.md, not decided)"]
    return res


def _unwrapped_before_test(prog: Program, res: Results, r6, ra, fi) -> None:
    from sa.cfg import ReachingDefs

    def is_paren_test(a, x: str) -> bool:
        """`isinstance(x, Parenthesis)` / `type(x) is Parenthesis`"""
        if isinstance(a, ast.Call) and callee(a) == "isinstance" and len(a.args) == 2 and norm(a.args[0]) == x and "Parenthesis" in norm(a.args[1]):
            return not isinstance(a.args[1], ast.Tuple) or len(a.args[1].elts) == 1
        if isinstance(a, ast.Compare) and len(a.ops) == 1 and isinstance(a.ops[0], (ast.Is, ast.Eq)) and norm(a.comparators[0]).endswith("Parenthesis") \
                and norm(a.left) in (f"type({x})", f"{x}.__class__"):
            return True
        return False

    def by_match(g, node_ast, x: str) -> bool:
        """the statement sits in a later arm of a `match` whose earlier, unguarded arm takes every Parenthesis: the subject (or
        the arm's own capture of it) is then not a Parenthesis"""
        for m_ in [n for n in walk_no_nested(g.node) if isinstance(n, ast.Match)]:
            taken = False
            for cs in m_.cases:
                inside = any(node_ast is y for st in cs.body for y in ast.walk(st))
                if inside:
                    cap = cs.pattern.name if isinstance(cs.pattern, ast.MatchAs) and cs.pattern.pattern is None else None
                    return taken and (norm(m_.subject) == x or cap == x)
                p_ = cs.pattern
                if isinstance(p_, ast.MatchClass) and norm(p_.cls).endswith("Parenthesis") and cs.guard is None and all(
                        isinstance(sp, ast.MatchAs) and sp.pattern is None for sp in list(p_.patterns) + list(p_.kwd_patterns)):
                    taken = True
        return False

    def check(g, cfg, rd, node, x: str, what: str) -> None:
        r6.instances += 1
        for _ in range(4):  # a plain copy (`target = inner`) carries the fact established for what it copies
            ds = rd.defs_at(node, x)
            d = next(iter(ds)) if len(ds) == 1 else None
            if isinstance(d, ast.Assign) and len(d.targets) == 1 and isinstance(d.targets[0], ast.Name) and isinstance(d.value, ast.Name) \
                    and cfg.node_of(d) is not None:
                node, x = cfg.node_of(d), d.value.id
            else:
                break
        e = edges_establishing(cfg, lambda a, t: t is False and is_paren_test(a, x))
        ok = by_match(g, node.ast, x)
        if not ok and e and cfg.all_paths_pass(node, cut_edges=e):
            # … and no assignment of x lies between the test and here
            defs = [n for n in cfg.nodes if x in rd.gen.get(n, {})]
            ok = all(node not in cfg.reachable(d, removed_edges=e) or d is node for d in defs)
        r6.ob(ok, {"site": g.key, what: norm(node.ast)[:60], "value": x})
        if not ok:
            res.add("R-C17-6", (g.key, "parenthesis layer may remain", what), g.loc(node.ast),
                    f"{g.key}: `{norm(node.ast)[:60]}` hands on `{x}` without the fact `not isinstance({x}, Parenthesis)` holding on every "
                    f"path after its last assignment: a path wrapped in more than one pair of parentheses reaches the `NixPath` test "
                    f"still wrapped and is refused with TypeError instead of being followed")

    if ra is not None and ra is not fi:
        cfg = CFG(ra.node)
        rd = ReachingDefs(cfg)
        res.analysed_functions.add(ra.key)
        for rt in [n for n in cfg.nodes if n.kind == "return" and n.ast.value is not None]:
            v = rt.ast.value
            vals = [v.body, v.orelse] if isinstance(v, ast.IfExp) else [v]
            for x in vals:
                if isinstance(x, ast.Call) and callee(x) == ra.name:
                    continue  # the recursive call hands back an unwrapped value (induction)
                if isinstance(v, ast.IfExp) and isinstance(x, ast.Name) and is_paren_test(v.test, x.id) and x is v.orelse:
                    r6.instances += 1
                    r6.ob(True, {"site": ra.key, "return": norm(rt.ast)[:60]})
                    continue
                if isinstance(x, ast.Name):
                    check(ra, cfg, rd, rt, x.id, "return")
                else:
                    res.unclass(f"{ra.key}: `{norm(rt.ast)[:60]}` returns an expression whose parenthesis layers cannot be followed")
        return
    # the unwrapping is written in the function that tests for NixPath
    cfg = CFG(fi.node)
    rd = ReachingDefs(cfg)
    tests = [(n, a.args[0].id) for n in cfg.nodes if n.kind == "test" for a in ast.walk(n.ast)
             if isinstance(a, ast.Call) and callee(a) == "isinstance" and len(a.args) == 2 and isinstance(a.args[0], ast.Name) and "NixPath" in norm(a.args[1])]
    if not tests:
        res.unclass(f"{fi.key}: the `isinstance(<argument>, NixPath)` test was not found")
    for n, x in tests:
        check(fi, cfg, rd, n, x, "path test")
