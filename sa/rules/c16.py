"""C16 — the CLI reports and emits exactly what the library computes (path conditions on `main`)."""
from __future__ import annotations

import ast

from sa.cfg import CFG
from sa.model import AnalysisError, Program, norm, walk_no_nested
from sa.report import Results
from sa.util import assignments_to, callee, dotted, is_const, strip_not, parent_map, enclosing

MAIN = "nix_manipulator/cli/main.py"


def _cases(fn: ast.FunctionDef):
    m = [n for n in ast.walk(fn) if isinstance(n, ast.Match) and (dotted(n.subject) or "").endswith(".command")]
    if len(m) != 1:
        raise AnalysisError("main(): expected exactly one `match <args>.command`")
    out = {}
    for c in m[0].cases:
        if isinstance(c.pattern, ast.MatchValue) and isinstance(c.pattern.value, ast.Constant):
            out[c.pattern.value.value] = c
        elif isinstance(c.pattern, ast.MatchOr):
            for p in c.pattern.patterns:
                if isinstance(p, ast.MatchValue) and isinstance(p.value, ast.Constant):
                    out[p.value.value] = c
    return m[0], out


def _tail_into_cases(fn: ast.FunctionDef) -> ast.FunctionDef:
    """Normal form for the rules below: statements that follow the `match` (a tail shared by the cases that fall out of it,
    e.g. `_emit(edited); return 0`) are copied to the end of every case that can fall through, so each case is judged as the
    self-contained sequence of statements that runs for that sub-command."""
    import copy
    fn = copy.deepcopy(fn)
    _split_or_cases(fn)
    _expand_conditional_statements(fn)
    for i, st in enumerate(fn.body):
        if isinstance(st, ast.Match):
            tail = fn.body[i + 1:]
            if not tail:
                return fn
            for c in st.cases:
                last = c.body[-1] if c.body else None
                if not isinstance(last, (ast.Return, ast.Raise)):
                    c.body = list(c.body) + copy.deepcopy(tail)
            if all(isinstance(c.body[-1], (ast.Return, ast.Raise)) for c in st.cases) and any(
                    isinstance(c.pattern, ast.MatchAs) and c.pattern.pattern is None for c in st.cases):
                del fn.body[i + 1:]  # unreachable now: every case (including the wildcard) leaves
            return fn
    return fn


def _inline_status_helpers(prog: Program, mainf, fn: ast.FunctionDef) -> None:
    """`return helper(<text>)` where a helper of the same module decides the exit status (every `return` of it is an integer
    constant) is written out in place, so that the status and what was written before it are judged on one path"""
    from sa import inline as _inl
    names = {x.id for x in ast.walk(fn) if isinstance(x, ast.Name)} | {a.arg for a in ast.walk(fn) if isinstance(a, ast.arg)}

    def status_helper(call):
        if not (isinstance(call, ast.Call) and isinstance(call.func, ast.Name)):
            return None
        h = prog.funcs.get(call.func.id)
        if h is None or h.module != mainf.module or h.parent is not None or h.cls:
            return None
        rets = [r for r in walk_no_nested(h.node) if isinstance(r, ast.Return)]
        if not rets or not all(isinstance(r.value, ast.Constant) and isinstance(r.value.value, int) and not isinstance(r.value.value, bool) for r in rets):
            return None
        return h

    def do(stmts):
        out = []
        for st in stmts:
            for fld in ("body", "orelse", "finalbody"):
                if isinstance(getattr(st, fld, None), list) and not isinstance(st, (ast.FunctionDef, ast.AsyncFunctionDef, ast.ClassDef)):
                    setattr(st, fld, do(getattr(st, fld)))
            if isinstance(st, ast.Match):
                for c in st.cases:
                    c.body = do(c.body)
            if isinstance(st, ast.Try):
                for h_ in st.handlers:
                    h_.body = do(h_.body)
            h = status_helper(st.value) if isinstance(st, ast.Return) else None
            if h is not None:
                try:
                    out += _inl._inline_statement(st, _inl.Helper(h.key, h.module, h.node, "function", None), st.value, None, names)
                    continue
                except Exception:
                    pass
            out.append(st)
        return out

    fn.body = do(fn.body)
    ast.fix_missing_locations(fn)


def _split_or_cases(fn: ast.FunctionDef) -> None:
    """`case "set" | "rm" as cmd: … (A if cmd == "set" else B) …` is written out as one case per literal, with the captured
    name replaced by the literal and the comparisons on it decided: each sub-command is then judged on its own statements."""
    import copy

    class Fold(ast.NodeTransformer):
        def __init__(self, name, value):
            self.name, self.value = name, value

        def visit_Name(self, n):
            if isinstance(n.ctx, ast.Load) and n.id == self.name:
                return ast.copy_location(ast.Constant(value=self.value), n)
            return n

        @staticmethod
        def _decide(test):
            if isinstance(test, ast.Compare) and len(test.ops) == 1 and isinstance(test.left, ast.Constant) and isinstance(test.comparators[0], ast.Constant):
                if isinstance(test.ops[0], ast.Eq):
                    return test.left.value == test.comparators[0].value
                if isinstance(test.ops[0], ast.NotEq):
                    return test.left.value != test.comparators[0].value
            return None

        def visit_IfExp(self, n):
            self.generic_visit(n)
            d = self._decide(n.test)
            return n if d is None else (n.body if d else n.orelse)

        def visit_If(self, n):
            self.generic_visit(n)
            d = self._decide(n.test)
            if d is None:
                return n
            return (n.body if d else n.orelse) or [ast.copy_location(ast.Pass(), n)]

    for st in ast.walk(fn):
        if not isinstance(st, ast.Match):
            continue
        new_cases = []
        for c in st.cases:
            pat, name = c.pattern, None
            if isinstance(pat, ast.MatchAs) and pat.pattern is not None:
                pat, name = pat.pattern, pat.name
            lits = [p_.value.value for p_ in pat.patterns] if isinstance(pat, ast.MatchOr) and all(
                isinstance(p_, ast.MatchValue) and isinstance(p_.value, ast.Constant) for p_ in pat.patterns) else None
            if lits is None or c.guard is not None:
                new_cases.append(c)
                continue
            for v in lits:
                body = copy.deepcopy(c.body)
                if name:
                    folded = []
                    for b in body:
                        r_ = Fold(name, v).visit(b)
                        folded.extend(r_ if isinstance(r_, list) else [r_])
                    body = folded
                new_cases.append(ast.match_case(pattern=ast.MatchValue(value=ast.Constant(value=v)), guard=None, body=body))
        st.cases = new_cases
    ast.fix_missing_locations(fn)


def _expand_conditional_statements(fn: ast.FunctionDef) -> None:
    """`print('OK' if ok else 'Fail'); return 0 if ok else 1`  ->  `if ok: print('OK'); return 0  else: print('Fail'); return 1`:
    a statement whose only variation is a conditional expression on a plain local becomes an if-statement, and neighbouring
    if-statements on the same local (not reassigned in between) are merged, so verdict and exit status of one path sit on one
    branch."""
    import copy

    def split(st):
        for n in ast.walk(st):
            if isinstance(n, ast.IfExp) and isinstance(n.test, ast.Name):
                a, b = copy.deepcopy(st), copy.deepcopy(st)

                class Pick(ast.NodeTransformer):
                    def __init__(self, take_body):
                        self.take_body, self.done = take_body, False

                    def visit_IfExp(self, x):
                        if not self.done and isinstance(x.test, ast.Name) and x.test.id == n.test.id and ast.dump(x) == ast.dump(n):
                            self.done = True
                            return x.body if self.take_body else x.orelse
                        return self.generic_visit(x)

                a, b = Pick(True).visit(a), Pick(False).visit(b)
                return ast.copy_location(ast.If(test=ast.copy_location(ast.Name(id=n.test.id, ctx=ast.Load()), st), body=[a], orelse=[b]), st)
        return None

    def do(seq):
        i = 0
        while i < len(seq):
            st = seq[i]
            if isinstance(st, (ast.Expr, ast.Return, ast.Assign)):
                new = split(st)
                if new is not None:
                    seq[i] = new
                    continue
            for fld in ("body", "orelse", "finalbody"):
                sub = getattr(st, fld, None)
                if isinstance(sub, list) and sub and isinstance(sub[0], ast.stmt):
                    do(sub)
            for c in getattr(st, "cases", []) or []:
                do(c.body)
            i += 1
        # merge neighbours `if v: A else: B` `if v: C else: D`
        i = 0
        while i + 1 < len(seq):
            a, b = seq[i], seq[i + 1]
            if isinstance(a, ast.If) and isinstance(b, ast.If) and isinstance(a.test, ast.Name) and isinstance(b.test, ast.Name) \
                    and a.test.id == b.test.id and a.orelse and b.orelse \
                    and not any(isinstance(x, ast.Name) and x.id == a.test.id and isinstance(x.ctx, ast.Store) for x in ast.walk(a)):
                a.body, a.orelse = a.body + b.body, a.orelse + b.orelse
                del seq[i + 1]
                continue
            i += 1

    do(fn.body)


class CaseCtx:
    def __init__(self, prog: Program, fn, case: ast.match_case, cfg: CFG):
        self.prog, self.fn, self.case, self.cfg = prog, fn, case, cfg
        self.body = ast.Module(body=case.body, type_ignores=[])

    def defs(self, name: str) -> list[ast.AST]:
        """values of all bindings of local `name` inside this case (and before the match)."""
        vals = []
        for st in assignments_to(self.fn, name):
            if isinstance(st, (ast.Assign, ast.AnnAssign)) and st.value is not None:
                # ignore bindings that live in other cases
                if self._in_other_case(st):
                    continue
                vals.append(st.value)
            else:
                vals.append(st)
        return vals

    def _in_other_case(self, st) -> bool:
        for n in ast.walk(self.body):
            if n is st:
                return False
        # before the match (e.g. args = parser.parse_args(...)) counts too
        m, cases = _cases(self.fn)
        for c in m.cases:
            if c is self.case:
                continue
            for n in ast.walk(ast.Module(body=c.body, type_ignores=[])):
                if n is st:
                    return True
        return False

    def is_exact_input(self, e: ast.AST, depth=0) -> bool:
        """e is exactly <args>.file.read() (possibly through single-assignment locals)."""
        if depth > 5:
            return False
        if isinstance(e, ast.Call) and isinstance(e.func, ast.Attribute) and e.func.attr == "read" \
                and not e.args and not e.keywords and (dotted(e.func.value) or "").endswith(".file"):
            return True
        if isinstance(e, ast.Name):
            ds = self.defs(e.id)
            return bool(ds) and all(self.is_exact_input(d, depth + 1) for d in ds)
        return False

    def is_parse_of_input(self, e: ast.AST, depth=0) -> bool:
        if depth > 5:
            return False
        if isinstance(e, ast.Call) and callee(e) == "parse" and len(e.args) + len(e.keywords) == 1:
            arg = e.args[0] if e.args else e.keywords[0].value
            return self.is_exact_input(arg)
        if isinstance(e, ast.Name):
            ds = self.defs(e.id)
            return bool(ds) and all(self.is_parse_of_input(d, depth + 1) for d in ds)
        return False

    def is_rebuild_of_parsed_input(self, e: ast.AST, depth=0) -> bool:
        if depth > 5:
            return False
        if isinstance(e, ast.Call) and isinstance(e.func, ast.Attribute) and e.func.attr == "rebuild" \
                and not e.args and not e.keywords:
            return self.is_parse_of_input(e.func.value)
        if isinstance(e, ast.Name):
            ds = self.defs(e.id)
            return bool(ds) and all(self.is_rebuild_of_parsed_input(d, depth + 1) for d in ds)
        return False


def _stdout_writes(prog: Program, root: ast.AST, _seen: frozenset = frozenset()):
    """Calls that write to stdout: print(...) without file=, sys.stdout.write, module helpers doing so."""
    out = []
    for n in ast.walk(root):
        if not isinstance(n, ast.Call):
            continue
        if isinstance(n.func, ast.Name) and n.func.id == "print":
            f = next((k.value for k in n.keywords if k.arg == "file"), None)
            if f is None or dotted(f) == "sys.stdout":
                out.append(n)
        elif dotted(n.func) in ("sys.stdout.write", "sys.stdout.writelines", "stdout.write"):
            out.append(n)
        elif isinstance(n.func, ast.Name):
            tgt = prog.funcs.get(n.func.id)
            if tgt is not None and tgt.cls is None and tgt.module == MAIN and tgt.name != "main" and tgt.key not in _seen:
                if _stdout_writes(prog, tgt.node, _seen | {tgt.key}):  # (a recursive helper is looked into once)
                    out.append(n)
    return out


def _modifies_text(expr: ast.AST, text_is) -> str | None:
    """The library text passed through a string method / slice before being written."""
    for n in ast.walk(expr):
        if isinstance(n, ast.Call) and isinstance(n.func, ast.Attribute) and text_is(n.func.value) \
                and n.func.attr not in ("endswith", "startswith"):
            return norm(n)
        if isinstance(n, ast.Subscript) and text_is(n.value):
            return norm(n)
    return None


def _classify_terminator(prog: Program, call: ast.Call, text_is, depth=0) -> str:
    """conditional | always | never | modified:<expr> | unknown"""
    for a in list(call.args) + [k.value for k in call.keywords]:
        m = _modifies_text(a, text_is)
        if m:
            return "modified:" + m
    def endswith_nl(test, var_ok):
        t, neg = strip_not(test)
        if isinstance(t, ast.Call) and isinstance(t.func, ast.Attribute) and t.func.attr == "endswith" \
                and len(t.args) == 1 and is_const(t.args[0], "\n") and var_ok(t.func.value):
            return (not neg)
        return None

    def plus_nl(e, var_ok):
        return isinstance(e, ast.BinOp) and isinstance(e.op, ast.Add) and var_ok(e.left) and is_const(e.right, "\n")

    if isinstance(call.func, ast.Name) and call.func.id == "print":
        if len(call.args) != 1:
            return "unknown"
        end = next((k.value for k in call.keywords if k.arg == "end"), None)
        arg = call.args[0]
        if end is None:
            if isinstance(arg, ast.Call) and isinstance(arg.func, ast.Attribute) and arg.func.attr == "rstrip" \
                    and text_is(arg.func.value):
                return "unknown"  # strips more than one terminator: not the library text
            return "always" if text_is(arg) else "unknown"
        if not text_is(arg):
            return "unknown"
        if is_const(end, ""):
            return "never"
        if isinstance(end, ast.IfExp):
            pol = endswith_nl(end.test, text_is)
            if pol is True and is_const(end.body, "") and is_const(end.orelse, "\n"):
                return "conditional"
            if pol is False and is_const(end.body, "\n") and is_const(end.orelse, ""):
                return "conditional"
        return "unknown"
    if dotted(call.func) in ("sys.stdout.write", "stdout.write") and len(call.args) == 1:
        arg = call.args[0]
        if text_is(arg):
            return "never"
        if isinstance(arg, ast.IfExp):
            pol = endswith_nl(arg.test, text_is)
            if pol is True and text_is(arg.body) and plus_nl(arg.orelse, text_is):
                return "conditional"
            if pol is False and plus_nl(arg.body, text_is) and text_is(arg.orelse):
                return "conditional"
        if plus_nl(arg, text_is):
            return "always"
        return "unknown"
    if isinstance(call.func, ast.Name) and depth < 2:
        tgt = prog.funcs.get(call.func.id)
        if tgt is not None and tgt.cls is None and len(call.args) == 1 and not call.keywords:
            params = tgt.params()
            if len(params) != 1:
                return "unknown"
            pname = params[0]
            rebinds = assignments_to(tgt.node, pname)
            if rebinds:
                # statement form of the conditional terminator:  if not p.endswith("\n"): p += "\n"  …  write(p)
                is_p = lambda e: isinstance(e, ast.Name) and e.id == pname  # noqa: E731
                body = [st for st in tgt.node.body if not (isinstance(st, ast.Expr) and isinstance(st.value, ast.Constant))]
                if len(rebinds) == 1 and len(body) == 2 and isinstance(body[0], ast.If) and not body[0].orelse and body[0].body == [rebinds[0]] \
                        and endswith_nl(body[0].test, is_p) is False:
                    rb = rebinds[0]
                    adds_nl = (isinstance(rb, ast.AugAssign) and isinstance(rb.op, ast.Add) and is_const(rb.value, "\n")) or \
                              (isinstance(rb, ast.Assign) and plus_nl(rb.value, is_p))
                    writes = _stdout_writes(prog, ast.Module(body=[body[1]], type_ignores=[]))
                    if adds_nl and len(writes) == 1 and isinstance(body[1], ast.Expr) and body[1].value is writes[0]:
                        inner = _classify_terminator(prog, writes[0], is_p, depth + 1)
                        if inner == "never":
                            return "conditional"
                return "unknown"  # parameter rebound before emission
            for st in tgt.node.body:
                m = _modifies_text(st, lambda e: isinstance(e, ast.Name) and e.id == pname)
                if m:
                    return "modified:" + m
            writes = _stdout_writes(prog, tgt.node)
            if len(writes) != 1:
                return "unknown"
            # the single write must be unconditional in the helper
            cfg = CFG(tgt.node)
            wn = cfg.containing(writes[0])
            if wn is None or not cfg.postdominated_by(cfg.entry, [wn]):
                return "unknown"
            return _classify_terminator(prog, writes[0], lambda e: isinstance(e, ast.Name) and e.id == pname, depth + 1)
    return "unknown"


def run(prog: Program) -> Results:
    res = Results("C16")
    mainf = prog.func("main")
    if mainf.module != MAIN:
        raise AnalysisError("main() moved out of cli/main.py")
    fn = _tail_into_cases(mainf.node)
    _inline_status_helpers(prog, mainf, fn)
    res.analysed_functions |= {"main", "build_parser", "with_file_argument"}
    cfg = CFG(fn)
    match, cases = _cases(fn)
    for need in ("set", "rm", "test"):
        if need not in cases:
            raise AnalysisError(f"main(): case {need!r} vanished")
    pm = parent_map(fn)

    # ---------------------------------------------------------------- R-C16-1
    r1 = res.rule("R-C16-1", "test prints OK/returns 0 only on the path with contains_error false and "
                  "input == rebuild(parse(input)); every other exit prints Fail and returns 1", floor=3)
    ctx = CaseCtx(prog, fn, cases["test"], cfg)
    body = ctx.body
    writes = _stdout_writes(prog, body)
    ok_prints, fail_prints = [], []
    for w in writes:
        if isinstance(w.func, ast.Name) and w.func.id == "print" and len(w.args) == 1 and not w.keywords:
            if is_const(w.args[0], "OK"):
                ok_prints.append(w)
                continue
            if is_const(w.args[0], "Fail"):
                fail_prints.append(w)
                continue
        res.add("R-C16-1", ("main", "case test", "foreign stdout write", norm(w)), mainf.loc(w),
                f"`nima test` writes something other than OK/Fail to stdout: {norm(w)}")
    r1.instances += len(ok_prints) + len(fail_prints)
    if not ok_prints or not fail_prints:
        raise AnalysisError("main() case test: print('OK') / print('Fail') not found — verdict shape not classifiable")

    # facts established on edges (shared engine: looks through boolean locals, complements, disjunctive edges)
    from sa.cfg import edges_establishing as _ee, edges_establishing_any as _ee_any

    def edges_establishing(pred):
        return _ee(cfg, pred)

    def no_error_fact(a, truth):
        return isinstance(a, ast.Attribute) and a.attr == "contains_error" and truth is False \
            and ctx.is_parse_of_input(a.value)

    def equal_fact(a, truth):
        if not (isinstance(a, ast.Compare) and len(a.ops) == 1):
            return False
        op = a.ops[0]
        if not ((isinstance(op, ast.Eq) and truth) or (isinstance(op, ast.NotEq) and not truth)):
            return False
        l, r = a.left, a.comparators[0]
        return (ctx.is_exact_input(l) and ctx.is_rebuild_of_parsed_input(r)) or \
               (ctx.is_exact_input(r) and ctx.is_rebuild_of_parsed_input(l))

    e_noerr = edges_establishing(no_error_fact)
    e_equal = edges_establishing(equal_fact)
    for okp in ok_prints:
        node = cfg.containing(okp)
        a = cfg.all_paths_pass(node, cut_edges=e_noerr)
        b = cfg.all_paths_pass(node, cut_edges=e_equal)
        r1.ob(a, {"print": "OK", "guard": "not contains_error", "edges": [repr(x[0]) for x in e_noerr]})
        r1.ob(b, {"print": "OK", "guard": "input == parse(input).rebuild()", "edges": [repr(x[0]) for x in e_equal]})
        if not a:
            res.add("R-C16-1", ("main", "case test", "OK not guarded by contains_error"), mainf.loc(okp),
                    "print('OK') is reachable without passing the false edge of a `contains_error` test on parse(input)")
        if not b:
            res.add("R-C16-1", ("main", "case test", "OK not guarded by byte equality"), mainf.loc(okp),
                    "print('OK') is reachable without establishing `<args.file.read()> == parse(<same>).rebuild()` "
                    "(operands must be the unmodified input and the rebuild of its parse)")
    # Fail is the verdict of exactly two facts: the parse has an error, or the rebuild differs from the input
    def error_fact(a, truth):
        return isinstance(a, ast.Attribute) and a.attr == "contains_error" and truth is True and ctx.is_parse_of_input(a.value)

    def unequal_fact(a, truth):
        if not (isinstance(a, ast.Compare) and len(a.ops) == 1):
            return False
        op = a.ops[0]
        if not ((isinstance(op, ast.Eq) and not truth) or (isinstance(op, ast.NotEq) and truth)):
            return False
        l, r = a.left, a.comparators[0]
        return (ctx.is_exact_input(l) and ctx.is_rebuild_of_parsed_input(r)) or (ctx.is_exact_input(r) and ctx.is_rebuild_of_parsed_input(l))

    e_fail = _ee_any(cfg, [error_fact, unequal_fact])
    for fp in fail_prints:
        node = cfg.containing(fp)
        r1.instances += 1
        ok = bool(e_fail) and cfg.all_paths_pass(node, cut_edges=e_fail)
        r1.ob(ok, {"print": "Fail", "only_when": "contains_error or input != rebuild"})
        if not ok:
            res.add("R-C16-1", ("main", "case test", "Fail without a syntax error or a difference"), mainf.loc(fp),
                    "print('Fail') is reachable although neither `contains_error` of parse(input) is true nor the rebuild differs from the "
                    "input: inputs such as '' or a comment-only file, which round-trip exactly, are reported as failures")
    ok_nodes = [cfg.containing(p) for p in ok_prints]
    fail_nodes = [cfg.containing(p) for p in fail_prints]
    rets = [n for n in ast.walk(body) if isinstance(n, ast.Return)]
    if not rets:
        raise AnalysisError("main() case test has no return")
    for rt in rets:
        node = cfg.node_of(rt)
        r1.instances += 1
        if isinstance(rt.value, ast.Constant) and rt.value.value == 0 and rt.value.value is not False:
            ok = cfg.all_paths_pass(node, cut_nodes=ok_nodes)
            r1.ob(ok, {"return": 0, "dominated_by": "print('OK')"})
            if not ok:
                res.add("R-C16-1", ("main", "case test", "return 0 without OK"), mainf.loc(rt),
                        "`return 0` in `nima test` is reachable without print('OK')")
        elif isinstance(rt.value, ast.Constant) and isinstance(rt.value.value, int) and rt.value.value != 0:
            ok = cfg.all_paths_pass(node, cut_nodes=fail_nodes)
            clean = not any(node in cfg.reachable(o) for o in ok_nodes)
            r1.ob(ok and clean and rt.value.value == 1, {"return": rt.value.value, "dominated_by": "print('Fail')"})
            if not ok:
                res.add("R-C16-1", ("main", "case test", "failure exit without Fail"), mainf.loc(rt),
                        "a non-zero return of `nima test` is reachable without print('Fail')")
            if not clean:
                res.add("R-C16-1", ("main", "case test", "failure exit after OK"), mainf.loc(rt),
                        "a non-zero return of `nima test` is reachable after print('OK')")
            if rt.value.value != 1:
                res.add("R-C16-1", ("main", "case test", "failure status not 1"), mainf.loc(rt),
                        f"`nima test` failure exit status is {rt.value.value}, the property requires 1")
        else:
            raise AnalysisError(f"main() case test: non-constant exit status `{norm(rt)}` — shape not classifiable")
    # the case must not fall out of the match without returning
    for fp in fail_nodes:
        # after printing Fail the only way out is a non-zero return
        reach = cfg.reachable(fp)
        bad = [cfg.node_of(rt) for rt in rets if isinstance(rt.value, ast.Constant) and rt.value.value == 0]
        hit = any(b in reach for b in bad)
        r1.ob(not hit, {"print": "Fail", "never_followed_by": "return 0"})
        if hit:
            res.add("R-C16-1", ("main", "case test", "Fail then return 0"), mainf.loc(fp.ast),
                    "after print('Fail') a `return 0` is reachable")

    # ---------------------------------------------------------------- R-C16-2 / R-C16-3
    r2 = res.rule("R-C16-2", "set/rm: the only stdout write is the emission of the library result computed from "
                  "parse(<args.file.read()>) and the unmodified CLI arguments; return 0 only after it; no handler "
                  "swallows errors", floor=2)
    r3 = res.rule("R-C16-3", "the emission adds a line terminator exactly when the text lacks one", floor=2)
    spec = {"set": ("set_value", {"source": "SRC", "npath": "npath", "value": "value"}, ["source", "npath", "value"]),
            "rm": ("remove_value", {"source": "SRC", "npath": "npath"}, ["source", "npath"])}
    for cname, (libfn, kwspec, order) in spec.items():
        ctx = CaseCtx(prog, fn, cases[cname], cfg)
        body = ctx.body
        libcalls = [c for c in ast.walk(body) if isinstance(c, ast.Call) and isinstance(c.func, ast.Name) and c.func.id == libfn]
        r2.instances += 1
        if len(libcalls) != 1:
            res.add("R-C16-2", ("main", f"case {cname}", "library call count"), mainf.loc(cases[cname].body[0]),
                    f"case {cname!r} calls {libfn} {len(libcalls)} times (expected exactly once)")
            continue
        lc = libcalls[0]
        imp = prog.imports[MAIN].get(libfn, "")
        ok = imp == f"nix_manipulator.cli.manipulations.{libfn}"
        r2.ob(ok, {"case": cname, "callee": imp})
        if not ok:
            res.add("R-C16-2", ("main", f"case {cname}", "callee not the library function"), mainf.loc(lc),
                    f"{libfn} in main.py resolves to {imp!r}, not the library edit function")
        # arguments
        actual = {}
        for i, a in enumerate(lc.args):
            if i < len(order):
                actual[order[i]] = a
        for k in lc.keywords:
            if k.arg:
                actual[k.arg] = k.value
        for pname, want in kwspec.items():
            a = actual.get(pname)
            if want == "SRC":
                good = a is not None and ctx.is_parse_of_input(a)
                msg = "is not parse(<args.file.read()>) of the unmodified input"
            else:
                good = a is not None and (dotted(a) or "").endswith(f".{want}") and isinstance(a, ast.Attribute) \
                    and isinstance(a.value, ast.Name)
                msg = f"is not the unmodified CLI argument args.{want}"
            r2.ob(good, {"case": cname, "param": pname, "arg": norm(a) if a is not None else None})
            if not good:
                res.add("R-C16-2", ("main", f"case {cname}", f"argument {pname}"), mainf.loc(lc),
                        f"{libfn}({pname}=…) {msg}: `{norm(a) if a is not None else 'missing'}`")
        # no enclosing try / suppress
        tr = enclosing(pm, lc, (ast.Try,))
        sup = [w for w in ast.walk(fn) if isinstance(w, ast.With) and any("suppress" in norm(i.context_expr) for i in w.items)
               and any(x is lc for x in ast.walk(w))]
        r2.ob(tr is None and not sup, {"case": cname, "no_handler_around": libfn})
        if tr is not None or sup:
            res.add("R-C16-2", ("main", f"case {cname}", "handler around library call"), mainf.loc(tr or sup[0]),
                    f"a try/suppress encloses {libfn}: an edit error could be swallowed (exit status / stdout)")
        # emission
        writes = _stdout_writes(prog, body)
        # the text: the call itself or a local bound to it
        text_names = set()
        for st in ast.walk(body):
            if isinstance(st, ast.Assign) and st.value is lc:
                for t in st.targets:
                    if isinstance(t, ast.Name):
                        text_names.add(t.id)

        def text_is(e, _lc=lc, _names=text_names, _ctx=ctx):
            if e is _lc:
                return True
            if isinstance(e, ast.Name) and e.id in _names:
                ds = _ctx.defs(e.id)
                return all(d is _lc for d in ds)
            return False

        emissions = [w for w in writes if any(text_is(a) for a in w.args)]
        foreign = [w for w in writes if w not in emissions]
        r2.ob(len(emissions) == 1 and not foreign, {"case": cname, "emissions": [norm(w)[:80] for w in emissions]})
        for w in foreign:
            res.add("R-C16-2", ("main", f"case {cname}", "foreign stdout write", norm(w)), mainf.loc(w),
                    f"case {cname!r} writes to stdout something that is not the library result: {norm(w)[:100]}")
        if len(emissions) != 1:
            res.add("R-C16-2", ("main", f"case {cname}", "emission count"), mainf.loc(lc),
                    f"the result of {libfn} is emitted {len(emissions)} times (expected exactly once, unmodified)")
            continue
        em = emissions[0]
        emn = cfg.containing(em)
        rets = [n for n in ast.walk(body) if isinstance(n, ast.Return)]
        for rt in rets:
            node = cfg.node_of(rt)
            zero = isinstance(rt.value, ast.Constant) and rt.value.value == 0
            if zero:
                good = cfg.all_paths_pass(node, cut_nodes=[emn])
                r2.ob(good, {"case": cname, "return": 0, "dominated_by": "emission"})
                if not good:
                    res.add("R-C16-2", ("main", f"case {cname}", "return 0 without emission"), mainf.loc(rt),
                            f"`return 0` in case {cname!r} is reachable without emitting the library result")
            elif not isinstance(rt.value, ast.Constant):
                raise AnalysisError(f"main() case {cname}: non-constant exit status — shape not classifiable")
        if not any(isinstance(rt.value, ast.Constant) and rt.value.value == 0 for rt in rets):
            res.add("R-C16-2", ("main", f"case {cname}", "no success exit"), mainf.loc(em),
                    f"case {cname!r} has no `return 0` after the emission")
        # R-C16-3
        r3.instances += 1
        kind = _classify_terminator(prog, em, text_is)
        r3.ob(kind == "conditional", {"case": cname, "emission": norm(em)[:100], "terminator": kind})
        if kind == "unknown":
            raise AnalysisError(f"main() case {cname}: emission `{norm(em)[:80]}` is not one of the classifiable idioms")
        if kind.startswith("modified:"):
            res.add("R-C16-3", ("main", f"case {cname}", "text modified before emission"), mainf.loc(em),
                    f"the library text is rewritten before it is written to stdout: `{kind[9:]}`")
        elif kind != "conditional":
            res.add("R-C16-3", ("main", f"case {cname}", f"terminator {kind}"), mainf.loc(em),
                    f"the edit result is emitted with a line terminator '{kind}' (must be added only when the text lacks one)")

    # ---------------------------------------------------------------- R-C16-4
    r4 = res.rule("R-C16-4", "one input channel: -f/--file and stdin share dest/default, wired to set/rm/test; "
                  "each case reads it exactly once; the channel does not rewrite bytes", floor=4)
    bp = prog.func("build_parser")
    wfa = prog.func("with_file_argument")
    # a table of sub-commands iterated by a loop reads like the statements it stands for
    from sa.charmachine import module_constants
    from sa.util import unroll_literal_loops
    bp_node = unroll_literal_loops(bp.node, module_constants(prog, bp.module))
    # which sub-command parsers are handed to with_file_argument: by order of statements, a parser variable may be reused
    wired_cmds = set()
    current: dict = {}
    for st in bp_node.body:
        for n_ in ast.walk(st):
            if isinstance(n_, ast.Assign) and isinstance(n_.value, ast.Call) and callee(n_.value) == "add_parser" \
                    and n_.value.args and isinstance(n_.value.args[0], ast.Constant):
                for t in n_.targets:
                    if isinstance(t, ast.Name):
                        current[t.id] = n_.value.args[0].value
            if isinstance(n_, ast.Call) and isinstance(n_.func, ast.Name) and n_.func.id == "with_file_argument" and n_.args:
                a0 = n_.args[0]
                if isinstance(a0, ast.Name) and a0.id in current:
                    wired_cmds.add(current[a0.id])
                elif isinstance(a0, ast.Call) and callee(a0) == "add_parser" and a0.args and isinstance(a0.args[0], ast.Constant):
                    wired_cmds.add(a0.args[0].value)
    sub_vars = {v: k for k, v in current.items()}
    for cmd_ in wired_cmds:
        sub_vars.setdefault(cmd_, "<parser>")
    wired = {sub_vars[c_] for c_ in wired_cmds}
    # the positional arguments reach the library as typed: no type=/choices=/nargs=/action= conversion
    for c in ast.walk(bp_node):
        if isinstance(c, ast.Call) and callee(c) == "add_argument" and c.args and isinstance(c.args[0], ast.Constant) \
                and isinstance(c.args[0].value, str) and not c.args[0].value.startswith("-"):
            r4.instances += 1
            conv = [k.arg for k in c.keywords if k.arg in ("type", "choices", "nargs", "action", "default", "const")
                    and not (k.arg == "type" and norm(k.value) == "str")]
            r4.ob(not conv, {"positional": c.args[0].value, "conversions": conv})
            if conv:
                res.add("R-C16-4", ("build_parser", c.args[0].value, "argument converted before the library sees it"), bp.loc(c),
                        f"the positional `{c.args[0].value}` is declared with {conv}: argparse hands the library a rewritten string, so the CLI "
                        f"and a direct library call with the same text can differ (e.g. a re-formatted NPath whose `${{` is escaped twice)")
    for cmd in ("set", "rm", "test"):
        r4.instances += 1
        good = cmd in wired_cmds
        r4.ob(good, {"subcommand": cmd, "parser_var": sub_vars.get(cmd), "wired": good})
        if not good:
            res.add("R-C16-4", ("build_parser", cmd, "file argument not wired"), bp.loc(),
                    f"sub-command {cmd!r} is not passed to with_file_argument (no -f/stdin channel)")
    adds = [c for c in ast.walk(wfa.node) if isinstance(c, ast.Call) and callee(c) == "add_argument"]
    if len(adds) != 1:
        raise AnalysisError("with_file_argument: expected exactly one add_argument call")
    add = adds[0]
    r4.instances += 1
    flags = [a.value for a in add.args if isinstance(a, ast.Constant)]
    dest = next((k.value.value for k in add.keywords if k.arg == "dest" and isinstance(k.value, ast.Constant)), None)
    default = next((k.value for k in add.keywords if k.arg == "default"), None)
    typ = next((k.value for k in add.keywords if k.arg == "type"), None)
    good = "--file" in flags and "-f" in flags and dest in (None, "file")
    r4.ob(good, {"flags": flags, "dest": dest})
    if not good:
        res.add("R-C16-4", ("with_file_argument", "flags/dest"), wfa.loc(add),
                f"file option flags {flags} dest={dest!r} do not bind args.file")
    good = default is not None and dotted(default) == "sys.stdin"
    r4.ob(good, {"default": norm(default) if default is not None else None})
    if not good:
        res.add("R-C16-4", ("with_file_argument", "default"), wfa.loc(add),
                "the default of -f/--file is not sys.stdin: stdin and -f would not be the same channel")
    if not (isinstance(typ, ast.Call) and (dotted(typ.func) or "").endswith("FileType")):
        raise AnalysisError("with_file_argument: type= is not argparse.FileType(...) — channel shape not classifiable")
    mode = typ.args[0].value if typ.args and isinstance(typ.args[0], ast.Constant) else next(
        (k.value.value for k in typ.keywords if k.arg == "mode" and isinstance(k.value, ast.Constant)), "r")
    enc = next((k.value.value for k in typ.keywords if k.arg == "encoding" and isinstance(k.value, ast.Constant)), None)
    newline = next((k.value for k in typ.keywords if k.arg == "newline"), None)
    good = mode == "r" and enc in ("utf-8", "utf8", "UTF-8")
    r4.ob(good, {"mode": mode, "encoding": enc})
    if not good:
        res.add("R-C16-4", ("with_file_argument", "mode/encoding"), wfa.loc(add),
                f"-f opens the file with mode={mode!r} encoding={enc!r} (expected text mode, utf-8)")
    good = newline is not None and is_const(newline, "")
    r4.ob(good, {"newline": norm(newline) if newline is not None else "universal (default)"})
    if not good:
        res.add("R-C16-4", ("with_file_argument", "newline translation"), wfa.loc(add),
                "argparse.FileType('r') without newline='' translates \\r\\n and \\r to \\n before the library sees the "
                "bytes: a CRLF file is compared/emitted as LF")
    for cname in ("set", "rm", "test"):
        r4.instances += 1
        body = ast.Module(body=cases[cname].body, type_ignores=[])
        reads = [c for c in ast.walk(body) if isinstance(c, ast.Call) and isinstance(c.func, ast.Attribute)
                 and c.func.attr in ("read", "readlines", "readline") ]
        other_inputs = [c for c in ast.walk(body) if isinstance(c, ast.Call) and (
            (isinstance(c.func, ast.Name) and c.func.id in ("open", "input"))
            or (dotted(c.func) or "").startswith("sys.stdin"))]
        good = len(reads) == 1 and (dotted(reads[0].func.value) or "").endswith(".file") and reads[0].func.attr == "read" \
            and not reads[0].args and not other_inputs
        r4.ob(good, {"case": cname, "reads": [norm(r) for r in reads]})
        if not good:
            res.add("R-C16-4", ("main", f"case {cname}", "input read"), mainf.loc(cases[cname].body[0]),
                    f"case {cname!r} does not read its input exactly once via args.file.read(): "
                    f"{[norm(r) for r in reads + other_inputs]}")

    # ---------------------------------------------------------------- R-C16-5
    r5 = res.rule("R-C16-5", "the process exit status is main()'s return value", floor=1)
    mm = prog.modules.get("nix_manipulator/__main__.py")
    if mm is None:
        raise AnalysisError("__main__.py vanished")
    r5.instances += 1
    good = False
    for n in ast.walk(mm):
        if isinstance(n, ast.Raise) and isinstance(n.exc, ast.Call) and callee(n.exc) == "SystemExit" and n.exc.args \
                and isinstance(n.exc.args[0], ast.Call) and callee(n.exc.args[0]) == "main":
            good = True
        if isinstance(n, ast.Call) and dotted(n.func) in ("sys.exit", "exit") and n.args and isinstance(n.args[0], ast.Call) \
                and callee(n.args[0]) == "main":
            good = True
    r5.ob(good, {"__main__": "raise SystemExit(main())"})
    if not good:
        res.add("R-C16-5", ("__main__", "exit status"), "nix_manipulator/__main__.py:1",
                "__main__ does not pass main()'s return value to SystemExit/sys.exit")
    # ---------------------------------------------------------------- R-C16-6 one input channel per sub-command, read afresh
    from sa.effects import memoised
    r6 = res.rule("R-C16-6", "one input option, owned by the sub-command, bound when the command line is parsed: the helper that adds "
                  "`-f/--file` (default: the process's stdin) is applied to sub-parsers only — on the root parser the sub-parser's own "
                  "default overwrites a FILE given before the sub-command, which is then opened and ignored — and none of main / build_parser / "
                  "that helper is memoised (a cached parser keeps the first call's stdin object)", floor=3)
    adders = [f for f in prog.all_functions() if f.module == "nix_manipulator/cli/parser.py" and any(
        isinstance(c, ast.Call) and callee(c) == "add_argument" and any(isinstance(a, ast.Constant) and a.value in ("-f", "--file") for a in c.args)
        for c in walk_no_nested(f.node))]
    adder_names = {f.name for f in adders if f.params()}
    bp = prog.funcs.get("build_parser")
    if bp is not None and adder_names:
        roots = {norm(d.targets[0]) for d in walk_no_nested(bp.node) if isinstance(d, ast.Assign) and isinstance(d.value, ast.Call)
                 and dotted(d.value.func).endswith("ArgumentParser")}
        for c in walk_no_nested(bp.node):
            if isinstance(c, ast.Call) and callee(c) in adder_names and c.args:
                r6.instances += 1
                ok = norm(c.args[0]) not in roots
                r6.ob(ok, {"site": bp.key, "input_option_added_to": norm(c.args[0])})
                if not ok:
                    res.add("R-C16-6", (bp.key, "input option on the root parser"), bp.loc(c),
                            f"build_parser: `{norm(c)[:60]}` adds the input option to the root parser as well: argparse lets the sub-parser's "
                            f"default (`sys.stdin`) overwrite a FILE given before the sub-command, so `nima -f broken.nix test` reads stdin "
                            f"and the two channels no longer give the same result")
    stdin_builders = adder_names | {"build_parser", "main"}  # the functions on the way from main() to `default=sys.stdin`
    for f in prog.all_functions():
        if f.module in ("nix_manipulator/cli/parser.py", MAIN) and f.name in stdin_builders:
            r6.instances += 1
            ok = not memoised(f)
            r6.ob(ok, None if ok else {"site": f.key, "memoised": True})
            if not ok:
                res.add("R-C16-6", (f.key, "memoised CLI function"), f.loc(),
                        f"{f.key} is memoised: the parser's `default=sys.stdin` is evaluated when the parser is built, so a second call of "
                        f"main() in the same process reads the first call's (exhausted) stdin while `-f FILE` stays correct")
    res.tables.append("none (idioms enumerated in the rule)")
    return res
