"""Position by value: inside a loop over a sequence, `elem == seq[-1]` (or an alias of it) is used to ask "is this the
last / first element?".  With repeated values (path `a.b.b`) the answer is wrong for the earlier occurrence."""
from __future__ import annotations

import ast

from sa.model import Program, norm, walk_no_nested
from sa.report import Results


def check(prog: Program, res: Results, rid: str, floor: int = 30) -> None:
    r = res.rule(rid, "position is decided by index, not by value: no loop over a sequence asks whether the current element is "
                 "the last/first one by comparing it with `seq[-1]` / `seq[0]` (or a local holding that) — with a repeated "
                 "segment (`a.b.b`) the earlier occurrence would be taken for the leaf", floor=floor)
    for f in prog.all_functions():
        if f.module.endswith("color.py"):
            continue
        loops = [l for l in walk_no_nested(f.node) if isinstance(l, ast.For)]
        if not loops:
            continue
        r.instances += 1
        ends = {}  # local name -> (sequence text, index)
        for d in walk_no_nested(f.node):
            if isinstance(d, ast.Assign) and len(d.targets) == 1 and isinstance(d.targets[0], ast.Name) and isinstance(d.value, ast.Subscript) \
                    and isinstance(d.value.value, ast.Name) and norm(d.value.slice) in ("-1", "0"):
                ends[d.targets[0].id] = (d.value.value.id, norm(d.value.slice))
            elif isinstance(d, ast.Assign) and isinstance(d.targets[0], (ast.Tuple, ast.List)) and isinstance(d.value, ast.Name):
                # *parents, leaf = segments
                elts = d.targets[0].elts
                if elts and isinstance(elts[-1], ast.Name) and any(isinstance(e, ast.Starred) for e in elts[:-1]):
                    ends[elts[-1].id] = (d.value.id, "-1")
                if elts and isinstance(elts[0], ast.Name) and any(isinstance(e, ast.Starred) for e in elts[1:]):
                    ends[elts[0].id] = (d.value.id, "0")
        bad = []
        for lp in loops:
            it = lp.iter
            if isinstance(it, ast.Call) and isinstance(it.func, ast.Name) and it.func.id in ("enumerate", "reversed") and it.args:
                it = it.args[0]
            if isinstance(it, ast.Subscript) and isinstance(it.slice, ast.Slice):
                it = it.value
            if not isinstance(it, ast.Name):
                continue
            seq = it.id
            elems = {x.id for x in ast.walk(lp.target) if isinstance(x, ast.Name)}
            for c in ast.walk(lp):
                if isinstance(c, ast.Compare) and len(c.ops) == 1 and isinstance(c.ops[0], (ast.Eq, ast.NotEq, ast.Is, ast.IsNot)):
                    l, rgt = c.left, c.comparators[0]
                    for a, b in ((l, rgt), (rgt, l)):
                        if isinstance(a, ast.Name) and a.id in elems:
                            if isinstance(b, ast.Subscript) and isinstance(b.value, ast.Name) and b.value.id == seq and norm(b.slice) in ("-1", "0"):
                                bad.append(c)
                            elif isinstance(b, ast.Name) and b.id in ends and ends[b.id][0] == seq:
                                bad.append(c)
        r.ob(not bad, None if not bad else {"site": f.key, "tests": [norm(c) for c in bad]})
        for c in bad:
            res.add(rid, (f.key, "position decided by value", norm(c)[:40]), f.loc(c),
                    f"{f.key}: `{norm(c)}` asks whether the loop element is at the end of the sequence by comparing values: when a path "
                    f"repeats a segment (`a.b.b`, `x.x.x`) the first occurrence is treated as the leaf — rm raises KeyError for an "
                    f"existing binding, set overwrites an intermediate set")
