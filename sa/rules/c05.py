"""C05 — a successful edit yields valid Nix with exactly the requested attribute change (three clauses)."""
from __future__ import annotations

import ast

from sa.effects import Effects
from sa.model import AnalysisError, Program, norm, walk_no_nested
from sa.report import Results
from sa.util import callee, handler_names, parent_map
from sa.rules.c12 import check_bare_names
from sa.rules import c14
from sa.tables.reviewed import Reviewed

REQUIRED_SHAPES = {"AttributeSet", "FunctionDefinition", "LetExpression", "WithStatement", "Assertion", "Parenthesis",
                   "FunctionCall", "Identifier"}
RESOLVERS = ["_resolve_target_set_from_expr", "NixSourceCode._resolve_target_set.<resolve_from_expr>"]


def case_classes(prog: Program, key: str) -> tuple[set[str], ast.Match]:
    f = prog.func(key)
    from sa.util import match_form
    ms = [n for n in walk_no_nested(match_form(f.node)) if isinstance(n, ast.Match)]
    if len(ms) != 1:
        raise AnalysisError(f"{key}: expected exactly one match statement")
    out = set()
    for c in ms[0].cases:
        pats = c.pattern.patterns if isinstance(c.pattern, ast.MatchOr) else [c.pattern]
        for p in pats:
            if isinstance(p, ast.MatchClass):
                out.add(norm(p.cls))
    return out, ms[0]


def callee_head_acceptance(prog: Program, res: Results, rid: str, rule_stats) -> None:
    """the argument of a call may be edited only when the *head* of the (possibly curried, possibly parenthesised) callee is
    function-like: wrapper classes are peeled, never accepted as such"""
    f = prog.func("_supports_attrset_argument")
    res.analysed_functions.add(f.key)
    WRAPPERS = {"FunctionCall", "Parenthesis"}
    for n in walk_no_nested(f.node):
        if isinstance(n, ast.Return) and isinstance(n.value, ast.Call) and isinstance(n.value.func, ast.Name) and n.value.func.id == "isinstance" \
                and len(n.value.args) == 2:
            rule_stats.instances += 1
            t = n.value.args[1]
            names = {norm(e) for e in (t.elts if isinstance(t, ast.Tuple) else [t])}
            bad = sorted(names & WRAPPERS)
            rule_stats.ob(not bad, {"site": f.key, "accepting_classes": sorted(names)})
            if bad:
                res.add(rid, (f.key, "wrapper class accepted as a function-like callee", ",".join(bad)), f.loc(n),
                        f"{f.key}: `{norm(n)[:80]}` accepts {bad} itself as function-like instead of walking to the head of the curried "
                        f"call: `\"prefix\" extra {{ … }}` / `import ./x.nix {{ }} {{ … }}` become editable shapes and set/rm rewrite them "
                        f"instead of refusing")


def creation_sees_inherits(prog: Program, res: Results, rid: str) -> None:
    """a name can also be defined by `inherit name;` / `inherit (src) name;`: before set creates a binding under a name, that
    kind of definition has to be ruled out as well, or the result defines the attribute twice"""
    from sa.cfg import CFG, edges_establishing
    r = res.rule(rid, "a binding is created under a name only after every kind of definition of that name in the set was ruled "
                 "out, inherit clauses included: each creating store `S[key] = …` in the CLI set functions is dominated by the "
                 "KeyError edge of the mapping lookup `S[key]` (which answers for inherited names) or by an explicit scan of the "
                 "set's Inherit entries — a miss of _find_binding alone does not rule out `inherit key;`", floor=2)
    fns = []
    for key0 in ("_set_value_in_attrset", "_resolve_npath_parent"):
        f0 = prog.func(key0)
        fns.append(f0)
        fns += list(f0.nested.values())
    for f in fns:
        key = f.key
        res.analysed_functions.add(key)
        cfg = CFG(f.node)
        value_param = next((p_ for p_ in f.params() if "value" in p_), None)
        for n in cfg.nodes:
            a = n.ast
            if not (isinstance(a, ast.Assign) and isinstance(a.targets[0], ast.Subscript) and isinstance(a.targets[0].value, ast.Name)
                    and isinstance(a.targets[0].slice, ast.Name)):
                continue
            cont, k = a.targets[0].value.id, a.targets[0].slice.id
            r.instances += 1
            # evidence 1: inside `except KeyError` of a try whose body evaluates cont[k]
            ok = False
            pm = parent_map(f.node)
            cur = a
            while cur in pm and not ok:
                cur = pm[cur]
                if isinstance(cur, ast.ExceptHandler) and "KeyError" in handler_names(cur):
                    tr = pm.get(cur)
                    if isinstance(tr, ast.Try) and any(isinstance(x, ast.Subscript) and norm(x) == f"{cont}[{k}]" for b in tr.body for x in ast.walk(b)):
                        ok = True
            # evidence 2: dominated by an explicit inherit scan (a test mentioning Inherit over cont.values) that raised / returned
            if not ok:
                scans = edges_establishing(cfg, lambda at, t: "Inherit" in norm(at) and cont in norm(at))
                scans += [(m, lab) for m in cfg.nodes if m.kind == "test" for lab in (True, False)
                          if isinstance(m.ast, ast.Call) and callee(m.ast) in ("_is_inherited", "_inherits_name", "_find_inherit") and cont in norm(m.ast)]
                scans += edges_establishing(cfg, lambda at, t: isinstance(at, ast.Call) and (callee(at) or "").find("inherit") >= 0 and cont in norm(at))
                ok = bool(scans) and cfg.all_paths_pass(n, cut_edges=scans)
            r.ob(ok, {"site": key, "creating_store": norm(a)[:60]})
            if not ok:
                res.add(rid, (key, "binding created without ruling out an inherited definition", f"{cont}[{k}]"), f.loc(a),
                        f"{key}: `{norm(a)[:60]}` creates a binding after lookups that only see `name = value;` bindings: on "
                        f"`{{ inherit meta; x = 1; }}`, `set meta '{{ }}'` appends `meta = {{ }};` next to `inherit meta;` — the attribute "
                        f"is defined twice, which Nix rejects")


def run(prog: Program) -> Results:
    res = Results("C05")
    check_bare_names(prog, res, "R-C05-1")

    # ---------------------------------------------------------------- R-C05-2
    r2 = res.rule("R-C05-2", "target resolution covers every editable wrapper, the CLI and mapping resolvers agree, and only "
                  "KeyError/ValueError leave it; no wrapper arm refuses an edit because scope resolution failed", floor=4)
    sets = {}
    for key in RESOLVERS:
        sets[key], _ = case_classes(prog, key)
        res.analysed_functions.add(key)
        r2.instances += 1
        missing = REQUIRED_SHAPES - sets[key]
        r2.ob(not missing, {"resolver": key, "cases": sorted(sets[key])})
        for m in sorted(missing):
            res.add("R-C05-2", (key, "wrapper not handled", m), prog.func(key).loc(),
                    f"{key} has no case for {m}: an edit of a document wrapped in {m} is refused because of the wrapper")
    a, b = (sets[k] for k in RESOLVERS)
    r2.ob(a == b, {"agreement": sorted(a ^ b)})
    if a != b:
        res.add("R-C05-2", ("resolvers disagree", ",".join(sorted(a ^ b))), prog.func(RESOLVERS[0]).loc(),
                f"the CLI resolver and the mapping resolver handle different shapes: {sorted(a ^ b)}")
    rev = Reviewed(prog)
    eng = Effects(prog, reviewed=rev)
    outer = eng.summarize("_resolve_target_set")
    r2.instances += 1
    for exc in sorted(outer.raises):
        ok = any(eng.is_subclass_exc(exc, x) for x in ("KeyError", "ValueError"))
        r2.ob(ok, {"_resolve_target_set escapes": exc})
        if not ok:
            res.add("R-C05-2", ("_resolve_target_set", "escapes", exc), prog.func("_resolve_target_set").loc(),
                    f"{exc} may escape edit-target resolution")
    inner = eng.summarize("_resolve_target_set_from_expr")
    r2.instances += 1
    shape_only = all(any(eng.is_subclass_exc(e, x) for x in ("ValueError",)) for e in inner.raises)
    r2.ob(shape_only, {"_resolve_target_set_from_expr raises": sorted(inner.raises)})
    if not shape_only:
        extra = sorted(e for e in inner.raises if not eng.is_subclass_exc(e, "ValueError"))
        # where does it come from
        srcs = set()
        for cs, _mp in inner.calls:
            if set(extra) & cs.raises:
                srcs.add(cs.key)
        res.add("R-C05-2", ("_resolve_target_set_from_expr", "wrapper arm refuses", ",".join(extra)),
                prog.func("_resolve_target_set_from_expr").loc(),
                f"{extra} raised by {sorted(srcs)} inside the wrapper arms makes target resolution refuse a well-formed edit of an "
                f"editable document because of its wrappers (e.g. `with p;` whose environment is a function parameter)")

    # ---------------------------------------------------------------- R-C05-3
    sub = c14.run(prog, roots=["set_value", "remove_value"], prop="C05", rid_prefix="R-C05-3")
    for rid, st in sub.rules.items():
        if rid in ("R-C05-3-1", "R-C05-3-5"):
            res.rules[rid] = st
    for f in sub.findings:
        if f.rule in ("R-C05-3-1", "R-C05-3-5"):
            res.add(f.rule, f.key, f.where, f.message)
    res.analysed_functions |= sub.analysed_functions
    res.tables += sub.tables
    # ---------------------------------------------------------------- R-C05-4 (shared with R-C10-5)
    from sa.rules import c10
    sub10 = c10.run(prog)
    st = sub10.rules.get("R-C10-5")
    r4 = res.rule("R-C05-4", "a set through a reference lands on the binding the resolver designates: chains continue with the "
                  "chain cut at the layer where the binding was found (shared with R-C10-5)", floor=6)
    if st:
        r4.instances, r4.obligations, r4.discharged = st.instances, st.obligations, st.discharged
    for fnd in sub10.findings:
        if fnd.rule == "R-C10-5":
            res.add("R-C05-4", fnd.key, fnd.where, fnd.message)
    # ---------------------------------------------------------------- R-C05-7 parenthesis transparency is uniform
    from sa.cfg import CFG, ReachingDefs
    r7 = res.rule("R-C05-7", "formatting parentheses are transparent on every path: where a class test in the CLI target resolution "
                  "sees a value that was stripped of parentheses on one incoming path, it was stripped on all of them "
                  "(a curried call `(g f) a { ... }` is walked to its head through every level; wrapper classes are never accepted as the head)", floor=4)
    for f in prog.all_functions():
        if f.module != "nix_manipulator/cli/manipulations.py":
            continue
        tests = [c for c in walk_no_nested(f.node) if isinstance(c, ast.Call) and isinstance(c.func, ast.Name) and c.func.id == "isinstance"
                 and len(c.args) == 2 and isinstance(c.args[0], ast.Name) and "Parenthesis" not in norm(c.args[1]) and norm(c.args[1]) != "str"]
        if not tests:
            continue
        cfg = CFG(f.node)
        rd = ReachingDefs(cfg)
        for c in tests:
            defs = rd.defs_for_use(c, c.args[0].id)

            def stripped(d):
                return isinstance(d, ast.Assign) and isinstance(d.value, ast.Call) and isinstance(d.value.func, ast.Name) \
                    and d.value.func.id == "_strip_parentheses"
            yes = [d for d in defs if stripped(d)]
            no = [d for d in defs if not stripped(d)]
            if not yes:
                continue
            r7.instances += 1
            r7.ob(not no, {"site": f.key, "test": norm(c)[:60], "definitions": [norm(d)[:50] if not isinstance(d, str) else d for d in defs]})
            for d in no:
                res.add("R-C05-7", (f.key, "class test reached without stripping parentheses", norm(c.args[1])[:50]), f.loc(c),
                        f"{f.key}: `{norm(c)[:70]}` is reached both with a value stripped of parentheses and with "
                        f"`{norm(d)[:60] if not isinstance(d, str) else 'the raw parameter'}`, which is not: a parenthesised expression in that "
                        f"position makes the test fail and the edit is refused because of the wrapper")
    callee_head_acceptance(prog, res, "R-C05-7", r7)
    creation_sees_inherits(prog, res, "R-C05-10")
    from sa.rules.c04 import filter_in_search
    filter_in_search(prog, res, "R-C05-11")
    from sa.rules.c04 import named_search_states_kind
    named_search_states_kind(prog, res, "R-C05-13")  # the attrpath root is found among the attrpath-derived bindings, whatever comes first
    from sa.rules.c12 import check_reader
    res.rule("R-C05-12", "the NPath reader decodes what the documentation promises: inside a quoted segment every documented escape "
             "(`\\\\`, `\\\"`, …) decodes to the character it stands for, so a quoted path addresses the binding whose name it spells "
             "(shared with R-C12-1)", floor=1)
    check_reader(prog, res, "R-C05-12")  # a quoted path segment decodes to the name it spells (shared with R-C12-1)
    from sa.rules import merge
    merge.check(prog, res, "R-C05-5", "R-C05-6")
    from sa.rules import cursor
    cursor.check(prog, res, "R-C05-8", ("cli/manipulations.py",), 4)
    from sa.rules import c09 as _shared_c09
    _sub = _shared_c09.run(prog)
    _st = _sub.rules.get("R-C09-3")
    _r = res.rule("R-C05-9", "a let layer is pruned only when nothing is left in it: removing the last plain binding keeps a layer that still holds inherit entries (shared with R-C09-3)", floor=2)
    if _st:
        _r.instances, _r.obligations, _r.discharged = _st.instances, _st.obligations, _st.discharged
    for _f in _sub.findings:
        if _f.rule == "R-C09-3":
            res.add("R-C05-9", _f.key, _f.where, _f.message)
    res.assumptions = ["the value read back equals VALUE, intermediate-set creation and pruning are runtime effects not decided here"]
    return res
