"""C04 — an edit touches only the binding it addresses (write-set confinement over the edit closure)."""
from __future__ import annotations

import ast

from sa.effects import Effects, relevant_mutation_sites
from sa.model import Program, norm, walk_no_nested
from sa.report import Results
from sa.tables.reviewed import Reviewed
from sa.util import callee, parent_map

ROOTS = ["set_value", "remove_value", "AttributeSet.__setitem__", "AttributeSet.__delitem__", "Scope.__setitem__",
         "Scope.__delitem__", "NixSourceCode.__setitem__", "NixSourceCode.__delitem__", "LetExpression.__setitem__",
         "LetExpression.__delitem__", "Identifier.value#setter"]

BINDING_CONTAINERS = {"values", "local_variables", "<self>"}
ORDER_MIRRORS = {"attrpath_order"}
STRUCTURAL_OPS_OK = {"call .append", "call .remove", "subscript __delitem__", "call .__delitem__"}
WRAPPER_FIELDS = {"scope", "scope_state"}
TRIVIA_FIELDS = {"before", "after"}
SCOPE_STATE_FIELDS = {"body_before", "body_after", "attrpath_order", "after_let_comment", "stack"}
LAYER_KEYS = ["scope", "body_before", "body_after", "attrpath_order", "after_let_comment"]


def resolve_field(fn: ast.AST, name: str | None) -> str | None:
    """a local receiver name -> the attribute it was loaded from (`x = obj.attr`, `x = self._attr()`)"""
    if name is None:
        return None
    out = set()
    for n in ast.walk(fn):
        if isinstance(n, ast.Assign) and any(isinstance(t, ast.Name) and t.id == name for t in n.targets):
            v = n.value
            if isinstance(v, ast.Attribute):
                out.add(v.attr)
            elif isinstance(v, ast.Call) and isinstance(v.func, ast.Attribute) and v.func.attr.startswith("_") and not v.args:
                out.add(v.func.attr.lstrip("_"))
            elif isinstance(v, ast.BoolOp):
                for x in v.values:
                    if isinstance(x, ast.Attribute):
                        out.add(x.attr)
    return out.pop() if len(out) == 1 else None


def classify(prog: Program, m, fn_of) -> tuple[str, str | None]:
    """-> (verdict, reason).  verdict: allowed:<class> | violation"""
    fld, op = m.fld, m.op
    f = prog.funcs[m.func]
    fn = f.node
    known = BINDING_CONTAINERS | ORDER_MIRRORS | WRAPPER_FIELDS | TRIVIA_FIELDS | SCOPE_STATE_FIELDS | {"value", "trailing", "expressions", "stack"}
    if fld not in known:
        fld = resolve_field(fn, fld) or fld
    if m.kind == "benign":
        return "allowed:benign-normalisation", None
    if fld == "value" and op == "store .value":
        if m.tcls in (None, "Binding"):
            return "allowed:binding-value", None
        return "violation", f"stores `.value` of a {m.tcls}, not of a binding"
    if m.tcls == "ScopeState" and fld in SCOPE_STATE_FIELDS and op.startswith("store"):
        return "allowed:scope-wrapper-inplace", None
    if fld in BINDING_CONTAINERS | ORDER_MIRRORS and op == "call .pop":
        # `c.pop(i)` is `del c[i]` with the element handed back: allowed with an explicit position (R-C04-2 judges the position)
        pc = next((c for c in ast.walk(m.node) if isinstance(c, ast.Call) and isinstance(c.func, ast.Attribute) and c.func.attr == "pop"), None)
        if pc is not None and len(pc.args) == 1 and not pc.keywords:
            return ("allowed:binding-container" if fld in BINDING_CONTAINERS else "allowed:order-mirror"), None
    if fld in BINDING_CONTAINERS:
        if op in STRUCTURAL_OPS_OK:
            return "allowed:binding-container", None
        return "violation", f"`{op}` on a binding container: only append (new binding goes last) and removal of the located binding are allowed"
    if fld in ORDER_MIRRORS:
        if op in STRUCTURAL_OPS_OK:
            return "allowed:order-mirror", None
        return "violation", f"`{op}` on the order cache"
    if fld in WRAPPER_FIELDS and op.startswith("store"):
        return "allowed:scope-wrapper", None
    if fld in TRIVIA_FIELDS and op.startswith("store"):
        # moving trivia between a let layer and its body: only where the same receiver's scope wrapper is (re)written
        recv = norm(m.node.targets[0].value) if isinstance(m.node, ast.Assign) and isinstance(m.node.targets[0], ast.Attribute) else None
        txt = norm(fn)
        if recv and (f"{recv}.scope = " in txt or f"_write_scope_layers({recv}," in txt):
            return "allowed:layer-trivia-move", None
        return "violation", f"writes `{fld}` (comments/blank lines) of a node whose let wrapper is not being rewritten"
    if fld == "trailing" and m.tcls == "NixSourceCode":
        if "_write_scope_layers(" in norm(fn):
            return "allowed:prune-trailing", None
        return "violation", "rewrites the file's trailing trivia outside the layer-prune path"
    if fld == "expressions" and m.tcls == "NixSourceCode" and m.func == "NixSourceCode.__setitem__":
        return "allowed:first-expression", None
    if fld == "stack" and m.func == "NixExpression.__post_init__":
        return "allowed:post-init-normalisation", None
    return "violation", f"writes `{fld}` via `{op}` — not part of the addressed binding, its containers or the scope wrappers"


def check_layer_snapshots(prog: Program, res: Results, rid: str) -> None:
    """Every ScopeLayer snapshot (dict literal / ScopeState(...) call with the layer keys) takes each field from the
    same-named field of one source object: layers are never mixed."""
    r = res.rule(rid, "scope-layer snapshots are field-wise faithful: each key is copied from the same-named field of one "
                 "source layer", floor=5)
    for f in prog.all_functions():
        for n in walk_no_nested(f.node):
            items = None
            if isinstance(n, ast.Dict) and all(isinstance(k, ast.Constant) for k in n.keys) and \
                    {k.value for k in n.keys} >= set(LAYER_KEYS):
                items = [(k.value, v) for k, v in zip(n.keys, n.values)]
            elif isinstance(n, ast.Call) and callee(n) == "ScopeState" and len(n.keywords) >= 4:
                items = [(k.arg, k.value) for k in n.keywords if k.arg]
            elif isinstance(n, ast.Call) and callee(n) == "LetExpression" and any(k.arg == "after_let_comment" for k in n.keywords):
                ren = {"local_variables": "scope"}
                items = [(ren.get(k.arg, k.arg), k.value) for k in n.keywords if k.arg in ("local_variables", "after_let_comment", "attrpath_order")]
            elif isinstance(n, ast.Call) and isinstance(n.func, ast.Name):
                tgt = None
                g = f
                while g is not None and tgt is None:
                    tgt = g.nested.get(n.func.id)
                    g = g.parent
                tgt = tgt or (prog.funcs.get(n.func.id) if n.func.id in prog.funcs and prog.funcs[n.func.id].cls is None else None)
                if tgt is not None:
                    params = [a.arg for a in tgt.node.args.posonlyargs + tgt.node.args.args]
                    if len(set(params) & set(LAYER_KEYS)) >= 4:
                        items = [(pn, a) for pn, a in zip(params, n.args)] + [(k.arg, k.value) for k in n.keywords if k.arg]
                        items = [(k, v) for k, v in items if k in LAYER_KEYS]
            if not items:
                continue
            r.instances += 1
            sources = {}
            for key, v in items:
                if key == "stack":
                    continue
                src = _field_source(v, key)
                sources[key] = src
            bases = {b for k, (b, ok) in sources.items() if ok and b is not None and k != "scope"}
            fresh = {k for k, (b, ok) in sources.items() if b is None and ok}
            bad_keys = [k for k, (b, ok) in sources.items() if not ok]
            ok = not bad_keys and len(bases) <= 1
            r.ob(ok, {"site": f.key, "snapshot": {k: norm(v)[:40] for k, v in items if k != "stack"}})
            for k in bad_keys:
                res.add(rid, (f.key, "layer field from a different field", k), f.loc(n),
                        f"in {f.key} the layer field `{k}` is filled from `{norm(dict(items)[k])[:60]}`, which is not the `{k}` of a layer")
            if len(bases) > 1:
                res.add(rid, (f.key, "layer fields from different sources"), f.loc(n),
                        f"in {f.key} one layer snapshot mixes fields of different layers: {sorted(bases)}")


def _field_source(v: ast.AST, key: str):
    """(base object text | None for a fresh/empty value, same_field_ok)"""
    e = v
    while isinstance(e, ast.Call) and callee(e) in ("list", "cast", "tuple") and e.args:
        e = e.args[-1]
    if isinstance(e, (ast.List, ast.Constant)) and not getattr(e, "elts", None):
        return None, True
    if isinstance(e, ast.Call) and callee(e) in ("Scope",) and not e.args:
        return None, True
    alias = {"scope": {"scope", "local_variables", "scope_value", "outer_scope"}, "body_before": {"body_before", "before"},
             "body_after": {"body_after", "after"}}
    names = alias.get(key, {key})
    if isinstance(e, ast.Subscript) and isinstance(e.slice, ast.Constant):
        return norm(e.value), e.slice.value in names
    if isinstance(e, ast.Attribute):
        return norm(e.value), e.attr in names
    if isinstance(e, ast.Call) and callee(e) == "get" and e.args and isinstance(e.args[0], ast.Constant):
        return norm(e.func.value), e.args[0].value in names
    if isinstance(e, ast.Name):
        return None, e.id in names or any(nm in e.id for nm in names)
    if isinstance(e, ast.IfExp):
        a, b = _field_source(e.body, key), _field_source(e.orelse, key)
        return a[0] or b[0], a[1] and b[1]
    return None, False


def run(prog: Program) -> Results:
    res = Results("C04")
    for r_ in ROOTS:
        prog.func(r_)
    rev = Reviewed(prog)
    eng = Effects(prog, reviewed=rev)
    sites = relevant_mutation_sites(eng, ROOTS)
    res.analysed_functions |= {sk[0] for sk in eng.summaries}
    r1 = res.rule("R-C04-1", "who-may-write: every document-state write reachable from set/rm/item assignment targets the "
                  "addressed binding, its containers, their order mirror, or the scope wrappers", floor=15)
    r1.instances = len(sites)
    for m in sites:
        verdict, why = classify(prog, m, None)
        r1.ob(verdict.startswith("allowed"), {"site": m.func, "statement": m.text[:80], "class": m.tcls, "field": m.fld, "op": m.op,
                                              "verdict": verdict})
        if not verdict.startswith("allowed"):
            f = prog.funcs[m.func]
            res.add("R-C04-1", (m.func, "foreign write", m.text[:100]), f.loc(m.node),
                    f"{m.func}: `{m.text[:90]}` {why}")
    # ---------------------------------------------------------------- R-C04-2
    r2 = res.rule("R-C04-2", "removal deletes exactly the located object: `del C[i]` uses the index of the loop that iterates "
                  "the same container C and found the match in this iteration", floor=3)
    for m in sites:
        if m.fld not in (BINDING_CONTAINERS | ORDER_MIRRORS):
            continue
        if m.op == "subscript __delitem__" and isinstance(m.node, ast.Delete):
            targets_ = [t for t in m.node.targets if isinstance(t, ast.Subscript)]
        elif m.op == "call .pop":
            # `c.pop(i)`: the same question as `del c[i]`
            targets_ = [ast.copy_location(ast.Subscript(value=c.func.value, slice=c.args[0], ctx=ast.Del()), c) for c in ast.walk(m.node)
                        if isinstance(c, ast.Call) and isinstance(c.func, ast.Attribute) and c.func.attr == "pop" and len(c.args) == 1]
        else:
            continue
        f = prog.funcs[m.func]
        pm = parent_map(f.node)
        for t in targets_:
            r2.instances += 1
            cont = norm(t.value)
            idx = t.slice
            ok, why = False, "the index is not a loop variable"
            if isinstance(idx, ast.Name):
                loop = None
                cur = pm.get(m.node)
                while cur is not None:
                    if isinstance(cur, ast.For) and isinstance(cur.iter, ast.Call) and callee(cur.iter) == "enumerate" \
                            and isinstance(cur.target, ast.Tuple) and isinstance(cur.target.elts[0], ast.Name) \
                            and cur.target.elts[0].id == idx.id:
                        loop = cur
                        break
                    cur = pm.get(cur)
                search = None
                # index produced by a search expression: next((i for i, x in enumerate(C) if <test on x>)[, None])
                via_next = None
                if loop is None:
                    from sa.seqbuild import _rev as _rv2
                    for a_ in ast.walk(f.node):
                        v_ = a_.value if isinstance(a_, (ast.Assign, ast.NamedExpr)) else None
                        is_t = (isinstance(a_, ast.Assign) and any(norm(t_) == idx.id for t_ in a_.targets)) or (isinstance(a_, ast.NamedExpr) and norm(a_.target) == idx.id)
                        if v_ is not None and is_t and isinstance(v_, ast.Call) and callee(v_) == "next" and v_.args and isinstance(v_.args[0], ast.GeneratorExp):
                            g_ = v_.args[0].generators[0]
                            if isinstance(g_.iter, ast.Call) and callee(g_.iter) == "enumerate" and isinstance(g_.target, ast.Tuple) \
                                    and norm(v_.args[0].elt) == norm(g_.target.elts[0]):
                                via_next = (a_, v_, g_)
                if via_next is not None:
                    a_, v_, g_ = via_next
                    elem_id = norm(g_.target.elts[1]) if len(g_.target.elts) > 1 else None
                    tested = bool(g_.ifs) and any(isinstance(x, ast.Name) and x.id == elem_id for c_ in g_.ifs for x in ast.walk(c_))
                    same = norm(_rv2(g_.iter)[0]) == cont
                    stores_ = [x for x in ast.walk(f.node) if isinstance(x, ast.Name) and x.id == idx.id and isinstance(x.ctx, ast.Store)]
                    guarded_none = len(v_.args) == 1  # no default: a miss raises StopIteration, never reaches the deletion
                    if not guarded_none:
                        from sa.cfg import CFG as _C2, edges_establishing as _ee2
                        c2 = _C2(f.node)
                        e2 = _ee2(c2, lambda at_, tr_: (norm(at_) == f"{idx.id} is not None" and tr_ is True))
                        dn = c2.containing(t) if not isinstance(m.node, ast.Delete) else c2.node_of(m.node)
                        dn = dn or c2.containing(m.node)
                        guarded_none = bool(e2) and dn is not None and c2.all_paths_pass(dn, cut_edges=e2)
                    if not same:
                        why = (f"`{idx.id}` indexes `{norm(_rv2(g_.iter)[0])}` but the deletion is from `{cont}`: the two lists are "
                               f"not index-aligned (attrpath families occupy one entry in values and several in the order)")
                    elif not (tested and guarded_none and len(stores_) == 1):
                        why = f"`{idx.id}` comes from a search that may find nothing, or does not test the element it selects"
                    else:
                        ok = True
                elif loop is None:
                    pass
                if loop is None and via_next is None:
                    # search-then-delete: `for i, x in enumerate(C): if <test on x>: break` / `else: raise|return`, deletion after the loop
                    for cand in ast.walk(f.node):
                        if isinstance(cand, ast.For) and isinstance(cand.iter, ast.Call) and callee(cand.iter) == "enumerate" \
                                and isinstance(cand.target, ast.Tuple) and isinstance(cand.target.elts[0], ast.Name) \
                                and cand.target.elts[0].id == idx.id and not any(m.node is x for x in ast.walk(cand)):
                            search = cand
                if loop is None and search is not None:
                    elem_id = getattr(search.target.elts[1], "id", None)
                    spm = parent_map(search)
                    breaks = [b for b in ast.walk(ast.Module(body=search.body, type_ignores=[])) if isinstance(b, ast.Break)]

                    def guarded(b):
                        cur_ = spm.get(b)
                        while cur_ is not None and cur_ is not search:
                            if isinstance(cur_, ast.If) and any(isinstance(x, ast.Name) and x.id == elem_id for x in ast.walk(cur_.test)):
                                return True
                            cur_ = spm.get(cur_)
                        return False

                    leaves = bool(search.orelse) and isinstance(search.orelse[-1], (ast.Raise, ast.Return))
                    stores = [x for x in ast.walk(f.node) if isinstance(x, ast.Name) and x.id == idx.id and isinstance(x.ctx, ast.Store)]
                    if norm(search.iter.args[0]) != cont:
                        why = (f"`{idx.id}` indexes `{norm(search.iter.args[0])}` but the deletion is from `{cont}`: the two lists are "
                               f"not index-aligned (attrpath families occupy one entry in values and several in the order)")
                    elif not (breaks and all(guarded(b) for b in breaks) and leaves and len(stores) == 1):
                        why = (f"`{idx.id}` comes from a search loop that can end without having found the element (no `else: raise/return`), "
                               f"or leaves it unguarded")
                    else:
                        ok = True
                elif loop is None:
                    why = f"`{idx.id}` is not the index of an enclosing enumerate() loop"
                elif norm(__import__("sa.seqbuild", fromlist=["_rev"])._rev(loop.iter)[0]) != cont:
                    why = (f"`{idx.id}` indexes `{norm(loop.iter.args[0])}` but the deletion is from `{cont}`: the two lists are "
                           f"not index-aligned (attrpath families occupy one entry in values and several in the order)")
                else:
                    # the delete must be guarded by a test on the loop's element in the same iteration
                    # (stated on paths: every way from the loop head to the deletion takes a branch that tested the element, so
                    # `if match: del …` and `if not match: continue` / `del …` are the same guard)
                    elem = loop.target.elts[1]
                    guard = None
                    from sa.cfg import CFG as _C3, edges_establishing as _ee3
                    c3 = _C3(f.node)
                    eid = getattr(elem, "id", None)
                    e3 = _ee3(c3, lambda at_, tr_: any(isinstance(x, ast.Name) and x.id == eid for x in ast.walk(at_)))
                    ln, dn3 = c3.node_of(loop), (c3.node_of(m.node) or c3.containing(m.node))
                    if ln is not None and dn3 is not None and e3 and dn3 not in c3.reachable(ln, removed_edges=e3):
                        guard = True
                    reassigned = any(isinstance(x, ast.Name) and x.id == idx.id and isinstance(x.ctx, ast.Store) for x in ast.walk(ast.Module(body=loop.body, type_ignores=[])))
                    if guard is None:
                        why = "the deletion is not guarded by a test on the loop's current element"
                    elif reassigned:
                        why = f"`{idx.id}` is modified inside the loop"
                    else:
                        ok = True
            r2.ob(ok, {"site": m.func, "delete": norm(m.node), "container": cont})
            if not ok:
                res.add("R-C04-2", (m.func, "deletes by unrelated index", norm(m.node)), f.loc(m.node),
                        f"{m.func}: `{norm(m.node)}` — {why}; a different entry than the located binding would disappear")
    check_layer_snapshots(prog, res, "R-C04-3")
    inplace = {}
    for m in sites:
        if m.tcls == "ScopeState" and m.fld in SCOPE_STATE_FIELDS and m.op.startswith("store") and m.func != "NixExpression.__post_init__":
            inplace.setdefault(m.func, set()).add(m.fld)
    for fk, flds in inplace.items():
        missing = SCOPE_STATE_FIELDS - flds
        res.rules["R-C04-3"].instances += 1
        res.rules["R-C04-3"].ob(not missing, {"site": fk, "in_place_fields": sorted(flds)})
        if missing:
            res.add("R-C04-3", (fk, "incomplete in-place layer write-back", ",".join(sorted(missing))), prog.funcs[fk].loc(),
                    f"{fk} updates a ScopeState in place but never writes {sorted(missing)}: that slot keeps the value of the "
                    f"layer that used to be outermost")
    # ---------------------------------------------------------------- R-C04-4
    from sa.effects import memoised
    r4 = res.rule("R-C04-4", "no aliasing through a memo: an object returned by a memoised function (functools.lru_cache / cache) is "
                  "the same object for every caller; none is stored into a document, where a later edit below one binding would "
                  "also change every other binding (and document) that received it", floor=len(ROOTS))
    memo = sorted(f.key for f in prog.all_functions() if memoised(f))
    seen4 = set()
    for r_ in ROOTS:
        sm = eng.summarize(r_)
        r4.instances += 1
        recs = list(sm.shared_into_doc)
        r4.ob(not recs, {"root": r_, "memoised_functions_in_package": memo, "stored_into_document": [x[2][:60] for x in recs]})
        for fk, node, text, origin in recs:
            key = (fk, "memoised object stored into the document", origin[len("G:cache:"):])
            if key in seen4:
                continue
            seen4.add(key)
            res.add("R-C04-4", key, prog.funcs[fk].loc(node),
                    f"{fk}: `{text[:90]}` stores the result of memoised `{origin[len('G:cache:'):]}` into the document: every edit "
                    f"given the same argument inserts the very same mutable object, so an edit below one of those bindings changes "
                    f"bindings it does not address")
    identity_matching(prog, res, "R-C04-7")
    from sa.rules.c01 import content_findings
    from sa.contentrule import field_table
    content_findings(prog, res, "R-C04-11", only_fields=lambda pr, c, k: field_table(pr, c).get(k) == "bool-content",
                     describe="keyword (`rec`, …)")
    res.rules["R-C04-11"].floor = 3
    res.rules["R-C04-11"].description = "keywords outside the addressed binding survive an edit that empties their construct: " + \
        res.rules["R-C04-11"].description + " (content-flow shared with R-C01-2, keyword fields only)"
    from sa.rules import poslint
    poslint.check(prog, res, "R-C04-9")
    filter_in_search(prog, res, "R-C04-10")
    named_search_states_kind(prog, res, "R-C04-15")
    from sa.rules.c12 import check_bare_names
    check_bare_names(prog, res, "R-C04-14")  # the addressed binding is found by its spelling: one way of writing a name (shared with R-C12-2)
    loop_invariant_guards(prog, res, "R-C04-12")
    # editing through a reference lands on the binding the resolver designates (shared with R-C10-5)
    from sa.rules import c10 as _c10
    _sub10 = _c10.run(prog)
    _st10 = _sub10.rules.get("R-C10-5")
    _r13 = res.rule("R-C04-13", "an edit that reaches a binding through references follows each alias in the scope chain of the place "
                    "where the alias is defined, so it cannot land on an inner binding that merely shadows the name (shared with "
                    "R-C10-5)", floor=6)
    if _st10:
        _r13.instances, _r13.obligations, _r13.discharged = _st10.instances, _st10.obligations, _st10.discharged
    for _f in _sub10.findings:
        if _f.rule == "R-C10-5":
            res.add("R-C04-13", _f.key, _f.where, _f.message)
    search_then_insert(prog, res, "R-C04-8")
    from sa.rules import merge
    merge.check(prog, res, "R-C04-5", "R-C04-6")
    res.tables.append("allowed write classes enumerated in sa/rules/c04.py:classify (derived from the mechanisms the property names)")
    res.assumptions = ["byte extents outside the target are the renderer's behaviour and are not decided here"]
    return res


def identity_matching(prog: Program, res: Results, rid: str) -> None:
    """order mirrors hold entries of *different* parents; leaves with the same last segment, value and trivia compare equal
    (dataclass equality), so the entry of the located binding must be found by identity"""
    r = res.rule(rid, "the order entry of a located binding is found by identity: loops over an `attrpath_order` list that delete "
                 "an entry compare with `is`; no equality-based search (`==`, list.remove/index/count, `in`) is applied to an "
                 "order list, where look-alike leaves of different parents are equal", floor=3)
    from sa.rules.c14 import order_exprs
    from sa.seqbuild import _rev

    def is_order(e, orders) -> bool:
        t = norm(_rev(e)[0])
        return "attrpath_order" in t or t in orders

    for f in prog.all_functions():
        if f.module.endswith("color.py"):
            continue
        orders = order_exprs(f.node)

        def deletes_from(region, it_text):
            return [d for d in ast.walk(region) if (isinstance(d, ast.Delete) and any(it_text in norm(t) for t in d.targets))
                    or (isinstance(d, ast.Call) and isinstance(d.func, ast.Attribute) and d.func.attr in ("remove", "pop") and norm(d.func.value) == it_text)]

        for n in walk_no_nested(f.node):
            # searches over an order list that lead to a deletion from it: a loop that deletes, or a generator/comprehension
            # (`next((i for i, e in enumerate(order) if …), None)`) in a function that deletes from the same list
            region = target = it = None
            if isinstance(n, ast.For) and is_order(n.iter, orders):
                region, target, it = n, n.target, _rev(n.iter)[0]
                deletes = deletes_from(n, norm(it))
            elif isinstance(n, (ast.GeneratorExp, ast.ListComp)) and is_order(n.generators[0].iter, orders):
                region, target, it = n, n.generators[0].target, _rev(n.generators[0].iter)[0]
                deletes = deletes_from(f.node, norm(it))
            if region is not None:
                if not deletes:
                    continue
                r.instances += 1
                elem = [x.id for x in ast.walk(target) if isinstance(x, ast.Name)]
                cmps = [c for c in ast.walk(region) if isinstance(c, ast.Compare) and any(e in norm(c) for e in elem)
                        and any(isinstance(op, (ast.Is, ast.IsNot, ast.Eq, ast.NotEq)) for op in c.ops)]
                eq = [c for c in cmps if any(isinstance(op, (ast.Eq, ast.NotEq)) for op in c.ops)
                      and not any(isinstance(x, ast.Constant) for x in [c.left] + c.comparators)
                      and not any(isinstance(x, ast.Attribute) and x.attr in ("name", "type") for x in [c.left] + c.comparators)]
                ident = [c for c in cmps if any(isinstance(op, (ast.Is, ast.IsNot)) for op in c.ops)
                         and not any(isinstance(x, ast.Constant) for x in c.comparators)]
                removes = [d for d in deletes if isinstance(d, ast.Call) and d.func.attr == "remove"]
                ok = bool(ident) and not eq and not removes
                r.ob(ok, {"site": f.key, "loop": norm(it)[:50], "identity_tests": [norm(c)[:50] for c in ident][:2]})
                if not ok:
                    what = eq[0] if eq else (removes[0] if removes else n)
                    res.add(rid, (f.key, "order entry matched by equality", norm(it)[:40]), f.loc(what),
                            f"{f.key}: the entry to delete from `{norm(it)[:50]}` is selected by `{norm(what)[:60]}` (equality): leaves of "
                            f"different attrpath parents with the same last segment and value are equal, so `rm services.fail2ban.enable` "
                            f"deletes the line of `services.nginx.enable`")
            elif isinstance(n, ast.Call) and isinstance(n.func, ast.Attribute) and n.func.attr in ("remove", "index", "count") \
                    and is_order(n.func.value, orders):
                inside_loop = False
                r.instances += 1
                r.ob(False, {"site": f.key, "call": norm(n)[:60]})
                res.add(rid, (f.key, "equality-based search of an order list", n.func.attr), f.loc(n),
                        f"{f.key}: `{norm(n)[:70]}` searches an order list by equality; look-alike leaves of different parents are equal")


def search_then_insert(prog: Program, res: Results, rid: str) -> None:
    """lookup-or-create: `b = find(C, k); if b is None: …; D.append(new)` — the new object must go into the container that was
    searched (and that later lookups will search), i.e. D is C"""
    r = res.rule(rid, "lookup-or-create inserts where it looked: when a binding is searched in a container and created because it "
                 "was not found, it is appended to that same container (the next lookup along the same path must find it)", floor=3)
    from sa.cfg import CFG as _CFG, edges_establishing as _ee
    for f in prog.all_functions():
        if f.module.endswith("color.py"):
            continue
        # locals that hold the result of a search, with the container that was searched
        found: dict = {}
        for d in walk_no_nested(f.node):
            if isinstance(d, (ast.Assign, ast.NamedExpr)) and isinstance(d.value, ast.Call):
                tg = d.targets[0] if isinstance(d, ast.Assign) else d.target
                if not isinstance(tg, ast.Name):
                    continue
                v, cn = d.value, callee(d.value)
                if cn in ("_find_named_binding", "_find_binding", "_find_attrpath_root") and v.args:
                    found.setdefault(tg.id, set()).add(norm(v.args[0]))
                elif cn == "next" and v.args and isinstance(v.args[0], ast.GeneratorExp):
                    from sa.seqbuild import _rev as _rv
                    found.setdefault(tg.id, set()).add(norm(_rv(v.args[0].generators[0].iter)[0]))
                elif cn == "_find_binding_index" and isinstance(v.func, ast.Attribute):
                    found.setdefault(tg.id, set()).add(norm(v.func.value))
        if not found:
            continue
        # a searched local that is itself a filter over a container (`bindings = (b for b in self.values if …)`) stands for it
        def _origin(txt, depth=0):
            ds_ = [d_ for d_ in walk_no_nested(f.node) if isinstance(d_, ast.Assign) and len(d_.targets) == 1 and norm(d_.targets[0]) == txt]
            if depth < 3 and len(ds_) == 1 and isinstance(ds_[0].value, (ast.GeneratorExp, ast.ListComp)):
                from sa.seqbuild import _rev as _rv3
                return _origin(norm(_rv3(ds_[0].value.generators[0].iter)[0]), depth + 1)
            return txt

        found = {x_: {_origin(t_) for t_ in ts_} for x_, ts_ in found.items()}
        cfg = _CFG(f.node)
        for x, searched in sorted(found.items()):
            # insertions that happen only where the search found nothing (`if x is None: …` or after `if x is not None: …; return`)
            missing = _ee(cfg, lambda a, t, _x=x: (norm(a) == f"{_x} is None" and t is True) or (norm(a) == _x and t is False))
            if not missing:
                continue
            apps = []
            for nd in cfg.nodes:
                if nd.ast is None or nd.kind not in ("stmt",):
                    continue
                for c in ast.walk(nd.ast):
                    if isinstance(c, ast.Call) and isinstance(c.func, ast.Attribute) and c.func.attr in ("append", "insert") \
                            and cfg.all_paths_pass(nd, cut_edges=missing):
                        apps.append(c)
            if not apps:
                continue
            searched = set(searched)
            searched |= {s_ + ".values" for s_ in searched} | {s_[:-7] for s_ in searched if s_.endswith(".values")}
            r.instances += 1
            targets = [norm(c.func.value) for c in apps if "attrpath_order" not in norm(c.func.value) and "order" not in norm(c.func.value).split(".")[-1]]
            bad = [t for t in targets if t not in searched]
            r.ob(not bad, {"site": f.key, "searched": sorted(searched)[:3], "inserted_into": targets})
            for t in bad:
                res.add(rid, (f.key, "created object inserted into a different container", t), f.loc(apps[0]),
                        f"{f.key}: `{x}` is looked up in {sorted(searched)[:2]} but, when missing, the new object is appended to `{t}`: "
                        f"the text may still render through an order list, but the next set/rm along the same path does not find it "
                        f"(duplicate line / KeyError)")


def filter_in_search(prog: Program, res: Results, rid: str) -> None:
    """names are not unique in a binding list (`a = { … }; a.y = 2;` parses into an explicit and an attrpath-derived `a`): a
    lookup that wants the attrpath-derived one must say so in the search; testing `.nested` on the *first* match by name and
    giving up misses the second"""
    r = res.rule(rid, "the `nested` filter is part of the search: wherever the `.nested` flag of a binding found by "
                 "_find_binding/_find_named_binding is tested, the search itself was given `nested=` — a first-match-by-name "
                 "followed by a flag test overlooks a later binding of the same name that has the wanted flag", floor=1)
    for f in prog.all_functions():
        found = {}
        for d in walk_no_nested(f.node):
            if isinstance(d, ast.Assign) and isinstance(d.targets[0], ast.Name) and isinstance(d.value, ast.Call) \
                    and callee(d.value) in ("_find_named_binding", "_find_binding"):
                found.setdefault(d.targets[0].id, []).append(d)
        for n in walk_no_nested(f.node):
            if isinstance(n, ast.Attribute) and n.attr == "nested" and isinstance(n.ctx, ast.Load) and isinstance(n.value, ast.Name) and n.value.id in found:
                r.instances += 1
                unfiltered = [d for d in found[n.value.id] if not any(k.arg == "nested" for k in d.value.keywords)]
                r.ob(not unfiltered, {"site": f.key, "flag_test": norm(n), "searches": [norm(d.value)[:60] for d in found[n.value.id]]})
                for d in unfiltered:
                    res.add(rid, (f.key, "nested flag tested after a first match by name"), f.loc(n),
                            f"{f.key}: `{norm(d)[:70]}` takes the first binding with that name and `{norm(n)}` is tested afterwards: for "
                            f"`users = {{ … }}; users.defaultUserShell = \"zsh\";` the explicit binding is found, the attrpath family is "
                            f"overlooked, and `set users.defaultUserShell` writes into the neighbouring explicit set")


def named_search_states_kind(prog: Program, res: Results, rid: str) -> None:
    """a set may hold an explicit binding `a = …;` and attrpath-derived ones `a.b = …;` under the same name: a walk that says
    which kind it wants for one segment says so for every segment"""
    r = res.rule(rid, "the searches of one path walk agree on stating the kind they look for: in a CLI function where some call of "
                 "_find_named_binding passes `nested=`, every call does — a search without it matches the first binding of either "
                 "kind, so an attrpath family root is taken for an explicit binding (or the reverse) at that one segment", floor=3)
    for f in prog.all_functions():
        if not f.module.endswith("cli/manipulations.py"):
            continue
        calls = [c for c in walk_no_nested(f.node) if isinstance(c, ast.Call) and callee(c) == "_find_named_binding"]
        stated = [c for c in calls if any(k.arg == "nested" for k in c.keywords) or len(c.args) >= 3]
        if not stated:
            continue  # a helper that looks for either kind (`_find_binding`)
        res.analysed_functions.add(f.key)
        for c in calls:
            r.instances += 1
            ok = c in stated
            r.ob(ok, {"site": f.key, "search": norm(c)[:60]})
            if not ok:
                res.add(rid, (f.key, "by-name search without the nested filter its siblings state"), f.loc(c),
                        f"{f.key}: `{norm(c)[:60]}` does not say whether it looks for an explicit binding or an attrpath-derived one, "
                        f"while the other searches of this walk do: with `a.b = 1;` in the set, a search for the explicit `a` finds the "
                        f"family root — e.g. `set @a 2` is refused or rewrites the body instead of creating the let binding")


def loop_invariant_guards(prog: Program, res: Results, rid: str) -> None:
    """a walk that stops (`break`) or removes something under a test that cannot change between iterations tests a cursor that
    is never advanced: it takes the same decision for every element"""
    r = res.rule(rid, "a per-element decision depends on the element: in the edit closure no loop takes `break` or removes/deletes "
                 "something under a test that mentions neither the loop variable nor anything assigned or mutated inside the loop "
                 "(such a test is the same for every ancestor: one emptied level prunes all of them)", floor=15)
    DESTR = {"remove", "pop", "clear"}
    for f in prog.all_functions():
        if not f.module.endswith(("cli/manipulations.py", "expressions/set.py", "expressions/scope.py")):
            continue
        for lp in walk_no_nested(f.node):
            if not isinstance(lp, ast.For):
                continue
            r.instances += 1
            lvars = {x.id for x in ast.walk(lp.target) if isinstance(x, ast.Name)}
            assigned = {x.id for st in lp.body for x in ast.walk(st) if isinstance(x, ast.Name) and isinstance(x.ctx, ast.Store)}
            dyn = lvars | assigned
            bad = []
            for st in lp.body:
                if not isinstance(st, ast.If):
                    continue
                names = {x.id for x in ast.walk(st.test) if isinstance(x, ast.Name)}
                if not names or (names & dyn):
                    continue
                acts = [x for b in (st.body, st.orelse) for y in b for x in ast.walk(y)
                        if isinstance(x, (ast.Break, ast.Delete)) or (isinstance(x, ast.Call) and isinstance(x.func, ast.Attribute) and x.func.attr in DESTR)]
                # the removal may also follow the `if … break` in the loop body
                follows = [x for y in lp.body[lp.body.index(st) + 1:] for x in ast.walk(y)
                           if isinstance(x, ast.Delete) or (isinstance(x, ast.Call) and isinstance(x.func, ast.Attribute) and x.func.attr in DESTR)]
                if any(isinstance(x, ast.Break) for x in acts) and (follows or any(not isinstance(x, ast.Break) for x in acts)):
                    bad.append(st)
            r.ob(not bad, None if not bad else {"site": f.key, "tests": [norm(b.test)[:50] for b in bad]})
            for b in bad:
                res.add(rid, (f.key, "loop-invariant test decides a per-element removal", norm(b.test)[:40]), f.loc(b),
                        f"{f.key}: `if {norm(b.test)[:50]}` is evaluated in every iteration but depends on nothing the loop changes: after "
                        f"`rm services.nginx.enable` empties `nginx`, the walk also removes the root `services` although it still has other "
                        f"children — the text (rendered from the order list) looks right, the next edit under `services` goes astray")
