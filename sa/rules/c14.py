"""C14 — the mapping API obeys dictionary laws and the rebuilt text always agrees with it."""
from __future__ import annotations

import ast

from sa.cfg import CFG
from sa.effects import Effects, relevant_mutation_sites
from sa.model import Program, alpha, norm, walk_no_nested
from sa.report import Results
from sa.tables.reviewed import Reviewed
from sa.util import callee, dotted, exc_name, parent_map

MAPPING_ROOTS = ["AttributeSet.__setitem__", "AttributeSet.__delitem__", "Scope.__setitem__", "Scope.__delitem__",
                 "NixSourceCode.__setitem__", "NixSourceCode.__delitem__", "LetExpression.__setitem__",
                 "LetExpression.__delitem__"]
EDIT_ROOTS = ["set_value", "remove_value"]
CONTAINERS = {"values", "local_variables", "<self>"}
STRUCT_OPS = {"call .append", "call .remove", "subscript __delitem__", "call .__delitem__", "call .insert", "call .pop",
              "call .extend", "call .clear"}

# structural container writes that need no mirror of their own (one line of reason each)
REVIEWED_NO_MIRROR = {  # statements alpha-normalised (locals as $1, $2, ...); original spelling in the comment
    ("_set_attrpath_value", "$1.values.append($2)"):  # current.values.append(binding)
        "creation of an intermediate nested root inside an attrpath family: rendered through the leaf's _AttrpathEntry appended below",
    ("_remove_attrpath_value", "$1.values.remove($2)#prune"):  # parent_set.values.remove(binding)
        "pruning of an emptied intermediate/root set after its last leaf (and that leaf's entry) was removed",
    ("_merge_attrpath_sets", "$1.values.append($2)"):  # target.values.append(item)
        "parse-time merge into nested sets, which never own an order list (the order is recorded on the outer set before merging)",
}


def _is_leaf_append(f, node) -> bool:
    """in _set_attrpath_value the *leaf* append is the one outside the segment loop (the intermediate creation is inside)"""
    pm_ = parent_map(f.node)
    cur_ = pm_.get(node)
    while cur_ is not None:
        if isinstance(cur_, ast.For):
            return False
        cur_ = pm_.get(cur_)
    return True


def order_exprs(fn: ast.AST) -> set[str]:
    """texts that denote an order list in this function: X.attrpath_order, locals assigned from it / from _attrpath_order()"""
    out = set()
    for n in ast.walk(fn):
        if isinstance(n, ast.Attribute) and n.attr == "attrpath_order":
            out.add(norm(n))
        if isinstance(n, ast.Assign) and ((isinstance(n.value, ast.Call) and callee(n.value) == "_attrpath_order")
                                          or (isinstance(n.value, ast.Attribute) and n.value.attr == "attrpath_order")):
            for t in n.targets:
                if isinstance(t, ast.Name):
                    out.add(t.id)  # a local that names the order list
        if isinstance(n, ast.NamedExpr) and isinstance(n.target, ast.Name) and ((isinstance(n.value, ast.Call) and callee(n.value) == "_attrpath_order")
                                                                                 or (isinstance(n.value, ast.Attribute) and n.value.attr == "attrpath_order")):
            out.add(n.target.id)
    return out


def _order_ops(region: ast.AST, tx: str | None, orders: set[str]):
    ops = []
    for n in ast.walk(region):
        if isinstance(n, ast.Call) and isinstance(n.func, ast.Attribute) and n.func.attr in ("append", "remove", "insert", "pop") \
                and (norm(n.func.value) == tx if tx else norm(n.func.value) in orders):
            ops.append(n)
        if isinstance(n, ast.Delete) and any(isinstance(x, ast.Subscript) and (norm(x.value) == tx if tx else norm(x.value) in orders) for x in n.targets):
            ops.append(n)
    return ops


def mirror_tests(cfg: CFG, orders: set[str]):
    """CFG nodes that stand for "the order list is brought in line": `if <order list>:` whose true arm performs a structural
    op on that list; a loop over the order list whose body does (a loop over an empty list is the same no-op as the guard);
    or the structural op itself when it is not under such a guard."""
    out = []
    covered = set()
    for t in cfg.nodes:
        if t.kind == "test" and isinstance(getattr(t, "stmt", None), ast.If):
            tx = norm(t.ast.target) if isinstance(t.ast, ast.NamedExpr) else norm(t.ast)  # `if (order := …):`
            if tx not in orders:
                continue
            body = ast.Module(body=t.stmt.body, type_ignores=[])
            ops = _order_ops(body, tx, orders)
            if ops:
                out.append((t, ops))
                covered |= {id(o) for o in ops}
    for t in cfg.nodes:
        if t.kind == "for" and isinstance(t.ast, ast.For):
            from sa.seqbuild import _rev
            it = _rev(t.ast.iter)[0]  # enumerate(…), list(…), `… or ()` are looked through
            tx = norm(it)
            if tx not in orders:
                continue
            ops = [o for o in _order_ops(ast.Module(body=t.ast.body, type_ignores=[]), tx, orders) if id(o) not in covered]
            if ops:
                out.append((t, ops))
                covered |= {id(o) for o in ops}
    has_removal = any(isinstance(o, ast.Delete) or (isinstance(o, ast.Call) and o.func.attr in ("remove", "pop"))
                      for t in cfg.nodes if t.ast is not None and t.kind == "stmt" for o in _order_ops(t.ast, None, orders))
    for t in cfg.nodes:
        # `pos = next((i for i, e in enumerate(<order>) if …), None)` followed by a guarded `del <order>[pos]`: the search is the
        # point every path passes; it finds nothing in an empty list
        if t.kind in ("stmt", "test") and t.ast is not None and has_removal:
            for g in ast.walk(t.ast):
                if isinstance(g, (ast.GeneratorExp, ast.ListComp)):
                    from sa.seqbuild import _rev
                    it = _rev(g.generators[0].iter)[0]
                    if norm(it) in orders and not any(t is x for x, _ in out):
                        out.append((t, []))
    for t in cfg.nodes:
        if t.kind == "stmt" and t.ast is not None:
            # only removals may go unguarded: appending to an *empty* order list would make the renderer switch to it and drop
            # every binding that is not listed
            ops = [o for o in _order_ops(t.ast, None, orders) if id(o) not in covered
                   and (isinstance(o, ast.Delete) or (isinstance(o, ast.Call) and o.func.attr in ("remove", "pop")))]
            if ops:
                out.append((t, ops))
                covered |= {id(o) for o in ops}
    return out


def run(prog: Program, roots=None, prop="C14", rid_prefix="R-C14") -> Results:
    res = Results(prop)
    roots = roots or (MAPPING_ROOTS + EDIT_ROOTS)
    rev = Reviewed(prog)
    eng = Effects(prog, reviewed=rev)
    sites = relevant_mutation_sites(eng, roots)
    res.analysed_functions |= {sk[0] for sk in eng.summaries}

    # ---------------------------------------------------------------- R-C14-1
    r1 = res.rule(f"{rid_prefix}-1", "values and attrpath_order move together: every structural write to a binding container is "
                  "post-dominated by the guarded mirror operation on the matching order list", floor=8)
    structural = [m for m in sites if m.fld in CONTAINERS and m.op in STRUCT_OPS]
    # parse-time appends of the merge helper are part of the clause too (they run on nested sets)
    if prog.has_func("_merge_attrpath_sets"):
        f = prog.func("_merge_attrpath_sets")
        for n in ast.walk(f.node):
            if isinstance(n, ast.Expr) and isinstance(n.value, ast.Call) and norm(n.value).startswith("target.values.append("):
                r1.instances += 1
                r1.ob(("_merge_attrpath_sets", alpha(n.value, f.node)) in REVIEWED_NO_MIRROR, {"site": f.key, "write": norm(n.value), "reviewed": True})
    cfgs = {}
    for m in structural:
        r1.instances += 1
        f = prog.funcs[m.func]
        stmt_text = m.text  # alpha-normalised
        rkey = (m.func, stmt_text)
        if m.func == "_remove_attrpath_value" and stmt_text == "$1.values.remove($2)":
            # two removals share this text: the leaf removal (mirrored below) and the pruning of emptied parents inside the
            # `for ... in reversed(stack[:-1])` loop; only the latter is the reviewed entry
            pm_ = parent_map(f.node)
            cur_ = pm_.get(m.node)
            in_prune_loop = False
            while cur_ is not None:
                if isinstance(cur_, ast.For) and "reversed(" in norm(cur_.iter):
                    in_prune_loop = True
                cur_ = pm_.get(cur_)
            if in_prune_loop:
                rkey = (m.func, stmt_text + "#prune")
        if rkey in REVIEWED_NO_MIRROR and not (rkey[0] == "_set_attrpath_value" and _is_leaf_append(f, m.node)):
            r1.ob(True, {"site": m.func, "write": stmt_text, "reviewed": REVIEWED_NO_MIRROR[rkey]})
            continue
        cfg = cfgs.setdefault(m.func, CFG(f.node))
        node = cfg.containing(m.node) if not isinstance(m.node, ast.stmt) else (cfg.node_of(m.node) or cfg.containing(m.node))
        orders = order_exprs(f.node)
        mts = mirror_tests(cfg, orders)
        ok = node is not None and bool(mts) and cfg.postdominated_by(node, [t for t, _ in mts])
        r1.ob(ok, {"site": m.func, "write": norm(m.node)[:70], "mirror_guard": [norm(t.ast) for t, _ in mts]})
        if not ok:
            res.add(f"{rid_prefix}-1", (m.func, "container write without order mirror", stmt_text), f.loc(m.node),
                    f"{m.func}: `{norm(m.node)[:80]}` changes a binding container but no `if <attrpath_order>: <same op on the order list>` "
                    f"follows on every path: the renderer reads attrpath_order when it is non-empty, so the text would not show the change")
    # ---------------------------------------------------------------- R-C14-2
    r2 = res.rule(f"{rid_prefix}-2", "sibling deletion/overwrite sites agree on the kinds of order entries (plain binding vs "
                  "_AttrpathEntry): a site handles both unless the binding is provably a non-nested leaf", floor=3)
    for key in ("AttributeSet.__delitem__", "Scope.__delitem__", "_remove_attrpath_value"):
        if not prog.has_func(key):
            continue
        f = prog.func(key)
        cfg = cfgs.setdefault(key, CFG(f.node))
        orders_ = order_exprs(f.node)
        pm = parent_map(f.node)
        from sa.seqbuild import _rev as _rv
        for d in [x for x in ast.walk(f.node) if isinstance(x, ast.Delete)]:
            tg = next((x for x in d.targets if isinstance(x, ast.Subscript) and norm(x.value) in orders_ and isinstance(x.slice, ast.Name)), None)
            if tg is None:
                continue
            idx, otxt = tg.slice.id, norm(tg.value)
            # the predicate that selects the entry: tests between an enclosing loop over the order list and the deletion, the
            # condition of a `next(<generator over the order list>)` that produced the index, or the test guarding `break` in
            # a search loop that precedes the deletion
            pred, elem, where = [], None, None
            cur = pm.get(d)
            chain = []
            while cur is not None:
                if isinstance(cur, ast.If):
                    chain.append(cur)
                if isinstance(cur, ast.For) and norm(_rv(cur.iter)[0]) == otxt:
                    pred, where = [c.test for c in chain], cur
                    elem = cur.target.elts[1].id if isinstance(cur.target, ast.Tuple) and len(cur.target.elts) == 2 and isinstance(cur.target.elts[1], ast.Name) \
                        else (cur.target.id if isinstance(cur.target, ast.Name) else None)
                    break
                cur = pm.get(cur)
            if where is None:
                for a in ast.walk(f.node):
                    v = a.value if isinstance(a, (ast.Assign, ast.NamedExpr)) else None
                    tgt_ok = isinstance(a, ast.Assign) and any(norm(t_) == idx for t_ in a.targets) or (isinstance(a, ast.NamedExpr) and norm(a.target) == idx)
                    if v is not None and tgt_ok and isinstance(v, ast.Call) and callee(v) == "next" and v.args and isinstance(v.args[0], ast.GeneratorExp):
                        g = v.args[0].generators[0]
                        if norm(_rv(g.iter)[0]) == otxt:
                            pred, where = list(g.ifs), a
                            elem = g.target.elts[1].id if isinstance(g.target, ast.Tuple) and len(g.target.elts) == 2 and isinstance(g.target.elts[1], ast.Name) else None
            if where is None:
                for lp in ast.walk(f.node):
                    if isinstance(lp, ast.For) and norm(_rv(lp.iter)[0]) == otxt and isinstance(lp.target, ast.Tuple) and norm(lp.target.elts[0]) == idx \
                            and not any(d is x for x in ast.walk(lp)):
                        brk = [b for b in ast.walk(lp) if isinstance(b, ast.Break)]
                        tests = []
                        for b in brk:
                            c2 = pm.get(b)
                            while c2 is not None and c2 is not lp:
                                if isinstance(c2, ast.If):
                                    tests.append(c2.test)
                                c2 = pm.get(c2)
                        pred, where = tests, lp
                        elem = lp.target.elts[1].id if isinstance(lp.target.elts[1], ast.Name) else None
            if where is None:
                continue
            r2.instances += 1
            gtxt = " and ".join(norm(p_) for p_ in pred)
            plain = any(isinstance(c, ast.Compare) and isinstance(c.ops[0], ast.Is) and isinstance(c.left, ast.Name)
                        and c.left.id == elem and isinstance(c.comparators[0], ast.Name) for p_ in pred for c in ast.walk(p_))
            entry = ".binding is" in gtxt or "'binding'" in gtxt or "_AttrpathEntry" in gtxt
            proves_leaf = key == "_remove_attrpath_value" and "leaf_nested=False" in norm(f.node)
            ok = (plain and entry) or (entry and proves_leaf)
            r2.ob(ok, {"site": key, "predicate": gtxt})
            if not ok:
                res.add(f"{rid_prefix}-2", (key, "order entry kinds"), f.loc(d),
                        f"{key} locates the order entry with `{gtxt}`: it matches plain bindings only, so deleting a binding written "
                        f"in attrpath form (a.b = …) leaves its _AttrpathEntry behind and the text still shows it")
    if prog.has_func("AttributeSet.__setitem__"):
        f = prog.func("AttributeSet.__setitem__")
        for n in ast.walk(f.node):
            if isinstance(n, ast.Assign) and norm(n.targets[0]).endswith(".value") and isinstance(n.targets[0], ast.Attribute):
                r2.instances += 1
                txt = norm(f.node)
                handles = ".nested" in txt or "_AttrpathEntry" in txt
                r2.ob(handles, {"site": f.key, "overwrite": norm(n)})
                if not handles:
                    res.add(f"{rid_prefix}-2", (f.key, "overwrite of a nested root"), f.loc(n),
                            f"{f.key} overwrites `{norm(n.targets[0])}` without looking at `.nested`: when the key is the root of an "
                            f"attrpath family the order list keeps the old leaves and the text does not change")
    # ---------------------------------------------------------------- R-C14-3
    r3 = res.rule(f"{rid_prefix}-3", "a missing key raises KeyError before any write; every normal exit of __delitem__ passed a deletion",
                  floor=3)
    for key in ("AttributeSet.__delitem__", "Scope.__delitem__", "LetExpression.__delitem__"):
        f = prog.func(key)
        cfg = cfgs.setdefault(key, CFG(f.node))
        r3.instances += 1
        raises = [n for n in cfg.nodes if n.kind == "raise" and exc_name(n.ast.exc) == "KeyError"]
        dels = [n for n in cfg.nodes if isinstance(n.ast, ast.Delete) or (isinstance(n.ast, (ast.Expr, ast.Assign)) and isinstance(n.ast.value, ast.Call)
                and callee(n.ast.value) in ("__delitem__", "remove", "pop"))]  # `removed = xs.pop(i)` deletes as well
        str_path_exits = True
        if key == "Scope.__delitem__":
            # list-style integer/slice deletion delegates to list: only the str branch is the mapping API
            pass
        ok = bool(raises) and bool(dels) and cfg.all_paths_pass(cfg.exit, cut_nodes=dels)
        r3.ob(ok, {"site": key, "raise_KeyError": len(raises), "deletes": len(dels)})
        if not raises:
            res.add(f"{rid_prefix}-3", (key, "no KeyError"), f.loc(), f"{key} never raises KeyError for a missing key")
        elif not ok:
            res.add(f"{rid_prefix}-3", (key, "silent miss"), f.loc(),
                    f"{key} can return normally without having deleted anything (a missing key must raise KeyError)")
    for key in ("AttributeSet.__getitem__", "LetExpression.__getitem__", "Scope.get_binding"):
        f = prog.func(key)
        cfg = cfgs.setdefault(key, CFG(f.node))
        r3.instances += 1
        bare = [n for n in cfg.nodes if n.kind == "return" and (n.ast.value is None or (isinstance(n.ast.value, ast.Constant) and n.ast.value.value is None))]
        falls = any(lab is not None or p.kind not in ("return",) for lab, p in cfg.exit.pred if p.kind != "return")
        raises = [n for n in cfg.nodes if n.kind == "raise" and exc_name(n.ast.exc) == "KeyError"]
        ok = not bare and not falls and bool(raises)
        r3.ob(ok, {"site": key, "all_exits": "value or KeyError"})
        if not ok:
            res.add(f"{rid_prefix}-3", (key, "lookup may return None"), f.loc(),
                    f"{key} has an exit that returns nothing instead of raising KeyError")
    # KeyError is raised in state CLEAN: the mutate-then-raise analysis restricted to the dunders
    for root in MAPPING_ROOTS:
        s = eng.summarize(root)
        for rec in s.raise_after_mut:
            if rec.exc in ("KeyError",):
                res.add(f"{rid_prefix}-3", (rec.func, rec.mut_text, rec.raise_text), f"{rec.file}:{rec.raise_line}",
                        f"KeyError after mutation: in {rec.func} `{rec.mut_text}` can be followed by `{rec.raise_text}`")
    # ---------------------------------------------------------------- R-C14-4
    r4 = res.rule(f"{rid_prefix}-4", "the document mapping resolves its target set on every access (no cached set that can go stale)",
                  floor=3)
    for key in ("NixSourceCode.__getitem__", "NixSourceCode.__setitem__", "NixSourceCode.__delitem__"):
        f = prog.func(key)
        r4.instances += 1
        subs = [n for n in walk_no_nested(f.node) if isinstance(n, ast.Subscript) and isinstance(n.value, ast.Name) and n.value.id != "self"]
        direct = [n for n in walk_no_nested(f.node) if isinstance(n, ast.Subscript) and isinstance(n.value, ast.Call)
                  and dotted(n.value.func) == "self._resolve_target_set"]  # self._resolve_target_set()[key]: resolved in this very access
        ok = True
        why = ""
        for sub in subs:
            defs = [d for d in ast.walk(f.node) if isinstance(d, ast.Assign) and any(isinstance(t, ast.Name) and t.id == sub.value.id for t in d.targets)]
            def fresh_resolution(v, depth=0):
                if isinstance(v, ast.Call) and dotted(v.func) == "self._resolve_target_set":
                    return True
                if isinstance(v, ast.Call) and isinstance(v.func, ast.Attribute) and isinstance(v.func.value, ast.Name) \
                        and v.func.value.id == "self" and depth < 2:
                    h = prog.method("NixSourceCode", v.func.attr)
                    if h is None or h.node.decorator_list:
                        return False
                    if any(isinstance(x, ast.Attribute) and isinstance(x.ctx, ast.Store) and isinstance(x.value, ast.Name)
                           and x.value.id == "self" for x in ast.walk(h.node)):
                        return False
                    rets = [x for x in ast.walk(h.node) if isinstance(x, ast.Return)]
                    return bool(rets) and all(fresh_resolution(x.value, depth + 1) for x in rets)
                return False

            if not defs or not all(fresh_resolution(d.value) for d in defs):
                ok = False
                why = f"`{norm(sub)}`: `{sub.value.id}` is not the result of self._resolve_target_set() computed in this call"
        stores = [n for n in walk_no_nested(f.node) if isinstance(n, ast.Attribute) and isinstance(n.ctx, ast.Store)
                  and isinstance(n.value, ast.Name) and n.value.id == "self" and n.attr != "expressions"]
        if stores:
            ok = False
            why = f"stores `{norm(stores[0])}`"
        if not subs and not direct and key != "NixSourceCode.__setitem__":
            ok = False
            why = "no delegation to the target set found"
        r4.ob(ok, {"site": key})
        if not ok:
            res.add(f"{rid_prefix}-4", (key, "target set not resolved per access"), f.loc(),
                    f"{key}: {why}; a cached target set goes stale when the binding that defines it is reassigned")
    # the mirrored deletion must delete the located entry (shared with R-C04-2)
    from sa.rules import c04
    sub = c04.run(prog)
    r5 = res.rule(f"{rid_prefix}-5", "order/container deletions use the index of the loop over the same list (shared with R-C04-2)", floor=3)
    st = sub.rules.get("R-C04-2")
    if st:
        r5.instances, r5.obligations, r5.discharged = st.instances, st.obligations, st.discharged
    for fnd in sub.findings:
        if fnd.rule == "R-C04-2":
            res.add(f"{rid_prefix}-5", fnd.key, fnd.where, fnd.message)
    rts = prog.func("NixSourceCode._resolve_target_set")
    cache_like = [n for n in ast.walk(rts.node) if isinstance(n, ast.Attribute) and isinstance(n.ctx, ast.Store) and isinstance(n.value, ast.Name) and n.value.id == "self"]
    r4.instances += 1
    r4.ob(not cache_like and not rts.node.decorator_list, {"site": rts.key, "stateless": True})
    if cache_like or rts.node.decorator_list:
        res.add(f"{rid_prefix}-4", (rts.key, "resolver keeps state"), rts.loc(),
                f"{rts.key} stores state on the document / is decorated: the resolved target set may be stale on a later access")
    if prop in ("C14", "C13"):
        mirrors_follow_values(prog, res, f"{rid_prefix}-13")
    if prop == "C14":
        from sa import lints as _lints
        r12 = res.rule(f"{rid_prefix}-12", "a list used as a manual stack is balanced: in a function that both appends to and pops from "
                       "the same list, every path from a push to the end of the iteration / function passes a pop (the attrpath "
                       "expansion prints each leaf under the path that is on the stack at that moment)", floor=40)
        for f in prog.all_functions():
            if not f.module.startswith("nix_manipulator/expressions/"):
                continue
            r12.instances += 1
            bad = _lints.unbalanced_push(f)
            r12.ob(not bad, None if not bad else {"site": f.key, "pushes": [norm(c)[:50] for c, _s in bad]})
            for c, st in bad:
                res.add(f"{rid_prefix}-12", (f.key, "push without pop on some path", st), f.loc(c),
                        f"{f.key}: `{norm(c)[:60]}` is not followed by `{st}.pop()` on every path: whatever is rendered afterwards is "
                        f"printed under a stale path prefix (`services.timeout` appears as `services.nginx.timeout`), so the text "
                        f"shows a binding the mapping does not have")
        from sa.rules import c08 as _c08
        _eng, _rev, _sums = _c08.analyse_roots(prog, _c08.MAPPING_ROOTS)
        _closure, _bk = _c08.closure_of(_eng, _c08.MAPPING_ROOTS)
        _c08.fallback_handlers(prog, res, _closure, rid=f"{rid_prefix}-11", eng=_eng, bykey=_bk)
        from sa.rules.c01 import content_findings
        content_findings(prog, res, f"{rid_prefix}-10", only_fields=lambda pr, c, k: k in ("values", "local_variables", "scope", "expressions"),
                         describe="binding-container")
        res.rules[f"{rid_prefix}-10"].floor = 3
        order_accessor(prog, res, f"{rid_prefix}-9")
        from sa.rules import cursor
        cursor.check(prog, res, "R-C14-8", ("expressions/set.py", "expressions/scope.py", "expressions/source_code.py", "expressions/let.py"), 1)
        lookup_failures(prog, res, f"{rid_prefix}-6")
        malformed_key_is_missing(prog, res, f"{rid_prefix}-17")
        positions_are_own(prog, res, f"{rid_prefix}-14")
        from sa.rules import merge as _merge
        _merge.check(prog, res, f"{rid_prefix}-15", f"{rid_prefix}-16")  # one tree per attrpath family: what the text shows is what lookups walk
        identity_of_bindings(prog, res, f"{rid_prefix}-7")
    res.tables.append(f"sa/rules/c14.py:REVIEWED_NO_MIRROR ({len(REVIEWED_NO_MIRROR)} entries)")
    return res


MAPPING_CLASSES = {"AttributeSet", "NixSourceCode", "Scope", "LetExpression", "WithStatement", "Import", "NixList"}


def returns_mapping(prog: Program, g, seen=None) -> bool:
    """every `return` of g yields a package mapping: annotated so, or each returned name is established by an isinstance test /
    a `case Class()` arm on it, or is the result of a call that itself returns a mapping (recursion included)"""
    from sa.cfg import CFG, edges_establishing
    from sa.util import callee, parent_map
    seen = seen or set()
    if g.key in seen:
        return True
    seen = seen | {g.key}
    ret = ast.unparse(g.node.returns).replace('"', "") if g.node.returns is not None else ""
    if ret and "Any" not in ret and any(c in ret for c in MAPPING_CLASSES) and "None" not in ret:
        return True
    rets = [rt for rt in walk_no_nested(g.node) if isinstance(rt, ast.Return)]
    if not rets:
        return False
    cfg = CFG(g.node)
    pm = parent_map(g.node)
    for rt in rets:
        v = rt.value
        if v is None:
            return False
        if isinstance(v, ast.Call):
            tgt = None
            if isinstance(v.func, ast.Name):
                h = g
                while h is not None and tgt is None:
                    tgt = h.nested.get(v.func.id)
                    h = h.parent
                tgt = tgt or (prog.funcs.get(v.func.id) if v.func.id in prog.funcs and prog.funcs[v.func.id].cls is None else None)
            elif isinstance(v.func, ast.Attribute) and isinstance(v.func.value, ast.Name) and v.func.value.id == "self" and g.cls:
                tgt = prog.method(g.cls, v.func.attr)
            if tgt is None or not returns_mapping(prog, tgt, seen):
                return False
            continue
        if isinstance(v, ast.Name):
            e = edges_establishing(cfg, lambda a, t, _x=v.id: t is True and isinstance(a, ast.Call) and callee(a) == "isinstance" and a.args
                                   and norm(a.args[0]) == _x and any(c in norm(a.args[1]) for c in MAPPING_CLASSES))
            node = cfg.containing(rt)
            if e and node is not None and cfg.all_paths_pass(node, cut_edges=e):
                continue
            cur, ok = rt, False
            while cur in pm:
                par = pm[cur]
                if isinstance(par, ast.match_case) and isinstance(pm.get(par), ast.Match) and norm(pm[par].subject) == v.id:
                    pats = par.pattern.patterns if isinstance(par.pattern, ast.MatchOr) else [par.pattern]
                    ok = all(isinstance(p_, ast.MatchClass) and norm(p_.cls) in MAPPING_CLASSES for p_ in pats)
                    break
                cur = par
            if ok:
                continue
            # `x = y if isinstance(y, Mapping) else None` (or a helper answering "the mapping or None") … `if x is not None: return x`
            defs_ = [d for d in walk_no_nested(g.node) if (isinstance(d, ast.Assign) and any(norm(t_) == v.id for t_ in d.targets))
                     or (isinstance(d, ast.NamedExpr) and norm(d.target) == v.id)]

            def mapping_or_none(e, depth=0) -> bool:
                if isinstance(e, ast.Constant) and e.value is None:
                    return True
                if isinstance(e, ast.IfExp):
                    t_, neg = e.test, False
                    while isinstance(t_, ast.UnaryOp) and isinstance(t_.op, ast.Not):
                        t_, neg = t_.operand, not neg
                    yes, no = (e.orelse, e.body) if neg else (e.body, e.orelse)
                    if isinstance(t_, ast.Call) and callee(t_) == "isinstance" and len(t_.args) == 2 and norm(t_.args[0]) == norm(yes) \
                            and any(c in norm(t_.args[1]) for c in MAPPING_CLASSES):
                        return mapping_or_none(no, depth + 1) or False
                    return mapping_or_none(e.body, depth + 1) and mapping_or_none(e.orelse, depth + 1)
                if isinstance(e, ast.Call) and isinstance(e.func, ast.Name) and depth < 3:
                    h = g
                    tgt_ = None
                    while h is not None and tgt_ is None:
                        tgt_ = h.nested.get(e.func.id)
                        h = h.parent
                    tgt_ = tgt_ or (prog.funcs.get(e.func.id) if e.func.id in prog.funcs and prog.funcs[e.func.id].cls is None else None)
                    if tgt_ is not None:
                        rr = [x for x in walk_no_nested(tgt_.node) if isinstance(x, ast.Return)]
                        sub_cfg = CFG(tgt_.node)
                        for x in rr:
                            if x.value is None or (isinstance(x.value, ast.Constant) and x.value.value is None):
                                continue
                            if mapping_or_none(x.value, depth + 1):
                                continue
                            if isinstance(x.value, ast.Name):
                                ee = edges_establishing(sub_cfg, lambda a, t, _x=x.value.id: t is True and isinstance(a, ast.Call) and callee(a) == "isinstance"
                                                        and a.args and norm(a.args[0]) == _x and any(c in norm(a.args[1]) for c in MAPPING_CLASSES))
                                nn = sub_cfg.containing(x)
                                if ee and nn is not None and sub_cfg.all_paths_pass(nn, cut_edges=ee):
                                    continue
                            return False
                        return bool(rr)
                return False

            if defs_ and all(mapping_or_none(d.value) for d in defs_):
                e2 = edges_establishing(cfg, lambda a, t, _x=v.id: (norm(a) == f"{_x} is not None" and t is True) or (norm(a) == _x and t is True))
                if e2 and node is not None and cfg.all_paths_pass(node, cut_edges=e2):
                    continue
        return False
    return True


def lookup_failures(prog: Program, res: Results, rid: str) -> None:
    """a key lookup on a mapping fails with KeyError: an item access `x[key]` inside a mapping dunder is applied only to a value
    that is known to be a mapping (self, a call annotated to return one, or guarded by isinstance / hasattr)"""
    from sa.cfg import CFG, ReachingDefs, edges_establishing
    from sa.util import callee, handler_names, parent_map
    r = res.rule(rid, "a missing key raises KeyError, not TypeError: inside __getitem__/__setitem__/__delitem__ every key access "
                 "`x[key]` is applied to self, to the result of a function annotated to return a package mapping, or under an "
                 "isinstance/hasattr guard (or inside `try … except TypeError`)", floor=3)
    for f in prog.all_functions():
        if not (f.cls in MAPPING_CLASSES and f.name in ("__getitem__", "__setitem__", "__delitem__", "__contains__")):
            continue
        subs = [n for n in walk_no_nested(f.node) if isinstance(n, ast.Subscript) and isinstance(n.value, ast.Name) and n.value.id != "self"
                and isinstance(n.slice, (ast.Name, ast.Attribute))]
        if not subs:
            continue
        cfg = CFG(f.node)
        rd = ReachingDefs(cfg)
        pm = parent_map(f.node)
        res.analysed_functions.add(f.key)
        for n in subs:
            x = n.value.id
            # index-like keys (enumerate / range counters) are list positions, not mapping keys
            if isinstance(n.slice, ast.Name) and any(isinstance(l, ast.For) and isinstance(l.iter, ast.Call) and callee(l.iter) in ("enumerate", "range")
                                                     and n.slice.id in {y.id for y in ast.walk(l.target) if isinstance(y, ast.Name)} for l in ast.walk(f.node)):
                continue
            r.instances += 1
            defs = rd.defs_for_use(n, x)
            why = []
            for d in defs:
                v = d.value if isinstance(d, (ast.Assign, ast.AnnAssign)) else None
                ok_d = False
                if isinstance(v, ast.Name) and v.id == "self":
                    ok_d = True
                elif isinstance(v, ast.Call):
                    tgt = None
                    if isinstance(v.func, ast.Attribute) and isinstance(v.func.value, ast.Name) and v.func.value.id == "self":
                        tgt = prog.method(f.cls, v.func.attr)
                    elif isinstance(v.func, ast.Name) and v.func.id in prog.funcs:
                        tgt = prog.funcs[v.func.id]
                    if tgt is not None:
                        ret = ast.unparse(tgt.node.returns) if tgt.node.returns is not None else ""
                        if any(c in ret.replace('"', "") for c in MAPPING_CLASSES) and "Any" not in ret:
                            ok_d = True
                        elif returns_mapping(prog, tgt):
                            ok_d = True
                        elif tgt.name in ("_follow_import",):
                            rets = [rt for rt in ast.walk(tgt.node) if isinstance(rt, ast.Return) and rt.value is not None]
                            ok_d = bool(rets) and all(isinstance(rt.value, ast.Call) and callee(rt.value) == "parse_file" for rt in rets)
                if not ok_d:
                    why.append(norm(d)[:50] if not isinstance(d, str) else "parameter")
            guarded = False
            if why:
                e = edges_establishing(cfg, lambda a, t, _x=x: t is True and isinstance(a, ast.Call) and callee(a) in ("isinstance", "hasattr")
                                       and a.args and norm(a.args[0]) == _x and (callee(a) == "hasattr" or any(c in norm(a.args[1]) for c in MAPPING_CLASSES)))
                node = cfg.containing(n)
                guarded = bool(e) and node is not None and cfg.all_paths_pass(node, cut_edges=e)
                cur = n
                while not guarded and cur in pm:
                    cur = pm[cur]
                    if isinstance(cur, ast.Try) and any(set(handler_names(h)) & {"TypeError", "Exception", None} for h in cur.handlers) \
                            and any(n is y for b in cur.body for y in ast.walk(b)):
                        guarded = True
            ok = not why or guarded
            r.ob(ok, {"site": f.key, "access": norm(n), "definitions": [norm(d)[:40] if not isinstance(d, str) else d for d in defs]})
            if not ok:
                res.add(rid, (f.key, "key access on a value of unknown kind", norm(n)), f.loc(n),
                        f"{f.key}: `{norm(n)}` indexes `{x}`, which may be any document value here ({'; '.join(why)[:100]}): when a prefix of "
                        f"the key is bound to a number, string or list the lookup of the missing key escapes with TypeError instead of "
                        f"KeyError")


def malformed_key_is_missing(prog: Program, res: Results, rid: str) -> None:
    """a key nothing is bound to raises KeyError also when it cannot be split into path segments: inside the read/delete dunders of
    a mapping class a call that hands the key to a package function raising ValueError on malformed text sits inside a
    `try … except ValueError` (the handler is then judged by the existing exit rules)"""
    from sa.util import callee, handler_names, parent_map
    r = res.rule(rid, "a missing key raises KeyError, not ValueError: inside __getitem__/__delitem__/__contains__ of a mapping class every "
                 "call that hands the key to a package function which itself raises ValueError (the attrpath splitter) is enclosed in "
                 "`try … except ValueError` (or a wider handler)", floor=1)
    raisers = set()
    for g in prog.all_functions():
        if g.cls is not None:
            continue
        pm_g = parent_map(g.node)
        for n in walk_no_nested(g.node):
            if isinstance(n, ast.Raise) and n.exc is not None and (callee(n.exc) if isinstance(n.exc, ast.Call) else norm(n.exc)) == "ValueError":
                cur, caught = n, False
                while cur in pm_g:
                    cur = pm_g[cur]
                    if isinstance(cur, ast.Try) and any(set(handler_names(h)) & {"ValueError", "Exception", None} for h in cur.handlers) \
                            and any(n is y for b in cur.body for y in ast.walk(b)):
                        caught = True
                if not caught:
                    raisers.add(g.name)
    for f in prog.all_functions():
        if not (f.cls in MAPPING_CLASSES and f.name in ("__getitem__", "__delitem__", "__contains__")):
            continue
        ps = f.params()
        if len(ps) < 2:
            continue
        key = ps[1]
        pm = parent_map(f.node)
        for c in walk_no_nested(f.node):
            if not (isinstance(c, ast.Call) and isinstance(c.func, ast.Name) and c.func.id in raisers and c.func.id in prog.funcs
                    and any(isinstance(y, ast.Name) and y.id == key for a in c.args for y in ast.walk(a))):
                continue
            r.instances += 1
            res.analysed_functions.add(f.key)
            cur, guarded = c, False
            while cur in pm:
                cur = pm[cur]
                if isinstance(cur, ast.Try) and any(set(handler_names(h)) & {"ValueError", "Exception", None} for h in cur.handlers) \
                        and any(c is y for b in cur.body for y in ast.walk(b)):
                    guarded = True
            r.ob(guarded, {"site": f.key, "call": norm(c)[:60]})
            if not guarded:
                res.add(rid, (f.key, "malformed key escapes as ValueError", c.func.id), f.loc(c),
                        f"{f.key}: `{norm(c)[:60]}` raises ValueError on a key that is not a well-formed path (`c..d`, `c.`, an unterminated "
                        f"quote) and nothing here turns it into KeyError: a lookup or deletion of such a — necessarily missing — key escapes "
                        f"with ValueError")


def identity_of_bindings(prog: Program, res: Results, rid: str) -> None:
    """bindings are shared by identity between `values` and the render order (`attrpath_order`, `_AttrpathEntry.binding`, also
    in the *parent* set and in let layers): an update must mutate the located Binding, never substitute a copy"""
    from sa.util import callee
    r = res.rule(rid, "updating an existing key mutates the located Binding in place: no mapping dunder stores a new object into a "
                 "slot of `values` / a scope (`c[i] = …`), because parents and let layers render the same binding through "
                 "identity-shared order entries that such a substitution cannot reach", floor=4)
    for f in prog.all_functions():
        if not (f.cls in MAPPING_CLASSES and f.name in ("__setitem__", "__delitem__")):
            continue
        r.instances += 1
        bad = []
        for n in walk_no_nested(f.node):
            if isinstance(n, ast.Assign):
                for t in n.targets:
                    if isinstance(t, ast.Subscript) and not isinstance(t.slice, ast.Slice):
                        base = norm(t.value)
                        if base in ("self.values", "self", "self.local_variables", "self.scope") or base.endswith(".values"):
                            bad.append((n, base))
        r.ob(not bad, {"site": f.key})
        for n, base in bad:
            res.add(rid, (f.key, "binding object substituted", base), f.loc(n),
                    f"{f.key}: `{norm(n)[:70]}` replaces an element of `{base}` by another object: order entries held by the parent set / "
                    f"let layer (`_AttrpathEntry.binding`) still point at the old Binding, so the rebuilt text keeps the old value while "
                    f"lookups report the new one")


def order_accessor(prog: Program, res: Results, rid: str) -> None:
    """Scope._attrpath_order is what every scope mutation uses to find the mirror list: it may answer None only when there
    is no owner / no state (nothing to mirror) or the list is empty; any other None silently skips the mirror update"""
    from sa.cfg import CFG, edges_establishing
    r = res.rule(rid, "the scope's order accessor is total: `Scope._attrpath_order` returns None only under `owner is None` / "
                 "`state is None` (or for an empty list); a mutation can then never skip the mirror update while a list exists", floor=2)
    f = prog.func("Scope._attrpath_order")
    res.analysed_functions.add(f.key)
    cfg = CFG(f.node)
    absent = edges_establishing(cfg, lambda a, t: isinstance(a, ast.Compare) and len(a.ops) == 1 and isinstance(a.comparators[0], ast.Constant)
                                and a.comparators[0].value is None and isinstance(a.left, ast.Name)
                                and ((isinstance(a.ops[0], ast.Is) and t is True) or (isinstance(a.ops[0], ast.IsNot) and t is False)))
    for n in cfg.nodes:
        if n.kind == "return":
            v = n.ast.value
            r.instances += 1
            if v is None or (isinstance(v, ast.Constant) and v.value is None):
                ok = bool(absent) and cfg.all_paths_pass(n, cut_edges=absent)
                r.ob(ok, {"return": "None", "only_when_absent": ok})
                if not ok:
                    res.add(rid, (f.key, "order list hidden although it exists"), f.loc(n.ast),
                            f"{f.key}: `return None` is reachable when owner and state exist: `del scope[k]` / `scope[k] = v` then skip the "
                            f"mirror update of attrpath_order, so a deleted binding keeps being rendered (or a new one is not) while the "
                            f"mapping reports otherwise")
            else:
                ok = "attrpath_order" in norm(v)
                r.ob(ok, {"return": norm(v)[:50]})
                if not ok:
                    res.add(rid, (f.key, "accessor returns something else"), f.loc(n.ast), f"{f.key} returns `{norm(v)[:50]}`, not the state's attrpath_order")


def mirrors_follow_values(prog: Program, res: Results, rid: str) -> None:
    """any per-set structure that remembers bindings of `values` (an order list, a by-name index, …) must be maintained by
    every method of the class that adds to or removes from `values`; a method that forgets one leaves it stale"""
    from sa.util import callee
    r = res.rule(rid, "every structure of a mapping class that remembers bindings of its binding list is maintained by every method "
                 "that adds to or removes from that list: a by-name index or cache written in one mutator is also written (or "
                 "cleared) in all the others", floor=2)
    MUT = {"append", "remove", "insert", "pop", "clear", "extend"}
    for cname, container in (("AttributeSet", "values"), ("LetExpression", "local_variables")):
        c = prog.classes.get(cname)
        if c is None:
            continue
        methods = [m for m in c.methods.values() if m.kind == "method" and m.name not in ("from_cst", "from_dict", "rebuild", "__post_init__", "__init__")]

        def writes(m, fld):
            out = []
            for n in ast.walk(m.node):
                if isinstance(n, ast.Call) and isinstance(n.func, ast.Attribute) and n.func.attr in (MUT | {"update", "setdefault", "__setitem__", "add", "discard"}) \
                        and norm(n.func.value) == f"self.{fld}":
                    out.append(n)
                elif isinstance(n, (ast.Assign, ast.AugAssign, ast.Delete)):
                    tg = n.targets if isinstance(n, (ast.Assign, ast.Delete)) else [n.target]
                    for t in tg:
                        if isinstance(t, ast.Subscript) and norm(t.value) == f"self.{fld}":
                            out.append(n)
                        elif isinstance(t, ast.Attribute) and norm(t) == f"self.{fld}" and not isinstance(n, ast.Delete):
                            out.append(n)
            return out

        mutators = [m for m in methods if writes(m, container)]
        # mirror candidates: other fields of the class into which a method stores something while it also reads/writes the container
        fields = [f_ for f_ in prog.fields(cname) if f_ != container]
        for fld in fields:
            writers = [m for m in methods if writes(m, fld)]
            if not writers:
                continue
            # does the field hold bindings?  (stored values are locals that also go into / come from the container)
            holds = False
            for m in writers:
                for w in writes(m, fld):
                    names = {x.id for x in ast.walk(w) if isinstance(x, ast.Name)}
                    for x in ast.walk(m.node):
                        if isinstance(x, ast.Call) and isinstance(x.func, ast.Attribute) and x.func.attr in ("append", "insert") \
                                and norm(x.func.value) == f"self.{container}" and any(isinstance(a, ast.Name) and a.id in names for a in x.args):
                            holds = True
                        if isinstance(x, ast.For) and norm(x.iter) == f"self.{container}" and any(
                                isinstance(t, ast.Name) and t.id in names for t in ast.walk(x.target)):
                            holds = True
            if not holds:
                continue
            for m in mutators:
                r.instances += 1
                ok = bool(writes(m, fld))
                r.ob(ok, {"class": cname, "mirror": fld, "mutator": m.key, "maintains": ok})
                if not ok:
                    res.add(rid, (m.key, "mutator does not maintain a structure that remembers bindings", fld), m.loc(),
                            f"{m.key} changes `self.{container}` but never touches `self.{fld}`, which {', '.join(w.key for w in writers)[:80]} fill "
                            f"with bindings of that list: after `del s[k]` the remembered binding is still found, so `s[k] = v` updates the "
                            f"detached binding and the key never reappears in the text")


def positions_are_own(prog: Program, res: Results, rid: str) -> None:
    """R-C14-14: a by-name operation of the scope list addresses the element it looked up"""
    from sa import indexalign
    r = res.rule(rid, "positions address the list they were computed on: where a by-name method of Scope (a list subclass) reads, "
                 "replaces or deletes `self[<position>]`, the position is the enumerate counter of a loop over `self` itself, or "
                 "`.index()` on a list with one entry per item of `self` — never a position in a filtered copy", floor=3)
    if "Scope" not in prog.classes:
        res.unclass("class Scope not found")
        return
    for f in prog.all_functions():
        if f.cls != "Scope" or f.parent is not None:
            continue
        for node, idx in indexalign.self_index_uses(f):
            if not isinstance(idx, ast.Name):
                continue
            if idx.id in f.params():
                continue  # the caller's own position (list protocol: `scope[3]`), not a by-name lookup
            r.instances += 1
            res.analysed_functions.add(f.key)
            orig = indexalign.origins(prog, f, idx)
            bad = [w for k, w in orig if k == "misaligned"] + [f"it is a position in `{w}`, not in the scope list" for k, w in orig if k == "aligned" and w != "self"]
            unknown = [w for k, w in orig if k == "unknown"]
            r.ob(not bad, {"site": f.key, "use": norm(node)[:50], "position_from": sorted({f"{k}:{w}" for k, w in orig})[:4]})
            if bad:
                res.add(rid, (f.key, "position computed on another sequence", norm(node)[:40]), f.loc(node),
                        f"{f.key}: `{norm(node)[:60]}` addresses the scope list by `{idx.id}`, but {bad[0]}: with an `inherit` entry (or any "
                        f"skipped item) before the binding, a different element is read, overwritten or deleted than the one looked up by name")
            elif unknown:
                res.unclass(f"{f.key}: where the position `{idx.id}` in `{norm(node)[:40]}` comes from was not recognised ({unknown[0]})")
