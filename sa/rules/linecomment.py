"""A line comment ends its line: what follows an inline-comment suffix.

`format_inline_comment_suffix(self.<slot>)` renders the comments that share the line of the token before them; the last of them
may be a `#` comment, which runs to the end of the line.  In the renderer's concatenation the piece that follows the suffix is a
separator; wherever that separator can be something that does not start a new line, the slot must be known to be empty — or the
stored layout of that gap says the next token was on the same line (`<layout>.on_newline` is false; the parser records the gap
after a `#` comment with its newline).  A separator chosen by anything else (the kind of the next node, what the suffix text
starts with) lets the comment swallow the tokens that follow it."""
from __future__ import annotations

import ast

from sa.cfg import CFG, ReachingDefs, edges_establishing, expanded_atoms, disjuncts
from sa.model import Program, norm, walk_no_nested
from sa.report import Results
from sa.util import callee


def _starts_line(e) -> bool | None:
    """does the string constant start with a newline?  None: not a constant"""
    if isinstance(e, ast.Constant) and isinstance(e.value, str):
        return e.value.startswith("\n")
    return None


def check(prog: Program, res: Results, rid: str) -> None:
    r = res.rule(rid, "a line comment ends its line: the separator that follows `format_inline_comment_suffix(self.<slot>)` in a "
                 "renderer can be a non-newline string only where the slot is known to be empty or the stored layout of the gap is "
                 "not on a new line", floor=2)
    for f in prog.all_functions():
        if f.parent is not None or not f.cls or f.name not in ("rebuild", "rebuild_scoped", "__str__"):
            continue
        fn = f.node
        suffixes = {}  # local -> slot
        for n in walk_no_nested(fn):
            if isinstance(n, ast.Assign) and len(n.targets) == 1 and isinstance(n.targets[0], ast.Name) and isinstance(n.value, ast.Call) \
                    and callee(n.value) == "format_inline_comment_suffix" and n.value.args and isinstance(n.value.args[0], ast.Attribute) \
                    and isinstance(n.value.args[0].value, ast.Name) and n.value.args[0].value.id == "self":
                suffixes[n.targets[0].id] = n.value.args[0].attr
        if not suffixes:
            continue
        cfg = CFG(fn)
        rd = ReachingDefs(cfg)
        res.analysed_functions.add(f.key)
        for js in [n for n in walk_no_nested(fn) if isinstance(n, ast.JoinedStr)]:
            vals = js.values
            for i, v in enumerate(vals[:-1]):
                if not (isinstance(v, ast.FormattedValue) and isinstance(v.value, ast.Name) and v.value.id in suffixes):
                    continue
                slot = suffixes[v.value.id]
                nxt = vals[i + 1]
                r.instances += 1
                at = cfg.containing(js)
                if isinstance(nxt, ast.Constant):
                    ok = bool(_starts_line(nxt))
                    r.ob(ok, {"site": f.key, "slot": slot, "followed_by": repr(nxt.value)[:20]})
                    if not ok:
                        res.add(rid, (f.key, "text on the line of an inline comment", slot), f.loc(js),
                                f"{f.key}: the suffix of `self.{slot}` is followed by the literal {nxt.value[:12]!r} on the same line: a `#` comment "
                                f"in that slot swallows it")
                    continue
                if not (isinstance(nxt, ast.FormattedValue) and isinstance(nxt.value, ast.Name)) or at is None:
                    res.unclass(f"{f.key}: what follows the suffix of `self.{slot}` in the concatenation was not recognised")
                    continue
                sep = nxt.value.id
                bad, unknown = _separator_defs(prog, f, cfg, rd, at, sep, slot)
                r.ob(not bad, {"site": f.key, "slot": slot, "separator": sep})
                for where, why in bad:
                    res.add(rid, (f.key, "separator after an inline comment may stay on the line", slot), f.loc(where),
                            f"{f.key}: after the inline comments of `self.{slot}` the separator `{sep}` can be {why} although the slot is not "
                            f"known to be empty and no stored layout says the next token was on the same line: a `#` comment there "
                            f"swallows the tokens that follow it (the rebuilt text loses code)")
                if unknown and not bad:
                    res.unclass(f"{f.key}: how the separator `{sep}` after the suffix of `self.{slot}` is chosen was not recognised ({unknown[0]})")


def _fact(a, t, slot: str) -> bool:
    s = norm(a)
    if t is False and s in (f"self.{slot}", f"len(self.{slot})", f"len(self.{slot}) > 0", f"len(self.{slot}) != 0"):
        return True
    if t is True and s in (f"len(self.{slot}) == 0", f"not self.{slot}"):
        return True
    if t is False and isinstance(a, ast.Attribute) and a.attr == "on_newline":
        return True
    return False


def _guarded(cfg: CFG, node, slot: str, extra=()) -> bool:
    """every path to `node` knows: the slot is empty, or a stored layout is not on a new line"""
    def fact(a, t):
        return _fact(a, t, slot)

    for test, truth in extra:
        ds = disjuncts(test, truth)
        if ds and all(any(fact(a, t) for a, t in expanded_atoms(cfg, d, tv)) for d, tv in ds):
            return True
    e = edges_establishing(cfg, fact)
    return bool(e) and cfg.all_paths_pass(node, cut_edges=e)


def _guarded_between(cfg: CFG, rd, dnode, use, slot: str, sep: str, extra=()) -> bool:
    """the value assigned at `dnode` cannot reach `use` without the facts: either every path to the assignment knows them, or
    every path from the assignment to the use (on which it is not overwritten) passes an edge that establishes them"""
    if _guarded(cfg, dnode, slot, extra):
        return True
    fact_edges = edges_establishing(cfg, lambda a, t: _fact(a, t, slot))
    if not fact_edges:
        return False
    others = [n for n in cfg.nodes if n is not dnode and sep in rd.gen.get(n, {})]
    return use not in cfg.reachable(dnode, removed_nodes=others, removed_edges=fact_edges, follow_exc=False)


def _value_cases(v, extra=()):
    """(expression, facts known when it is the value) for the arms of a conditional expression"""
    if isinstance(v, ast.IfExp):
        return _value_cases(v.body, tuple(extra) + ((v.test, True),)) + _value_cases(v.orelse, tuple(extra) + ((v.test, False),))
    return [(v, tuple(extra))]


def _separator_defs(prog, f, cfg, rd, at, sep: str, slot: str):
    bad, unknown = [], []
    for d in rd.defs_at(at, sep):
        if d == "PARAM":
            unknown.append("a parameter")
            continue
        dn = cfg.node_of(d)
        dval = None
        if isinstance(d, ast.Assign) and len(d.targets) == 1 and isinstance(d.targets[0], ast.Name):
            dval = d.value
        elif isinstance(d, ast.Assign) and len(d.targets) == 1 and isinstance(d.targets[0], ast.Tuple) and isinstance(d.value, ast.Tuple) \
                and len(d.value.elts) == len(d.targets[0].elts) and sep in [norm(x) for x in d.targets[0].elts]:
            dval = d.value.elts[[norm(x) for x in d.targets[0].elts].index(sep)]  # `sep, text = ("\n", …)`
        if dval is not None and dn is not None:
            for v, extra in _value_cases(dval):
                sl = _starts_line(v)
                if sl is True:
                    continue
                if sl is None:
                    unknown.append(norm(d)[:50])
                    continue
                if not _guarded_between(cfg, rd, dn, at, slot, sep, extra):
                    bad.append((d, repr(v.value)))
            continue
        # `sep, text = helper(...)`: the first element of what the closure returns
        g = None
        if isinstance(d, ast.Assign) and len(d.targets) == 1 and isinstance(d.targets[0], ast.Tuple) and isinstance(d.value, ast.Call):
            fn_ = d.value.func
            if isinstance(fn_, ast.Name):
                g = f.nested.get(fn_.id) or (prog.funcs.get(fn_.id) if prog.funcs.get(fn_.id) is not None and prog.funcs[fn_.id].cls is None else None)
            elif isinstance(fn_, ast.Attribute) and isinstance(fn_.value, ast.Name) and fn_.value.id in ("self", "cls", f.cls):
                g = prog.method(f.cls, fn_.attr)  # the helper written as a (static) method of the class
        if g is not None:
            idx = [norm(x) for x in d.targets[0].elts].index(sep)
            gcfg = CFG(g.node)
            for rt in [n for n in gcfg.nodes if n.kind == "return" and n.ast.value is not None]:
                tv = rt.ast.value
                if not (isinstance(tv, ast.Tuple) and len(tv.elts) > idx):
                    unknown.append(norm(rt.ast)[:50])
                    continue
                el = tv.elts[idx]
                cases = _value_cases(el)
                if isinstance(el, ast.Name):
                    grd = ReachingDefs(gcfg)
                    cases = []
                    for dd in grd.defs_at(rt, el.id):
                        if isinstance(dd, ast.Assign) and gcfg.node_of(dd) is not None:
                            cases += [(vv, ex, gcfg.node_of(dd)) for vv, ex in _value_cases(dd.value)]
                        else:
                            unknown.append(f"{g.key}: {el.id}")
                else:
                    cases = [(vv, ex, rt) for vv, ex in cases]
                for vv, ex, node in cases:
                    sl = _starts_line(vv)
                    if sl is True:
                        continue
                    if sl is None:
                        unknown.append(norm(rt.ast)[:50])
                        continue
                    # facts inside the closure: its layout parameter's on_newline; the slot itself is not visible there
                    if not _guarded(gcfg, node, slot, ex):
                        bad.append((rt.ast, repr(vv.value)))
            continue
        unknown.append(norm(d)[:50] if isinstance(d, ast.AST) else str(d))
    return bad, unknown
