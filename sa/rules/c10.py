"""C10 — identifier resolution follows Nix lexical scoping or fails explicitly (five structural clauses)."""
from __future__ import annotations

import ast

from sa.callgraph import CallGraph
from sa.cfg import CFG, edges_establishing
from sa.model import AnalysisError, Program, alpha, norm, walk_no_nested
from sa.report import Results
from sa.util import assignments_to, callee, dotted, exc_name


def _kw(call: ast.Call, name: str, pos: int | None = None):
    for k in call.keywords:
        if k.arg == name:
            return k.value
    if pos is not None and len(call.args) > pos:
        return call.args[pos]
    return None


def run(prog: Program) -> Results:
    res = Results("C10")
    ri = prog.func("_resolve_identifier")
    sfo = prog.func("scopes_for_owner")
    gc = prog.func("_get_context")
    sc = prog.func("_store_context")
    res.analysed_functions |= {ri.key, sfo.key, gc.key, sc.key}
    closures = {g.name: g for g in ri.nested.values()}

    # ---------------------------------------------------------------- R-C10-1
    r1 = res.rule("R-C10-1", "a `with` environment is a distinguishable kind of scope and the lookup consults such scopes only after "
                  "every lexical binder failed", floor=1)
    with_arm = None
    for n in walk_no_nested(sfo.node):
        if isinstance(n, ast.If) and norm(n.test) == "isinstance(owner, WithStatement)":
            with_arm = n
    if with_arm is None:
        res.unclass("scopes_for_owner: the WithStatement arm was not found")
    else:
        r1.instances += 1
        appends = [c for c in ast.walk(with_arm) if isinstance(c, ast.Call) and callee(c) == "append" and norm(c.func.value) == "scopes"]
        distinguished = False
        marker = None
        for a in appends:
            arg = a.args[0]
            if isinstance(arg, ast.Call) and ("with" in (callee(arg) or "").lower()):
                distinguished, marker = True, callee(arg)
            if isinstance(arg, ast.Tuple):
                distinguished, marker = True, "tuple tag"
        for c in ast.walk(with_arm):
            if isinstance(c, ast.Attribute) and isinstance(c.ctx, ast.Store) and "with" in c.attr.lower():
                distinguished, marker = True, c.attr
        partitioned = distinguished and marker is not None and (marker in norm(ri.node))
        r1.ob(distinguished and partitioned, {"with_scope_appended_as": [norm(a.args[0]) for a in appends], "marker": marker})
        if not (distinguished and partitioned):
            res.add("R-C10-1", ("scopes_for_owner", "with scope indistinguishable"), sfo.loc(with_arm),
                    "the scope built for a `with` environment is appended to the same flat chain as let/rec/formal scopes and "
                    "_resolve_identifier scans the chain uniformly: an enclosing `let` binding loses against an inner `with` "
                    "(Nix ranks `with` below every lexical binder)")

    # ---------------------------------------------------------------- R-C10-2
    r2 = res.rule("R-C10-2", "registry hits are identity-validated (stored_ref() is expr), the weak-reference callback removes only its "
                  "own entry, and _CONTEXTS is written only by its three owners", floor=3)
    cfg = CFG(gc.node)
    pname = gc.params()[0]

    def identity(a, truth):
        return isinstance(a, ast.Compare) and len(a.ops) == 1 and isinstance(a.ops[0], ast.Is) and truth is True \
            and isinstance(a.left, ast.Call) and not a.left.args and isinstance(a.comparators[0], ast.Name) and a.comparators[0].id == pname

    e_id = edges_establishing(cfg, identity)
    for rt in [n for n in cfg.nodes if n.kind == "return"]:
        v = rt.ast.value
        if v is None or (isinstance(v, ast.Constant) and v.value is None):
            continue
        r2.instances += 1
        ok = bool(e_id) and cfg.all_paths_pass(rt, cut_edges=e_id)
        r2.ob(ok, {"return": norm(rt.ast), "guard": "stored_ref() is expr"})
        if not ok:
            res.add("R-C10-2", ("_get_context", "unvalidated hit", norm(rt.ast)), gc.loc(rt.ast),
                    f"`{norm(rt.ast)}` is reachable without `stored_ref() is {pname}`: after an id() is reused, the context of a dead "
                    f"document would be returned for an unrelated expression")
    # the weak-reference callback: whatever `weakref.ref(<expr>, <callback>)` in _store_context names — a closure, a module-level
    # function, or functools.partial(<function>, …)
    clear = sc.nested.get("_clear")
    for c in walk_no_nested(sc.node):
        if isinstance(c, ast.Call) and callee(c) == "ref" and len(c.args) == 2:
            cb = c.args[1]
            if isinstance(cb, ast.Call) and callee(cb) == "partial" and cb.args:
                cb = cb.args[0]
            if isinstance(cb, ast.Name):
                clear = sc.nested.get(cb.id) or (prog.funcs.get(cb.id) if cb.id in prog.funcs and prog.funcs[cb.id].cls is None else clear)
    r2.instances += 1
    if clear is None:
        res.unclass("_store_context._clear vanished")
    else:
        ccfg = CFG(clear.node)
        pops = [n for n in ccfg.nodes if n.ast is not None and any(isinstance(c, ast.Call) and callee(c) in ("pop", "__delitem__") and "_CONTEXTS" in norm(c) for c in ast.walk(n.ast))
                or isinstance(n.ast, ast.Delete) and "_CONTEXTS" in norm(n.ast)]
        rparams = set(clear.params())

        def own_entry(a, truth):
            return isinstance(a, ast.Compare) and isinstance(a.ops[0], ast.Is) and truth is True and isinstance(a.comparators[0], ast.Name) \
                and a.comparators[0].id in rparams

        e_own = edges_establishing(ccfg, own_entry)
        ok = bool(pops) and bool(e_own) and all(ccfg.all_paths_pass(p, cut_edges=e_own) for p in pops)
        r2.ob(ok, {"callback": "_clear", "guard": "stored_ref is reference"})
        if not ok:
            res.add("R-C10-2", ("_store_context._clear", "callback removes foreign entry"), clear.loc(),
                    "the weak-reference callback can remove an entry that is not the one it was created for (a new expression "
                    "that reuses the id would lose its context)")
    owners = {"_store_context", "_store_context.<_clear>", "_get_context", "clear_resolution_context"}
    if clear is not None:
        owners.add(clear.key)  # the callback found above, under whatever name
    for f in prog.all_functions():
        for n in walk_no_nested(f.node):
            w = None
            if isinstance(n, ast.Subscript) and isinstance(n.ctx, (ast.Store, ast.Del)) and norm(n.value) == "_CONTEXTS":
                w = n
            if isinstance(n, ast.Call) and isinstance(n.func, ast.Attribute) and norm(n.func.value) == "_CONTEXTS" \
                    and n.func.attr in ("pop", "clear", "update", "setdefault", "popitem", "__setitem__", "__delitem__"):
                w = n
            if w is not None:
                r2.instances += 1
                ok = f.key in owners or prog.reviewed_key(f.key) in owners
                r2.ob(ok, {"writer": f.key, "write": norm(w)[:50]})
                if not ok:
                    res.add("R-C10-2", (f.key, "writes _CONTEXTS"), f.loc(w), f"{f.key} writes the context registry `{norm(w)[:60]}`")
    # the stored reference is a weak reference to the expression itself
    stores = [n for n in ast.walk(sc.node) if isinstance(n, ast.Assign) and isinstance(n.targets[0], ast.Subscript) and norm(n.targets[0].value) == "_CONTEXTS"]
    for st in stores:
        r2.instances += 1
        v = st.value
        sl = st.targets[0].slice
        key_ok = norm(sl) == f"id({sc.params()[0]})" or (isinstance(sl, ast.Name) and any(
            isinstance(d, ast.Assign) and norm(d.targets[0]) == sl.id and norm(d.value) == f"id({sc.params()[0]})" for d in ast.walk(sc.node)))
        ok = isinstance(v, ast.Tuple) and isinstance(v.elts[0], ast.Call) and callee(v.elts[0]) == "ref" and key_ok
        r2.ob(ok, {"store": norm(st)[:70]})
        if not ok:
            res.add("R-C10-2", ("_store_context", "entry shape"), sc.loc(st), "the registry entry is not (weakref(expr), context) keyed by id(expr)")

    # ---------------------------------------------------------------- R-C10-3
    r3 = res.rule("R-C10-3", "bounded resolution: every recursive re-entry carries the visited sets and is dominated by a guarded "
                  "insertion, or passes a strictly shorter chain; the resolver never re-enters through Identifier.value", floor=4)
    rec_sites = []
    _marker_seen: set = set()
    for g in [ri] + list(ri.nested.values()):
        for c in walk_no_nested(g.node):
            if isinstance(c, ast.Call) and isinstance(c.func, ast.Name) and c.func.id == "_resolve_identifier":
                rec_sites.append((g, c))
    r3.instances += len(rec_sites)
    # confirmed on the reviewed tree: 4 sites (reference chain: 1, inherit: 3).  The three inherit continuations may be written
    # as one `return` after the arms that pick the chain, so the anchor that must not vanish is one site per kind of continuation
    if len(rec_sites) < 2:
        res.unclass(f"_resolve_identifier: only {len(rec_sites)} recursive call sites found (floor 2: reference chain, inherit)")
    for g, c in rec_sites:
        args = [norm(a) for a in c.args] + [norm(k.value) for k in c.keywords]
        vparams = ri.params()[2:4]
        carries = len(vparams) == 2 and all(v in args for v in vparams)
        gcfg = CFG(g.node)
        node = gcfg.containing(c)
        adds = [n for n in gcfg.nodes if n.ast is not None and isinstance(n.ast, ast.Expr) and isinstance(n.ast.value, ast.Call)
                and callee(n.ast.value) == "add" and norm(n.ast.value.func.value) in ri.params()[2:4]]
        guarded = False
        for a in adds:
            setname = norm(a.ast.value.func.value)
            member = norm(a.ast.value.args[0])
            # the marker identifies a document object (the binding / the inherit clause), of which there are finitely many; a
            # component taken from the scope chain — whose scopes are created afresh while `inherit (src) …` is followed — makes
            # every visit look new, and a cycle is never recognised
            mexpr = a.ast.value.args[0]
            if isinstance(mexpr, ast.Name):
                _ds = [d for d in walk_no_nested(g.node) if isinstance(d, ast.Assign) and len(d.targets) == 1 and norm(d.targets[0]) == mexpr.id]
                if len(_ds) == 1:
                    mexpr = _ds[0].value
            chainish = set(g.params()[1:]) if g is not ri else {ri.params()[1]}
            chainish |= {norm(d.targets[0]) for d in walk_no_nested(g.node) if isinstance(d, ast.Assign) and isinstance(d.targets[0], ast.Name)
                         and any(isinstance(x, ast.Name) and x.id in chainish for x in ast.walk(d.value))}
            dep = sorted({x.id for x in ast.walk(mexpr) if isinstance(x, ast.Name) and x.id in chainish})
            if (g.key, setname) not in _marker_seen:
                _marker_seen.add((g.key, setname))
                r3.instances += 1
                r3.ob(not dep, {"site": g.key, "visited_set": setname, "marker": norm(mexpr)[:60]})
                if dep:
                    res.add("R-C10-3", (g.key, "cycle marker depends on the scope chain", setname), g.loc(a.ast),
                            f"{g.key}: the marker `{norm(mexpr)[:60]}` put into `{setname}` depends on `{dep[0]}`: following `inherit (src) …;` "
                            f"wraps the source in a new Scope on every visit, so a cycle through it never repeats a marker and the "
                            f"resolver recurses until RecursionError instead of raising ResolutionError")
            tests = [t for t in gcfg.nodes if t.kind == "test" and norm(t.ast) == f"{member} in {setname}"]
            raising = [t for t in tests if any(s.kind == "raise" and exc_name(s.ast.exc) == "ResolutionError" for l, s in t.succ if l is True)]
            if raising and gcfg.all_paths_pass(a, cut_edges=[(t, False) for t in raising]) and gcfg.all_paths_pass(node, cut_nodes=[a]):
                guarded = True
        shorter = len(c.args) >= 2 and g is not ri and len(g.params()) > 2 and norm(c.args[1]) == g.params()[2]
        ok = carries and (guarded or shorter)
        r3.ob(ok, {"site": g.key, "call": norm(c)[:80], "carries_visited": carries, "guarded_insertion": guarded})
        if not carries:
            res.add("R-C10-3", (g.key, "recursion with fresh visited sets", alpha(c, ri.node)[:80]), g.loc(c),
                    f"{g.key} re-enters `_resolve_identifier` without passing both visited sets: a reference cycle would recurse until RecursionError")
        elif not (guarded or shorter):
            res.add("R-C10-3", (g.key, "unguarded recursion", alpha(c, ri.node)[:80]), g.loc(c),
                    f"{g.key}: `{norm(c)[:70]}` is not dominated by a membership-checked insertion into a visited set")
    # re-entry through the property (fresh visited sets)
    cg = CallGraph(prog)
    reach = cg.reachable([ri.key])
    value_loads = []
    for g in [ri] + list(ri.nested.values()):
        for n in walk_no_nested(g.node):
            if isinstance(n, ast.Attribute) and n.attr == "value" and isinstance(n.ctx, ast.Load) and isinstance(n.value, ast.Name):
                # receiver known to be an Identifier by an isinstance test on the same name in the function
                nm = n.value.id
                if any(isinstance(t, ast.Call) and callee(t) == "isinstance" and norm(t.args[0]) == nm and "Identifier" in norm(t.args[1])
                       and "not" not in norm(t)[:4] for t in ast.walk(g.node)):
                    # exclude name_expr.value == target comparisons guarded by `not isinstance(...)`
                    par = [p for p in ast.walk(g.node) if isinstance(p, ast.BoolOp) and any(x is n for x in ast.walk(p))]
                    if any(f"not isinstance({nm}, Identifier)" in norm(p) for p in par):
                        continue
                    # … or inside a conditional expression / and-or chain that excludes Identifier for this operand
                    from sa.cfg import atoms as _atoms
                    from sa.util import expression_facts, parent_map as _pmap
                    if any(isinstance(a_, ast.Call) and callee(a_) == "isinstance" and len(a_.args) == 2 and norm(a_.args[0]) == nm
                           and "Identifier" in norm(a_.args[1]) and tv_ is False
                           for tst_, tr_ in expression_facts(_pmap(g.node), n) for a_, tv_ in _atoms(tst_, tr_)):
                        continue
                    # … or by the false edge of an isinstance test (`if isinstance(x, Identifier): … elif x.value == …`)
                    gcfg_ = CFG(g.node)
                    not_ident = edges_establishing(gcfg_, lambda a, t, _nm=nm: isinstance(a, ast.Call) and callee(a) == "isinstance"
                                                   and len(a.args) == 2 and norm(a.args[0]) == _nm and "Identifier" in norm(a.args[1]) and t is False)
                    at = gcfg_.containing(n)
                    if at is not None and not_ident and gcfg_.all_paths_pass(at, cut_edges=not_ident):
                        continue
                    value_loads.append((g, n))
    for g, n in value_loads:
        r3.instances += 1
        r3.ob(False, {"site": g.key, "re-entry": norm(n)})
        res.add("R-C10-3", (g.key, "re-entry through Identifier.value", alpha(n, ri.node)), g.loc(n),
                f"{g.key} evaluates `{norm(n)}` (the Identifier.value property) inside the resolver: resolution restarts with fresh "
                f"visited sets, so `rec {{ a = b; inherit (a) b; }}` ends in RecursionError instead of ResolutionError")

    # ---------------------------------------------------------------- R-C10-4
    r4 = res.rule("R-C10-4", "failure is explicit: every exit of the resolver is a (value, binding) result or ResolutionError; no "
                  "context => ResolutionError", floor=3)
    for g in [ri] + [x for x in ri.nested.values() if x.name in ("_resolve_binding", "_resolve_inherited_binding")]:
        gcfg = CFG(g.node)
        r4.instances += 1
        falls = [p for lab, p in gcfg.exit.pred if p.kind != "return"]
        bad_ret = [n for n in gcfg.nodes if n.kind == "return" and (n.ast.value is None or isinstance(n.ast.value, ast.Constant))]
        bad_raise = [n for n in gcfg.nodes if n.kind == "raise" and exc_name(n.ast.exc) not in ("ResolutionError",)]
        ok = not falls and not bad_ret and not bad_raise
        r4.ob(ok, {"function": g.key, "exits": "tuple | ResolutionError"})
        if falls or bad_ret:
            res.add("R-C10-4", (g.key, "silent exit"), g.loc(),
                    f"{g.key} can finish without a binding and without raising ResolutionError (an unbound name would resolve to None)")
        for n in bad_raise:
            res.add("R-C10-4", (g.key, "foreign exception", norm(n.ast)[:60]), g.loc(n.ast),
                    f"{g.key} raises `{norm(n.ast)[:60]}`; unbound names and cycles must raise ResolutionError")
    for key in ("Identifier.value", "Identifier.value#setter"):
        f = prog.func(key)
        fcfg = CFG(f.node)
        r4.instances += 1
        calls = [n for n in fcfg.nodes if n.ast is not None and any(isinstance(c, ast.Call) and callee(c) == "_resolve_identifier" for c in ast.walk(n.ast))]

        cvar = next((norm(d.targets[0]) for d in ast.walk(f.node) if isinstance(d, ast.Assign) and isinstance(d.value, ast.Call)
                     and callee(d.value) == "get_resolution_context"), "context")

        def has_ctx(a, truth, _c=cvar):
            return (isinstance(a, ast.Compare) and norm(a) == f"{_c} is None" and truth is False) or \
                   (isinstance(a, ast.Compare) and norm(a) == f"{_c} is not None" and truth is True)

        e = edges_establishing(fcfg, has_ctx)
        ok = bool(calls) and bool(e) and all(fcfg.all_paths_pass(c, cut_edges=e) for c in calls)
        none_arm = [s for t, lab in e for l, s in t.succ if l == (not lab)]
        ok = ok and all(s.kind == "raise" and exc_name(s.ast.exc) == "ResolutionError" for s in none_arm)
        r4.ob(ok, {"function": key, "no_context": "raise ResolutionError"})
        if not ok:
            res.add("R-C10-4", (key, "missing context"), f.loc(), f"{key} does not raise ResolutionError when no resolution context is attached")

    # ---------------------------------------------------------------- R-C10-5
    r5 = res.rule("R-C10-5", "innermost first: chains are built outer-to-inner by every producer, scanned reversed, and a binding found "
                  "in layer i continues with the chain cut at layer i (outer chain for plain inherit)", floor=6)
    fn = ri.node
    sparam = ri.params()[1]
    # the scan, read as what it denotes (sa/scanform.py): positions p = n-1 … 0 of the chain F handed in (outer to inner); the chain
    # of the layer examined is F[:p+1], the chain outside it F[:p] — whether it is written over reversed(F) with enumerate or over F
    # with a descending range
    from sa.scanform import ScanForm
    sf = ScanForm(fn, sparam)
    loop = sf.loop if sf.error is None else None
    chain_name = outer_name = None
    if loop is None:
        res.unclass(f"_resolve_identifier: {sf.error}")
    else:
        lst, idx = sf.L, sf.v
        r5.instances += 1
        ok = sf.innermost_first()
        r5.ob(ok, {"scan": norm(loop.iter)[:60], "list": lst, "list_is_reversed_chain": sf.L_rev, "position_of_scope": str(sf.position())})
        if not ok:
            res.add("R-C10-5", ("_resolve_identifier", "scan order"), ri.loc(loop),
                    f"the lookup does not scan `{sparam}` from its last scope to its first (innermost scope first): the scope examined "
                    f"in the first iteration is not the innermost one, or the scan moves inwards")
        want_chain = "the chain up to and including the scope examined"
        want_outer = "the chain outside the scope examined"
        for d in ast.walk(loop):
            if isinstance(d, ast.Assign) and isinstance(d.targets[0], ast.Name):
                if sf.is_chain(d.value):
                    chain_name = d.targets[0].id
                if sf.is_outer(d.value):
                    outer_name = d.targets[0].id
        # every continuation happens in the iteration that found the binder (an inherit clause of layer i shadows plain bindings of
        # the layers outside it)
        inside = {id(c) for c in ast.walk(loop) if isinstance(c, ast.Call)}
        for c in walk_no_nested(fn):
            if isinstance(c, ast.Call) and isinstance(c.func, ast.Name) and c.func.id in closures and c.func.id != "_inherit_matches":
                r5.instances += 1
                ok = id(c) in inside and not any(isinstance(a_, ast.Starred) for a_ in c.args)
                r5.ob(ok, {"continuation_in_scan_iteration": norm(c)[:60]})
                if not ok:
                    res.add("R-C10-5", ("_resolve_identifier", "continuation outside the scan iteration", c.func.id), ri.loc(c),
                            f"`{norm(c)[:60]}` runs after the scan over the scopes instead of in the iteration that found the binder: "
                            f"a plain binding of an outer scope is preferred to an `inherit` clause of an inner one (innermost no longer wins)")
        # call sites pass the cut chains
        for c in ast.walk(loop):
            if isinstance(c, ast.Call) and isinstance(c.func, ast.Name) and c.func.id in closures and c.func.id != "_inherit_matches":
                r5.instances += 1
                nparams = len(closures[c.func.id].params())
                if nparams >= 3:
                    ok = len(c.args) >= 3 and sf.is_chain(c.args[1]) and sf.is_outer(c.args[2])
                else:
                    ok = len(c.args) >= 2 and sf.is_chain(c.args[1])
                r5.ob(ok, {"call": norm(c), "cut_chain": chain_name, "outer_chain": outer_name})
                if not ok:
                    res.add("R-C10-5", ("_resolve_identifier", "chain argument", c.func.id), ri.loc(c),
                            f"`{norm(c)}` does not pass the chain cut at the layer where the binding was found "
                            f"(`{want_chain}`{' and `' + want_outer + '`' if nparams >= 3 else ''})")
    rb = closures.get("_resolve_binding")
    if rb is None:
        res.unclass("_resolve_identifier._resolve_binding vanished")
    else:
        chain_param = rb.params()[1] if len(rb.params()) > 1 else None
        # the value a binding resolves to is looked at in the chain of the scope that holds the binding: it receives that chain
        # on every path that hands it back (a chain some earlier lookup left on the value belongs to another place)
        rcfg_ = CFG(rb.node)
        stamps = [n for n in rcfg_.nodes if n.ast is not None and n.kind == "stmt" and any(
            isinstance(c, ast.Call) and callee(c) == "set_resolution_context" and len(c.args) >= 2 and norm(c.args[1]) == chain_param
            for c in ast.walk(n.ast))]
        for rt in [n for n in rcfg_.nodes if n.kind == "return" and isinstance(n.ast.value, ast.Tuple)]:
            r5.instances += 1
            ok = bool(stamps) and rcfg_.all_paths_pass(rt, cut_nodes=stamps)
            r5.ob(ok, {"site": rb.key, "return": norm(rt.ast)[:50], "stamped_on_every_path": ok})
            if not ok:
                res.add("R-C10-5", (rb.key, "resolved value handed back without the chain of its definition site"), rb.loc(rt.ast),
                        f"{rb.key}: `{norm(rt.ast)[:50]}` is reachable without `set_resolution_context(<value>, {chain_param})`: a value that "
                        f"still carries the chain of an earlier lookup elsewhere (e.g. the use site of a `with`) resolves its own "
                        f"references there — names are picked up from scopes that do not enclose the definition")
        for c in walk_no_nested(rb.node):
            if isinstance(c, ast.Call) and callee(c) in ("_resolve_identifier", "set_resolution_context"):
                r5.instances += 1
                a1 = norm(c.args[1]) if len(c.args) > 1 else None
                ok = chain_param is not None and a1 == chain_param
                r5.ob(ok, {"site": rb.key, "call": norm(c)[:70]})
                if not ok:
                    res.add("R-C10-5", (rb.key, "reference chain continues with the wrong chain", callee(c)), rb.loc(c),
                            f"{rb.key}: `{norm(c)[:70]}` continues a reference chain with `{a1}` instead of the chain cut at the "
                            f"scope where the binding was found: names would be picked up from scopes that do not enclose the "
                            f"binding (dynamic scoping)")
    # producers: scopes_for_owner appends outer -> inner and hands the accumulated chain on
    acc = None
    for n in sfo.node.body:
        if isinstance(n, ast.Return) and isinstance(n.value, ast.Call) and callee(n.value) == "tuple" and n.value.args and isinstance(n.value.args[0], ast.Name):
            acc = n.value.args[0].id
    if acc is None:
        res.unclass("scopes_for_owner: `return tuple(<accumulated chain>)` not found")
        acc = "scopes"
    # the accumulated list read as a sequence of segments (sa/seqbuild.py), each classified by where its scopes come from
    from sa.seqbuild import SeqBuilder
    sb = SeqBuilder(sfo.node)
    segs = sb.sequence(acc)

    def _defs_text(e, depth=0) -> str:
        """text of an expression with the definitions of the locals it names (two levels): where a scope comes from"""
        t = norm(e)
        if depth < 2:
            for nm in {x.id for x in ast.walk(e) if isinstance(x, ast.Name)}:
                for d in ast.walk(sfo.node):
                    if isinstance(d, (ast.Assign, ast.AnnAssign)) and getattr(d, "value", None) is not None \
                            and norm(d.targets[0] if isinstance(d, ast.Assign) else d.target) == nm:
                        t += " " + _defs_text(d.value, depth + 1)
                    elif isinstance(d, ast.For) and norm(d.target) == nm:
                        t += " " + _defs_text(d.iter, depth + 1)
                    elif isinstance(d, ast.Match) and any(isinstance(p_, ast.MatchAs) and p_.name == nm for c_ in d.cases for p_ in ast.walk(c_.pattern)):
                        t += " " + _defs_text(d.subject, depth + 1)  # `case Scope() as env_scope` names (part of) the subject
        return t

    owner_p = sfo.params()[0]

    def origin(seg):
        exprs = [x for x in (seg[1], seg[3] if seg[0] == "each" else None) if x is not None]
        t = " ".join(_defs_text(x) for x in exprs)
        first = norm(exprs[0])
        if "function_call_scope(" in t:
            return "formals"
        if first.startswith(f"_scope_from_attrset({owner_p}") or f"_as_scope(getattr({owner_p}, 'values'" in t or f"_as_scope({owner_p}.values" in t:
            return "rec-self"  # the owner's own bindings (helper call, or the helper written out)
        if "environment" in t or ("_scope_from_attrset(" in t and f"_scope_from_attrset({owner_p}" not in t):
            return "with-env"
        if "_collect_scopes_from_layers(" in t or ".stack" in t or f"_as_scope({owner_p}.scope" in t or f"_as_scope(getattr({owner_p}, 'scope'" in t:
            return "own-layers"
        if "_get_context(" in t and ".scopes" in t:
            return "inherited"
        return "?" + first[:30]

    # a scope is appended at its place even if an equal one is already in the chain: membership-based skipping changes which
    # occurrence is innermost
    for st in ast.walk(sfo.node):
        if isinstance(st, ast.If) and any(isinstance(c, ast.Compare) and len(c.ops) == 1 and isinstance(c.ops[0], (ast.In, ast.NotIn))
                                          and norm(c.comparators[0]) in (acc, f"tuple({acc})") for c in ast.walk(st.test)):
            if any(isinstance(c, ast.Call) and isinstance(c.func, ast.Attribute) and norm(c.func.value) == acc and c.func.attr in ("append", "extend", "insert")
                   for b in st.body + st.orelse for c in ast.walk(b)):
                r5.instances += 1
                r5.ob(False, {"scopes_for_owner": "append skipped by membership", "test": norm(st.test)})
                res.add("R-C10-5", ("scopes_for_owner", "producer order"), sfo.loc(st),
                        f"scopes_for_owner skips an append when `{norm(st.test)}`: a scope that already occurs further out keeps only its "
                        f"outer position, so it no longer shadows the scopes between (innermost must come last)")
    # stored layers keep their stored order (outermost first) on the way into the chain: no segment is taken from its end, and the
    # helper that turns layers into scopes hands them back in the order it received them
    for seg in segs or []:
        if seg[0] == "each":
            r5.instances += 1
            r5.ob(not seg[2], {"scopes_for_owner_segment": norm(seg[1])[:50], "reversed": seg[2]})
            if seg[2]:
                res.add("R-C10-5", ("scopes_for_owner", "producer order", "segment reversed"), sfo.loc(seg[1]),
                        f"scopes_for_owner appends the scopes of `{norm(seg[1])[:50]}` from last to first: the innermost of them ends up "
                        f"outermost in the chain")
    lh = prog.funcs.get("_collect_scopes_from_layers")
    if lh is not None and lh.params():
        outs = SeqBuilder(lh.node).returned()
        r5.instances += 1
        res.analysed_functions.add(lh.key)
        if not outs:
            res.unclass("_collect_scopes_from_layers: how the returned list is put together was not recognised")
        else:
            lp = lh.params()[0]
            bad = [sg for o in outs for sg in o if sg[0] == "each" and norm(sg[1]) == lp and sg[2]]
            other = [sg for o in outs for sg in o if not (sg[0] == "each" and norm(sg[1]) == lp)]
            r5.ob(not bad, {"_collect_scopes_from_layers": [f"{sg[0]}:{norm(sg[1])[:30]}:{'reversed' if sg[0] == 'each' and sg[2] else 'in order'}" for o in outs for sg in o][:4]})
            if bad:
                res.add("R-C10-5", ("_collect_scopes_from_layers", "producer order", "layers reversed"), lh.loc(),
                        f"_collect_scopes_from_layers visits `{lp}` from its end: the let layers come back innermost first, but every "
                        f"producer appends them as outer-to-inner, so with two or more stacked layers a middle layer is treated as the "
                        f"innermost one")
            elif other:
                res.unclass(f"_collect_scopes_from_layers: a segment that is not one scope per layer of `{lp}` ({other[0][0]}: {norm(other[0][1])[:40]})")
    # ... and every caller hands the stored layers over in stored order: the list given to the helper is not read from its end
    # (`reversed(x.stack)`, `x.stack[::-1]`), neither in the argument nor in the definition of a local it names
    def _reads_backwards(e: ast.AST, fn_node: ast.AST, depth: int = 0) -> ast.AST | None:
        for w in ast.walk(e):
            if isinstance(w, ast.Call) and isinstance(w.func, ast.Name) and w.func.id == "reversed":
                return w
            if isinstance(w, ast.Subscript) and isinstance(w.slice, ast.Slice) and w.slice.step is not None \
                    and isinstance(w.slice.step, ast.UnaryOp) and isinstance(w.slice.step.op, ast.USub):
                return w
        if depth < 2:
            for nm in {x.id for x in ast.walk(e) if isinstance(x, ast.Name)}:
                for d in ast.walk(fn_node):
                    if isinstance(d, ast.Assign) and len(d.targets) == 1 and isinstance(d.targets[0], ast.Name) and d.targets[0].id == nm \
                            and ".stack" in norm(d.value):
                        hit = _reads_backwards(d.value, fn_node, depth + 1)
                        if hit is not None:
                            return hit
        return None

    n_handover = 0
    for f5 in prog.all_functions():
        for c in ast.walk(f5.node):
            if isinstance(c, ast.Call) and callee(c) == "_collect_scopes_from_layers" and c.args:
                n_handover += 1
                r5.instances += 1
                hit = _reads_backwards(c.args[0], f5.node)
                r5.ob(hit is None, {"layers_handed_to_helper": f5.key, "argument": norm(c.args[0])[:60], "read_backwards": hit is not None})
                if hit is not None:
                    res.add("R-C10-5", (f5.key, "producer order", "layers handed over reversed"), f5.loc(c),
                            f"{f5.key} hands `{norm(hit)[:50]}` to _collect_scopes_from_layers: the stored let layers (outermost first) "
                            f"arrive innermost first, the helper keeps the order it receives, so with two or more stacked layers beyond the "
                            f"first an outer layer shadows an inner one")
    if lh is not None and n_handover == 0:
        res.unclass("_collect_scopes_from_layers: no call handing stored layers to it was found")
    order = []
    for seg in segs or []:
        k = origin(seg)
        if not order or order[-1] != k:
            order.append(k)
    want_order = ["inherited", "own-layers", "rec-self", "with-env", "formals"]
    r5.instances += 1
    if segs is None or any(k.startswith("?") for k in order):
        res.unclass(f"scopes_for_owner: how `{acc}` is put together was not recognised ({order})")
    else:
        ok = order == want_order
        r5.ob(ok, {"scopes_for_owner_appends": order})
        if not ok:
            res.add("R-C10-5", ("scopes_for_owner", "producer order"), sfo.loc(),
                    f"scopes_for_owner builds the chain as {order}; expected outer-to-inner {want_order}")
    for c in ast.walk(sfo.node):
        if isinstance(c, ast.Call) and callee(c) == "function_call_scope":
            r5.instances += 1
            a = _kw(c, "inherited_scopes", 1)
            ok = a is not None and norm(a) == f"tuple({acc})"
            r5.ob(ok, {"function_call_scope.inherited_scopes": norm(a) if a is not None else None})
            if not ok:
                res.add("R-C10-5", ("scopes_for_owner", "parameter scope base"), sfo.loc(c),
                        f"function_call_scope receives `{norm(a) if a is not None else None}` instead of the accumulated chain "
                        f"tuple(scopes): the call's own let layers would be skipped when resolving its argument")
        if isinstance(c, ast.Call) and callee(c) == "_scope_from_attrset":
            r5.instances += 1
            a = _kw(c, "base")
            if isinstance(a, ast.Name):
                # a local that names the accumulated chain (`outer_chain = tuple(scopes)`)
                ds_ = [d for d in walk_no_nested(sfo.node) if isinstance(d, ast.Assign) and len(d.targets) == 1 and norm(d.targets[0]) == a.id]
                if len(ds_) == 1:
                    a = ds_[0].value
            ok = a is not None and norm(a) == f"tuple({acc})"
            r5.ob(ok, {"_scope_from_attrset.base": norm(a) if a is not None else None})
            if not ok:
                res.add("R-C10-5", ("scopes_for_owner", "attrset scope base", alpha(c, sfo.node)[:50]), sfo.loc(c),
                        f"`{norm(c)[:60]}` is not based on the accumulated chain tuple(scopes)")
    # inherit continuations: `inherit x;` looks x up outside the holder, `inherit (src) x;` looks src up in the holder's own chain
    rib = closures.get("_resolve_inherited_binding")
    if rib is None:
        res.unclass("_resolve_identifier._resolve_inherited_binding vanished")
    elif len(rib.params()) >= 3:
        from sa.cfg import CFG as _CFG, edges_establishing as _ee
        chain_p, outer_p = rib.params()[1], rib.params()[2]
        rcfg = _CFG(rib.node)
        fe = next((norm(d.targets[0]) for d in walk_no_nested(rib.node) if isinstance(d, ast.Assign) and isinstance(d.targets[0], ast.Name)
                   and ((isinstance(d.value, ast.Call) and callee(d.value) == "getattr" and len(d.value.args) > 1
                         and isinstance(d.value.args[1], ast.Constant) and d.value.args[1].value == "from_expression")
                        or (isinstance(d.value, ast.Attribute) and d.value.attr == "from_expression"))), None)
        if fe is None:
            res.unclass("_resolve_inherited_binding: the read of `from_expression` was not recognised")
        from sa.cfg import ReachingDefs as _RD
        rrd = _RD(rcfg)
        fe_defs = [d for d in walk_no_nested(rib.node) if isinstance(d, ast.Assign) and isinstance(d.targets[0], ast.Name) and norm(d.targets[0]) == fe
                   and ((isinstance(d.value, ast.Call) and callee(d.value) == "getattr" and len(d.value.args) > 1
                         and isinstance(d.value.args[1], ast.Constant) and d.value.args[1].value == "from_expression")
                        or (isinstance(d.value, ast.Attribute) and d.value.attr == "from_expression"))]
        plain = _ee(rcfg, lambda a, t: fe is not None and ((norm(a) == f"{fe} is None" and t is True) or (norm(a) == f"{fe} is not None" and t is False)))
        for n in rcfg.nodes:
            if n.ast is None or n.kind not in ("stmt", "return", "test"):
                continue
            for c in ast.walk(n.ast):
                if not isinstance(c, ast.Call):
                    continue
                nm = callee(c)
                if nm == "set_resolution_context" and len(c.args) >= 2 and fe is not None and norm(c.args[0]) == fe:
                    # the local may be reused for the evaluated source (`source = source.value`): the call is about the
                    # `from_expression` itself only while the read of that field is the definition that reaches it
                    if not all(d_ in fe_defs for d_ in rrd.defs_at(n, fe)):
                        continue
                    r5.instances += 1
                    ok = norm(c.args[1]) == chain_p
                    r5.ob(ok, {"site": rib.key, "inherit_source_context": norm(c)[:70]})
                    if not ok:
                        res.add("R-C10-5", (rib.key, "inherit source resolved in the wrong chain"), rib.loc(c),
                                f"{rib.key}: `{norm(c)[:70]}` resolves the source of `inherit (src) …;` in `{norm(c.args[1])}` instead of "
                                f"`{chain_p}` (the chain up to and including the rec set / let layer that holds the inherit): a `src` bound "
                                f"in that very layer is skipped and an outer binding of the same name wins")
                elif nm == "_resolve_identifier" and len(c.args) >= 2:
                    r5.instances += 1
                    from sa.seqexpr import canon as _canon, appended as _appended
                    a1 = c.args[1]
                    # the chain handed on, per definition that reaches the call (one `return` after an if/elif that picks the
                    # chain is the same as a `return` in every arm): (statement it is decided at, expression)
                    cases = [(n, a1)]
                    if isinstance(a1, ast.Name) and a1.id not in rib.params():
                        ds = [d for d in rrd.defs_at(n, a1.id) if isinstance(d, ast.Assign)]
                        cases = [(rcfg.node_of(d), d.value) for d in ds if rcfg.node_of(d) is not None] or [(n, a1)]
                    ok, in_plain, want = True, False, ""
                    for dn_, v_ in cases:
                        pl_ = bool(plain) and rcfg.all_paths_pass(dn_, cut_edges=plain)
                        in_plain = in_plain or pl_
                        if pl_:
                            ok_ = norm(v_) == outer_p
                            w_ = outer_p
                        else:
                            ok_ = _canon(v_) == _appended(chain_p)
                            w_ = f"tuple(list({chain_p}) + [<source scope>])"
                        if not ok_:
                            ok, want = False, w_
                    r5.ob(ok, {"site": rib.key, "continuation": norm(c)[:60], "plain_inherit": in_plain})
                    if not ok:
                        res.add("R-C10-5", (rib.key, "inherit continues with the wrong chain", "plain" if in_plain else "from"), rib.loc(c),
                                f"{rib.key}: `{norm(c)[:60]}` continues with `{norm(a1)}`; required `{want}`")
    # the environment name of `with env; …` is looked up in the fullest chain available (inherited + the let layers on the with itself)
    for c in ast.walk(sfo.node):
        if isinstance(c, ast.Call) and callee(c) == "set_resolution_context" and len(c.args) >= 2 and "environment" in norm(c.args[0]):
            r5.instances += 1
            a1 = c.args[1]
            ds = [d for d in ast.walk(sfo.node) if isinstance(d, ast.Assign) and norm(d.targets[0]) == norm(a1)] if isinstance(a1, ast.Name) else []
            vs = [d.value for d in ds] or [a1]  # every definition of the chain variable (copies of an inlined helper included)

            def first_choice_ok(v):
                first = v.body if isinstance(v, ast.IfExp) else (v.values[0] if isinstance(v, ast.BoolOp) and isinstance(v.op, ast.Or) else v)
                cond_ok = not isinstance(v, ast.IfExp) or norm(v.test) in (acc, f"len({acc}) > 0", f"bool({acc})")
                return norm(first) in (f"tuple({acc})", acc) and cond_ok

            v = vs[0]
            ok = all(first_choice_ok(x) for x in vs)
            r5.ob(ok, {"with_environment_context": norm(v)[:70]})
            if not ok:
                res.add("R-C10-5", ("scopes_for_owner", "with environment resolved in a shorter chain"), sfo.loc(c),
                        f"scopes_for_owner: the `with` environment name is resolved in `{norm(v)[:70]}`, whose first choice is not the "
                        f"accumulated chain `tuple({acc})`: let layers wrapped directly around the `with` are skipped, so an outer "
                        f"binding of the same name supplies the environment")
    # the body of `with env; body` is resolved in the chain that contains env: both target resolvers prefer scopes_for_owner(<with>)
    for key in ("_resolve_target_set_from_expr", "NixSourceCode._resolve_target_set.<resolve_from_expr>"):
        if not prog.has_func(key):
            continue
        g = prog.func(key)
        from sa.util import tail_into_cases, match_form
        gnode = tail_into_cases(match_form(g.node))  # arms that only pick the expression / chain and share one recursive call after the match
        if not any(isinstance(p_, ast.MatchClass) and norm(p_.cls) == "WithStatement" for n in walk_no_nested(gnode) if isinstance(n, ast.Match)
                   for cs in n.cases for p_ in (cs.pattern.patterns if isinstance(cs.pattern, ast.MatchOr) else [cs.pattern])):
            res.unclass(f"{key}: the arm that handles `with` was not found (neither a `case WithStatement()` nor an isinstance dispatch)")
        for m_ in [n for n in walk_no_nested(gnode) if isinstance(n, ast.Match)]:
            subj = norm(m_.subject)
            for cs in m_.cases:
                pats = cs.pattern.patterns if isinstance(cs.pattern, ast.MatchOr) else [cs.pattern]
                if not any(isinstance(p_, ast.MatchClass) and norm(p_.cls) == "WithStatement" for p_ in pats):
                    continue
                r5.instances += 1
                # the chain handed to the recursive resolution of the body
                rec = [c for st in cs.body for c in ast.walk(st) if isinstance(c, ast.Call) and callee(c) in (g.name, "resolve_from_expr", "_resolve_nested", "resolve_nested")]
                chain = None
                for c in rec:
                    for k in c.keywords:
                        if k.arg in ("scope_chain", "scopes"):
                            chain = k.value
                v = chain
                if isinstance(chain, ast.Name):
                    ds = [d for st in cs.body for d in ast.walk(st) if isinstance(d, ast.Assign) and norm(d.targets[0]) == chain.id]
                    v = ds[0].value if len(ds) == 1 else chain
                first = None
                if v is not None:
                    first = v.body if isinstance(v, ast.IfExp) else (v.values[0] if isinstance(v, ast.BoolOp) and isinstance(v.op, ast.Or) else v)
                ok = first is not None and norm(first) == f"scopes_for_owner({subj})"
                r5.ob(ok, {"resolver": key, "with_body_chain": norm(v)[:70] if v is not None else None})
                if not ok:
                    res.add("R-C10-5", (key, "with body resolved without the with's own environment first"), g.loc(cs.pattern),
                            f"{key}: the body of a `with` is resolved in `{norm(v)[:70] if v is not None else '?'}`; its first choice must be "
                            f"`scopes_for_owner({subj})` (the handed-down chain plus this with's environment): for nested withs the inner "
                            f"environment is dropped, names resolve to the outer one or not at all, and set/rm are refused")
    gi = prog.func("AttributeSet.__getitem__")
    r5.instances += 1
    ctx = [d for d in ast.walk(gi.node) if isinstance(d, ast.Assign) and "scopes_for_owner(self)" in norm(d.value)]
    def _own_scope_last(v) -> bool:
        # tuple(list(scopes_for_owner(self)) + [<the set's own scope>]) with the own scope bound to a local or written in place
        # either spelling: tuple(list(X) + [y]) or (*X, y)
        if isinstance(v, ast.Call) and callee(v) == "tuple" and v.args and isinstance(v.args[0], ast.BinOp) and isinstance(v.args[0].op, ast.Add):
            left, right = v.args[0].left, v.args[0].right
            if isinstance(left, ast.Call) and callee(left) in ("list", "tuple") and left.args:
                left = left.args[0]
            if not (isinstance(right, (ast.List, ast.Tuple)) and len(right.elts) == 1):
                return False
            el = right.elts[0]
        elif isinstance(v, (ast.Tuple, ast.List)) and len(v.elts) == 2 and isinstance(v.elts[0], ast.Starred) and not isinstance(v.elts[1], ast.Starred):
            left, el = v.elts[0].value, v.elts[1]
        else:
            return False
        if norm(left) != "scopes_for_owner(self)":
            return False
        if isinstance(el, ast.Call):
            return norm(el).startswith("Scope(self.values")
        return any(isinstance(d, ast.Assign) and norm(d.targets[0]) == norm(el) and norm(d.value).startswith("Scope(self.values") for d in ast.walk(gi.node))

    ctx = ctx or [d for d in ast.walk(gi.node) if isinstance(d, ast.Call) and callee(d) == "set_resolution_context" and len(d.args) > 1
                  and "scopes_for_owner(self)" in norm(d.args[1])]
    _v = (ctx[0].value if isinstance(ctx[0], ast.Assign) else ctx[0].args[1]) if ctx else None
    ok = _v is not None and _own_scope_last(_v)
    r5.ob(ok, {"AttributeSet.__getitem__ inherit arm": norm(_v)[:80] if _v is not None else None})
    if not ok:
        res.add("R-C10-5", ("AttributeSet.__getitem__", "inherit chain"), gi.loc(ctx[0] if ctx else None),
                "the chain attached to an inherited name does not end with the set's own scope (innermost last)")
    # ---------------------------------------------------------------- R-C10-6 a stored value does not bring a foreign chain along
    r6 = res.rule("R-C10-6", "an expression stored into a document by item assignment loses the scope chain it carried: in every "
                  "mapping __setitem__ that stores `value` into a binding (overwrite or append), clear_resolution_context(value) "
                  "has run on every path to the store — a chain from another document must never answer a later lookup", floor=2)
    for key in ("AttributeSet.__setitem__", "Scope.__setitem__"):
        if not prog.has_func(key):
            res.unclass(f"{key} vanished")
            continue
        g = prog.func(key)
        res.analysed_functions.add(key)
        gcfg = CFG(g.node)
        vparam = g.params()[-1]
        clears = [n for n in gcfg.nodes if n.ast is not None and n.kind in ("stmt",) and any(
            isinstance(c, ast.Call) and callee(c) == "clear_resolution_context" and c.args and norm(c.args[0]) == vparam for c in ast.walk(n.ast))]
        not_expr = edges_establishing(gcfg, lambda a, t, _v=vparam: isinstance(a, ast.Call) and callee(a) == "isinstance" and norm(a.args[0]) == _v
                                      and "NixExpression" in norm(a.args[1]) and t is False)
        stores = []
        for n in gcfg.nodes:
            a = n.ast
            if isinstance(a, ast.Assign) and norm(a.value) == vparam and isinstance(a.targets[0], ast.Attribute) and a.targets[0].attr == "value":
                stores.append(n)
            elif isinstance(a, ast.Assign) and isinstance(a.value, ast.Call) and callee(a.value) == "Binding" and any(
                    k.arg == "value" and norm(k.value) == vparam for k in a.value.keywords):
                stores.append(n)
        for n in stores:
            r6.instances += 1
            ok = bool(clears) and gcfg.all_paths_pass(n, cut_nodes=clears, cut_edges=not_expr)
            r6.ob(ok, {"site": key, "store": norm(n.ast)[:60]})
            if not ok:
                res.add("R-C10-6", (key, "value stored with its old scope chain", norm(n.ast.targets[0])[:40]), g.loc(n.ast),
                        f"{key}: `{norm(n.ast)[:70]}` is reachable without clear_resolution_context({vparam}): an expression taken from "
                        f"another document keeps that document's chain, and `.value` on it answers from the unrelated document "
                        f"instead of raising ResolutionError")
    # ---------------------------------------------------------------- R-C10-7 only declared formals are bound in the body
    r7 = res.rule("R-C10-7", "a function body sees its formals, not everything the caller passed: in function_call_scope the "
                  "parameter scope receives a binding only inside the loop over the declared formals (keyed by that formal's name) "
                  "or for the single-identifier parameter — attributes passed through `...` stay unbound", floor=2)
    fcs = prog.func("function_call_scope")
    res.analysed_functions.add(fcs.key)
    pscopes = {norm(d.targets[0]) for d in walk_no_nested(fcs.node) if isinstance(d, ast.Assign) and isinstance(d.value, ast.Call)
               and callee(d.value) == "Scope" and any(k.arg == "owner" for k in d.value.keywords)}
    from sa.seqbuild import SeqBuilder as _SB
    from sa.util import Aliases as _Al
    al7 = _Al(fcs.node)
    for ps in sorted(pscopes):
        segs7 = _SB(fcs.node).sequence(ps)
        if segs7 is None:
            res.unclass(f"function_call_scope: how `{ps}` is filled was not recognised")
            continue
        for seg in segs7:
            r7.instances += 1
            ok, why, at = False, "", seg[1]
            if seg[0] == "each":
                it, elt = seg[1], seg[3]
                loop = seg[4] if len(seg) > 4 else None
                # the loop variable: of the for-statement, or of the generator the element comes from
                pv = None
                if loop is not None and isinstance(loop.target, ast.Name):
                    pv = loop.target.id
                else:
                    for gexp in ast.walk(fcs.node):
                        if isinstance(gexp, (ast.GeneratorExp, ast.ListComp)) and gexp.elt is elt and isinstance(gexp.generators[0].target, ast.Name):
                            pv = gexp.generators[0].target.id
                formals_iter = al7.norm(it).endswith(".argument_set")
                src = elt
                srcs = [elt]
                if isinstance(elt, ast.Name) and loop is not None:
                    # every assignment of the appended local in the loop (supplied binding in one arm, default in the other)
                    ds = [d for d in ast.walk(loop) if isinstance(d, ast.Assign) and norm(d.targets[0]) == elt.id]
                    srcs = [d.value for d in ds] or [elt]
                    src = srcs[0]

                def keyed_one(src):
                    if pv is None or src is None:
                        return False
                    if f"{pv}.name" in norm(src):
                        return True
                    if isinstance(src, ast.Call) and isinstance(src.func, ast.Name) and src.func.id in prog.funcs:
                        # a helper that receives the formal and looks it up under its own name
                        h7 = prog.funcs[src.func.id]
                        for pos, a_ in enumerate(src.args):
                            if isinstance(a_, ast.Name) and a_.id == pv and pos < len(h7.params()):
                                hp = h7.params()[pos]
                                if any(isinstance(x, ast.Attribute) and x.attr == "name" and norm(x.value) == hp for x in ast.walk(h7.node)):
                                    return True
                    return False

                bad_src = [x for x in srcs if not keyed_one(x)]
                keyed = not bad_src
                if bad_src:
                    src = bad_src[0]
                ok = formals_iter and keyed
                why = ("it iterates `" + norm(it)[:40] + "`, not the declared formals") if not formals_iter else \
                    f"`{norm(src)[:50] if src is not None else '?'}` is not keyed by the formal's own name"
                at = elt if elt is not None else it
            else:
                a = seg[1]
                ok = isinstance(a, ast.Call) and callee(a) == "Binding" and any(k.arg == "name" and norm(k.value).endswith(".name") for k in a.keywords)
                why = "not a binding named after the parameter"
            r7.ob(ok, {"write": norm(at)[:70]})
            if not ok:
                res.add("R-C10-7", (fcs.key, "parameter scope receives bindings that are not formals", seg[0]), fcs.loc(at),
                        f"function_call_scope: `{norm(at)[:70]}` ({why}): attributes the caller passes through `...` become names bound in "
                        f"the body and shadow the enclosing let — `let b = 9; in ({{ a, ... }}: {{ x = b; }}) {{ a = 1; b = 2; }}` gives x = 2")
    # ---------------------------------------------------------------- R-C10-10: the supplied argument is consulted before the default
    r10 = res.rule("R-C10-10", "a formal takes the supplied argument, else its default: where function_call_scope (or the helper it "
                   "calls per formal) commits a binding built from the formal's default_value, a lookup of the formal's name among the "
                   "supplied attributes comes first in that region — the default is the fallback, never the first choice", floor=1)

    def _default_regions():
        regs = []
        for lp in ast.walk(fcs.node):
            if isinstance(lp, ast.For) and any(isinstance(x, ast.Attribute) and x.attr == "default_value" for b in lp.body for x in ast.walk(b)):
                regs.append((fcs, lp.body, lp))
        if regs:
            return regs
        for c in ast.walk(fcs.node):
            if isinstance(c, ast.Call) and isinstance(c.func, ast.Name) and c.func.id in prog.funcs:
                h = prog.funcs[c.func.id]
                if any(isinstance(x, ast.Attribute) and x.attr == "default_value" for x in ast.walk(h.node)):
                    regs.append((h, h.node.body, h.node))
        return regs

    regs10 = _default_regions()
    if not regs10:
        res.unclass("function_call_scope: no region that reads a formal's default_value was found")
    for holder, body10, anchor10 in regs10:
        dnames = {"default_value"} | {norm(d.targets[0]) for b in body10 for d in ast.walk(b) if isinstance(d, ast.Assign)
                                      and any(isinstance(x, ast.Attribute) and x.attr == "default_value" for x in ast.walk(d.value))}
        commits, lookups = [], []
        for b in body10:
            for x in ast.walk(b):
                if isinstance(x, ast.Call) and callee(x) == "Binding":
                    vals = [k.value for k in x.keywords if k.arg == "value"] + list(x.args[1:2])
                    if any((isinstance(y, ast.Name) and y.id in dnames) or (isinstance(y, ast.Attribute) and y.attr == "default_value")
                           for v in vals for y in ast.walk(v)):
                        commits.append(x)
                keyed10 = lambda e: ".name" in norm(e)
                if isinstance(x, ast.Call) and isinstance(x.func, ast.Attribute) and x.func.attr in ("get_binding", "get", "__getitem__") \
                        and x.args and keyed10(x.args[0]) and norm(x.func.value) not in pscopes:
                    lookups.append(x)
                elif isinstance(x, ast.Subscript) and isinstance(x.ctx, ast.Load) and keyed10(x.slice) and norm(x.value) not in pscopes:
                    lookups.append(x)
                elif isinstance(x, ast.Compare) and len(x.ops) == 1 and isinstance(x.ops[0], (ast.In, ast.NotIn)) and keyed10(x.left) \
                        and norm(x.comparators[0]) not in pscopes:
                    lookups.append(x)
        if not commits or not lookups:
            res.unclass(f"{holder.key}: the default commit ({len(commits)}) or the lookup among the supplied attributes ({len(lookups)}) was not recognised")
            continue
        pos = lambda n_: (n_.lineno, n_.col_offset)
        first_lookup = min(lookups, key=pos)
        res.analysed_functions.add(holder.key)
        for cm in commits:
            r10.instances += 1
            ok = pos(first_lookup) < pos(cm)
            r10.ob(ok, {"region": holder.key, "default_commit": norm(cm)[:60], "supplied_lookup": norm(first_lookup)[:60]})
            if not ok:
                res.add("R-C10-10", (holder.key, "default committed before the supplied argument is looked up"), holder.loc(cm),
                        f"{holder.key}: `{norm(cm)[:60]}` comes before the first lookup among the supplied attributes "
                        f"(`{norm(first_lookup)[:50]}`): a formal that has a default and is also supplied resolves to its default — "
                        f"`({{ a, b ? 2 }}: b) {{ a = 1; b = 7; }}` gives 2")
    # ---------------------------------------------------------------- R-C10-8 (shared with R-C11-1): no aliasing between documents
    from sa.rules.c11 import setter_copy_rule
    r8 = res.rule("R-C10-8", "assigning through a reference installs a copy of the assigned expression: a result is never taken from "
                  "an unrelated document because one object carries two documents' chains (shared with R-C11-1)", floor=1)
    setter_copy_rule(prog, res, "R-C10-8", r8)
    # ---------------------------------------------------------------- R-C10-9 (shared with R-C11-3): chains are recomputed from the owner
    from sa.rules import c11 as _c11
    _sub11 = _c11.run(prog, _no_c10=True) if "_no_c10" in _c11.run.__code__.co_varnames else None
    if _sub11 is not None:
        _st = _sub11.rules.get("R-C11-3")
        _r9 = res.rule("R-C10-9", "a lookup sees the document as it is now: attach_resolution_context recomputes the chain from the owner "
                       "on every access that names one (shared with R-C11-3)", floor=2)
        if _st:
            _r9.instances, _r9.obligations, _r9.discharged = _st.instances, _st.obligations, _st.discharged
        for _f in _sub11.findings:
            if _f.rule == "R-C11-3":
                res.add("R-C10-9", _f.key, _f.where, _f.message)
    res.assumptions = ["_CONTEXTS is an unlocked dict relying on the GIL", "precedence among let/rec/formals at equal depth is runtime structure"]
    return res
