"""C12 — attribute names in paths are written and matched faithfully.

R-C12-1 writer/reader escape tables, R-C12-2 bare-name legality (shared with C05), R-C12-3 canonical
comparison on lookups, R-C12-4 per-segment tokenizer state is reset at every boundary.
"""
from __future__ import annotations

import ast
import re._constants as sre_c  # type: ignore
import re._parser as sre_parse  # type: ignore

from sa.cfg import CFG, edges_establishing
from sa.model import AnalysisError, Program, alpha, norm, walk_no_nested
from sa.report import Results
from sa.util import assignments_to, callee, dotted, is_const, strip_not, exc_name

MANIP = "nix_manipulator/cli/manipulations.py"
NIX_KEYWORDS = {"assert", "else", "if", "in", "inherit", "let", "or", "rec", "then", "with"}
FIRST_ALLOWED = set("abcdefghijklmnopqrstuvwxyzABCDEFGHIJKLMNOPQRSTUVWXYZ_")
REST_ALLOWED = FIRST_ALLOWED | set("0123456789'")
# how Nix decodes a backslash escape inside "..." : \n \r \t are control characters, any other \x is x
NIX_DECODE = {"n": "\n", "r": "\r", "t": "\t"}
# characters that cannot stand unescaped inside a Nix "..." string and still denote themselves
NIX_SPECIAL = {'"': "closes the string", "\\": "starts an escape", "\r": "the lexer normalises a raw CR to LF"}


def nix_decode_escape(text: str) -> str | None:
    """Decode a writer output such as '\\\\n' the way Nix's lexer would; None if it is not one escape."""
    if len(text) >= 2 and text[0] == "\\":
        rest = text[1:]
        if len(rest) == 1:
            return NIX_DECODE.get(rest, rest)
        if rest == "${":
            return "${"
        return None
    return text if len(text) == 1 else None


# ----------------------------------------------------------------------------------- regex analysis
def _charset(items) -> set[str] | None:
    """Characters (within Latin-1 + a few probes) matched by an IN item list; None if not decidable."""
    probes = [chr(i) for i in range(0, 256)] + ["é", "λ", "٠", " ", "漢"]
    out = set()
    negate = False
    for op, av in items:
        if op is sre_c.NEGATE:
            negate = True
        elif op is sre_c.LITERAL:
            out.add(chr(av))
        elif op is sre_c.RANGE:
            lo, hi = av
            if hi - lo > 4096:
                return None
            out |= {chr(c) for c in range(lo, hi + 1)}
        elif op is sre_c.CATEGORY:
            import re
            cat = {sre_c.CATEGORY_DIGIT: r"\d", sre_c.CATEGORY_WORD: r"\w", sre_c.CATEGORY_SPACE: r"\s",
                   sre_c.CATEGORY_NOT_DIGIT: r"\D", sre_c.CATEGORY_NOT_WORD: r"\W", sre_c.CATEGORY_NOT_SPACE: r"\S"}.get(av)
            if cat is None:
                return None
            out |= {p for p in probes if re.fullmatch(cat, p)}
        else:
            return None
    if negate:
        return {p for p in probes if p not in out}
    return out


def analyse_identifier_regex(pattern: str):
    """Return dict(first=set, rest=set, anchored_start, end_anchor) for patterns of the shape
    ^? [first] [rest]* ($|\\Z)? ; None when the shape is different."""
    try:
        tree = list(sre_parse.parse(pattern))
    except Exception:
        return None
    info = {"anchored_start": False, "end_anchor": None}
    if tree and tree[0][0] is sre_c.AT and tree[0][1] in (sre_c.AT_BEGINNING, sre_c.AT_BEGINNING_STRING):
        info["anchored_start"] = True
        tree = tree[1:]
    if tree and tree[-1][0] is sre_c.AT and tree[-1][1] in (sre_c.AT_END, sre_c.AT_END_STRING):
        info["end_anchor"] = "$" if tree[-1][1] is sre_c.AT_END else "\\Z"
        tree = tree[:-1]
    if len(tree) != 2:
        return None
    (op1, av1), (op2, av2) = tree
    if op1 is sre_c.IN:
        first = _charset(av1)
    elif op1 is sre_c.LITERAL:
        first = {chr(av1)}
    else:
        return None
    if op2 not in (sre_c.MAX_REPEAT, sre_c.MIN_REPEAT):
        return None
    lo, hi, sub = av2
    sub = list(sub)
    if len(sub) != 1 or sub[0][0] is not sre_c.IN:
        return None
    rest = _charset(sub[0][1])
    if first is None or rest is None:
        return None
    info.update(first=first, rest=rest, min_rest=lo)
    return info


def check_bare_names(prog: Program, res: Results, rid: str) -> None:
    """R-C05-1 / R-C12-2: bare attribute names are legal Nix identifiers."""
    r = res.rule(rid, "bare attribute names: the identifier regex is within Nix's alphabet, is applied to the whole "
                 "string, and keywords are never written bare", floor=3)
    val = prog.module_assigns.get(MANIP, {}).get("_NPATH_IDENTIFIER_RE")
    if not (isinstance(val, ast.Call) and dotted(val.func) == "re.compile" and val.args
            and isinstance(val.args[0], ast.Constant) and isinstance(val.args[0].value, str)):
        raise AnalysisError("_NPATH_IDENTIFIER_RE = re.compile(<literal>) not found")
    flags = val.args[1:] or [k.value for k in val.keywords]
    pattern = val.args[0].value
    info = analyse_identifier_regex(pattern)
    r.instances += 1
    if info is None or flags:
        res.unclass(f"_NPATH_IDENTIFIER_RE pattern {pattern!r} is not of the shape [first][rest]* — language not decidable by this rule")
        return
    bad_first = sorted(info["first"] - FIRST_ALLOWED)
    bad_rest = sorted(info["rest"] - REST_ALLOWED)
    ok = not bad_first and not bad_rest
    r.ob(ok, {"pattern": pattern, "first_extra": bad_first[:8], "rest_extra": bad_rest[:8]})
    if not ok:
        res.add(rid, ("_NPATH_IDENTIFIER_RE", "alphabet"), f"{MANIP}:{val.lineno}",
                f"the bare-name pattern {pattern!r} admits characters outside the bare alphabet "
                f"(first: {bad_first[:6]}, rest: {bad_rest[:6]}): such a name would be written unquoted")
    # use sites
    uses = []
    for f in prog.all_functions():
        for c in walk_no_nested(f.node):
            if isinstance(c, ast.Call) and isinstance(c.func, ast.Attribute) and dotted(c.func.value) == "_NPATH_IDENTIFIER_RE":
                uses.append((f, c))
    r.instances += len(uses)
    if not uses:
        raise AnalysisError("_NPATH_IDENTIFIER_RE is never applied")
    for f, c in uses:
        meth = c.func.attr
        whole = meth == "fullmatch" or (meth == "match" and info["end_anchor"] == "\\Z") or \
            (meth == "search" and info["anchored_start"] and info["end_anchor"] == "\\Z")
        r.ob(whole, {"site": f.key, "method": meth, "end_anchor": info["end_anchor"]})
        if not whole:
            why = "`$` also matches before a trailing newline" if info["end_anchor"] == "$" else "the end of the string is not anchored"
            res.add(rid, (f.key, "identifier match not whole-string"), f.loc(c),
                    f"{f.key} applies the bare-name pattern with .{meth}() and {why}: a name such as 'abc\\n' or a "
                    f"name with a legal prefix would be accepted as bare")
    # keyword guard in _format_attr_name
    fa = prog.func("_format_attr_name")
    res.analysed_functions.add(fa.key)
    cfg = CFG(fa.node)
    pname = fa.params()[0]
    from sa.util import Aliases
    al = Aliases(fa.node)

    def xd(x):  # dotted text after expanding locals that merely name an attribute (`name = segment.name`)
        return dotted(al.expand(x))
    bare_returns = [n for n in cfg.nodes if n.kind == "return" and xd(n.ast.value) == f"{pname}.name"]
    r.instances += len(bare_returns)
    if not bare_returns:
        res.unclass("_format_attr_name: no `return <segment>.name` (bare form) found")
        return

    def kw_tables():
        out = {}
        for name, v in prog.module_assigns.get(MANIP, {}).items():
            vals = None
            node = v
            if isinstance(node, ast.Call) and callee(node) in ("frozenset", "set", "tuple") and node.args:
                node = node.args[0]
            if isinstance(node, (ast.Set, ast.Tuple, ast.List)) and all(isinstance(e, ast.Constant) and isinstance(e.value, str) for e in node.elts):
                vals = {e.value for e in node.elts}
            if vals is not None:
                out[name] = vals
        return out

    tables = kw_tables()

    def not_keyword(a, truth):
        # `<seg>.name in TABLE` false, or `<seg>.name not in TABLE` true, TABLE ⊇ keywords; also keyword.iskeyword-like helpers
        if isinstance(a, ast.Compare) and len(a.ops) == 1 and xd(a.left) == f"{pname}.name":
            tbl = a.comparators[0]
            vals = None
            if isinstance(tbl, ast.Name):
                vals = tables.get(tbl.id)
            elif isinstance(tbl, (ast.Set, ast.Tuple, ast.List)):
                vals = {e.value for e in tbl.elts if isinstance(e, ast.Constant)}
            if vals is None or not NIX_KEYWORDS <= vals:
                return False
            return (isinstance(a.ops[0], ast.In) and truth is False) or (isinstance(a.ops[0], ast.NotIn) and truth is True)
        return False

    def matches_regex(a, truth):
        if isinstance(a, ast.Compare) and len(a.ops) == 1 and isinstance(a.comparators[0], ast.Constant) and a.comparators[0].value is None \
                and isinstance(a.ops[0], (ast.Is, ast.IsNot)):
            a, truth = a.left, (truth if isinstance(a.ops[0], ast.IsNot) else not truth)  # `m is not None` == the pattern matched
        return isinstance(a, ast.Call) and isinstance(a.func, ast.Attribute) and dotted(a.func.value) == "_NPATH_IDENTIFIER_RE" \
            and a.args and xd(a.args[0]) == f"{pname}.name" and truth is True

    def not_quoted(a, truth):
        return xd(a) == f"{pname}.quoted" and truth is False

    e_kw = edges_establishing(cfg, not_keyword)
    e_re = edges_establishing(cfg, matches_regex)
    e_nq = edges_establishing(cfg, not_quoted)
    # keywords may alternatively be excluded by the regex language itself (negative lookahead) - not the shape we accept
    for rt in bare_returns:
        a = cfg.all_paths_pass(rt, cut_edges=e_kw)
        b = cfg.all_paths_pass(rt, cut_edges=e_re)
        r.ob(a, {"bare_return": norm(rt.ast), "guard": "name not in Nix keywords"})
        r.ob(b, {"bare_return": norm(rt.ast), "guard": "identifier pattern matched"})
        if not a:
            res.add(rid, ("_format_attr_name", "keyword written bare"), fa.loc(rt.ast),
                    "the bare form is reachable without excluding the Nix keywords "
                    f"({', '.join(sorted(NIX_KEYWORDS))}): `set if 1` would emit `if = 1;`")
        if not b:
            res.add(rid, ("_format_attr_name", "bare form without identifier test"), fa.loc(rt.ast),
                    "the bare form is reachable without the identifier pattern having matched the name")
        c_ = cfg.all_paths_pass(rt, cut_edges=e_nq)
        r.ob(c_, {"bare_return": norm(rt.ast), "guard": "segment was not written in quotes"})
        if not c_:
            res.add(rid, ("_format_attr_name", "quoted segment written bare"), fa.loc(rt.ast),
                    "the bare form is reachable for a segment the user wrote in quotes: lookups compare spellings (R-C12-3), so "
                    "`set '\"version\"' 2` no longer finds `\"version\" = 1;` and appends a duplicate `version = 2;`")
    # quoted form: escape with interpolation escaping and wrap in quotes
    quoted = [n for n in cfg.nodes if n.kind == "return" and n not in bare_returns]
    for q in quoted:
        r.instances += 1
        v = q.ast.value
        ok = False
        if isinstance(v, ast.JoinedStr) and len(v.values) == 3 and is_const(v.values[0], '"') and is_const(v.values[2], '"') \
                and isinstance(v.values[1], ast.FormattedValue):
            inner = v.values[1].value
            if isinstance(inner, ast.Name):
                ds = assignments_to(fa.node, inner.id)
                inner = ds[0].value if len(ds) == 1 and isinstance(ds[0], ast.Assign) else None
            if isinstance(inner, ast.Call) and callee(inner) == "_escape_nix_string" and inner.args and \
                    xd(inner.args[0]) == f"{pname}.name" and any(k.arg == "escape_interpolation" and is_const(k.value, True) for k in inner.keywords):
                ok = True
        r.ob(ok, {"quoted_return": norm(q.ast)[:80]})
        if not ok:
            res.add(rid, ("_format_attr_name", "quoted form"), fa.loc(q.ast),
                    f"the quoted form `{norm(q.ast)[:70]}` is not '\"' + _escape_nix_string(name, escape_interpolation=True) + '\"'")


# ----------------------------------------------------------------------------------- escape tables
def extract_writer_table(fn: ast.FunctionDef):
    """From the `if ch == "x": escaped.append("y") elif ...` chain: {char: emitted}, interpolation arm, default arm."""
    loops = [n for n in walk_no_nested(fn) if isinstance(n, ast.While)]
    if len(loops) != 1:
        return None
    loop = loops[0]
    chain = next((s for s in loop.body if isinstance(s, ast.If)), None)
    if chain is None:
        return None
    table = {}
    interp = None
    default = None
    cur = chain
    while True:
        test = cur.test
        appended = [c for s in cur.body for c in ast.walk(s) if isinstance(c, ast.Call) and callee(c) == "append"]
        if isinstance(test, ast.Compare) and len(test.ops) == 1 and isinstance(test.ops[0], ast.Eq) and isinstance(test.left, ast.Name) \
                and isinstance(test.comparators[0], ast.Constant) and len(appended) == 1 and isinstance(appended[0].args[0], ast.Constant):
            table[test.comparators[0].value] = appended[0].args[0].value
        elif isinstance(test, ast.Compare) and len(test.ops) == 1 and isinstance(test.ops[0], ast.In) and isinstance(test.left, ast.Name) \
                and isinstance(test.comparators[0], (ast.Tuple, ast.List, ast.Set)):
            # ch in ('"', '\\') -> append('\\' + ch)
            for e in test.comparators[0].elts:
                if isinstance(e, ast.Constant) and len(appended) == 1:
                    a = appended[0].args[0]
                    if isinstance(a, ast.BinOp) and isinstance(a.left, ast.Constant) and isinstance(a.right, ast.Name):
                        table[e.value] = a.left.value + e.value
                    elif isinstance(a, ast.Name):
                        table[e.value] = e.value
        else:
            interp = (cur, test, appended)
        if len(cur.orelse) == 1 and isinstance(cur.orelse[0], ast.If):
            cur = cur.orelse[0]
            continue
        default = cur.orelse
        break
    return {"table": table, "interp": interp, "default": default, "loop": loop, "chain": chain}


# encoders of other languages: the escapes they emit that Nix's lexer reads differently (Nix: \\n \\r \\t, any other \\x is x)
FOREIGN_ENCODERS = {
    "json.dumps": "JSON writes control characters as \\b, \\f and \\uXXXX, which Nix reads as the letters b, f and uXXXX",
    "dumps": "JSON writes control characters as \\b, \\f and \\uXXXX, which Nix reads as the letters b, f and uXXXX",
    "repr": "Python repr writes \\xNN / \\uNNNN / \\a-style escapes and may choose single quotes; Nix reads \\x41 as x41",
    "ascii": "Python ascii() writes \\xNN / \\uNNNN escapes, which Nix reads as literal letters and digits",
    "unicode_escape": "the unicode_escape codec writes \\xNN / \\uNNNN escapes, which Nix reads as literal letters and digits",
    "shlex.quote": "shell quoting is not Nix string syntax",
    "quote": "shell/URL quoting is not Nix string syntax",
}


def foreign_encoders(fn: ast.AST):
    out = []
    for c in ast.walk(fn):
        if isinstance(c, ast.Call):
            d = dotted(c.func)
            if d in FOREIGN_ENCODERS:
                out.append((c, (d, FOREIGN_ENCODERS[d])))
            elif isinstance(c.func, ast.Attribute) and c.func.attr in ("encode", "decode") and any(
                    isinstance(a, ast.Constant) and a.value in ("unicode_escape", "unicode-escape", "string_escape") for a in list(c.args) + [k.value for k in c.keywords]):
                out.append((c, ("unicode_escape", FOREIGN_ENCODERS["unicode_escape"])))
    return out


def _pieces(path, sink_methods=("append",)):
    """text pieces a path of a per-character loop emits: arguments of <list>.append(...) and `<str> += ...`"""
    out = []
    for a in path.actions:
        if a[0] == "call" and a[1].split(".")[-1] in sink_methods and a[2]:
            out.append(a[2][0])
        elif a[0] == "aug" and isinstance(a[2], str):
            out.append(a[2])
    return out


def _conj_atoms(test: ast.AST, truth: bool):
    t, neg = strip_not(test)
    if neg:
        truth = not truth
    if isinstance(t, ast.BoolOp) and ((isinstance(t.op, ast.And) and truth) or (isinstance(t.op, ast.Or) and not truth)):
        for v in t.values:
            yield from _conj_atoms(v, truth)
    else:
        yield t, truth


def check_writer(prog: Program, res: Results, rid: str) -> dict:
    """The escaper is specialised per character (sa/charmachine.py): whatever its spelling (if/elif chain, lookup table,
    nested ifs), the text it emits for each character of the alphabet is read off and compared with Nix's lexer."""
    from sa.charmachine import UNKNOWN, Machine, char_loop, module_constants, preloop_constants
    r = res.rule(rid, "writer/reader escape tables: every character special inside a Nix string is escaped, each emitted "
                 "escape decodes to the original character, `${` is escaped exactly when requested, the NPath reader "
                 "decodes what the documentation promises", floor=6)
    ef = prog.func("_escape_nix_string")
    res.analysed_functions.add(ef.key)
    cl = char_loop(ef.node)
    if cl is None:
        foreign = foreign_encoders(ef.node)
        r.instances += 1
        for c, (name, why) in foreign:
            r.ob(False, {"escaper_delegates_to": name})
            res.add(rid, ("_escape_nix_string", "escaping delegated to a foreign encoder", name), ef.loc(c),
                    f"_escape_nix_string delegates to `{norm(c)[:60]}`: {why}")
        if not foreign:
            res.unclass("_escape_nix_string: no per-character loop was found")
        return {}
    loop, chv, idxv, src, body = cl
    m = Machine(module_constants(prog, ef.module), cursor=(src, idxv) if idxv else None)
    init = preloop_constants(ef.node, loop)
    init.pop(idxv, None)
    flag = ef.node.args.kwonlyargs[0].arg if ef.node.args.kwonlyargs else "escape_interpolation"

    def run(c, **extra):
        return [p for p in m.run(body, {**init, chv: c, "@ch": c, **extra}) if p.exit != "raise"]

    table = {}
    alphabet = list(NIX_SPECIAL) + ["\n", "\t", "{", "}", "'", " ", "a", "Z", "0", "\x00", "\u00e9"]
    for ch in alphabet:
        paths = run(ch)
        outs = {tuple(_pieces(p)) if all(isinstance(x, str) for x in _pieces(p)) else None for p in paths}
        if None in outs or not outs:
            res.unclass(f"_escape_nix_string: the text emitted for {ch!r} is not a constant on some path")
            return {}
        joined = {"".join(o) for o in outs}
        if len(joined) != 1:
            res.add(rid, ("_escape_nix_string", "escape depends on context", repr(ch)), ef.loc(loop),
                    f"{ch!r} is written as one of {sorted(joined)} depending on tests that do not concern the character")
            continue
        table[ch] = joined.pop()
    r.instances += len(table)
    for ch, why in NIX_SPECIAL.items():
        ok = ch in table and table[ch] != ch
        r.ob(ok, {"special": repr(ch), "escaped_as": table.get(ch)})
        if not ok and ch in table:
            res.add(rid, ("_escape_nix_string", "special character not escaped", repr(ch)), ef.loc(loop),
                    f"{ch!r} is written unescaped although it {why}")
    for ch, emitted in table.items():
        if emitted == ch and ch in NIX_SPECIAL:
            continue
        dec = nix_decode_escape(emitted)
        ok = dec == ch
        r.ob(ok, {"char": repr(ch), "emitted": emitted, "nix_reads": repr(dec)})
        if not ok:
            if ch in ("a", "Z", "0", " ", "\x00", "\u00e9", "{", "}", "'"):
                res.add(rid, ("_escape_nix_string", "default arm"), ef.loc(loop),
                        "the default arm of the escaper does not append the character unchanged")
            else:
                res.add(rid, ("_escape_nix_string", "escape decodes differently", repr(ch)), ef.loc(loop),
                        f"{ch!r} is written as {emitted!r}, which Nix reads back as {dec!r}")
    # interpolation: `$` followed by `{` is escaped exactly when the flag asks for it
    r.instances += 1
    off = run("$", **{flag: False})
    bad_off = [p for p in off if _pieces(p) != ["$"]]
    on = run("$", **{flag: True})
    emitting = [p for p in on if _pieces(p) != ["$"]]
    if not emitting:
        res.add(rid, ("_escape_nix_string", "no interpolation arm"), ef.loc(loop),
                "`${` is never escaped: an attribute name containing `${` would become an interpolation")
    else:
        env0 = {**init, chv: "$", "@ch": "$", flag: True}
        seen_brace = False
        for p in emitting:
            for test, truth in p.decisions:
                for c, tv in _conj_atoms(test, truth):
                    if m.ev(c, env0) is not UNKNOWN:
                        continue
                    t = norm(c)
                    look = (isinstance(c, ast.Compare) and len(c.ops) == 1 and m.ev(c.comparators[0], env0) == "{" and isinstance(c.ops[0], ast.Eq)
                            and isinstance(c.left, ast.Subscript) and "+ 1" in norm(c.left.slice)) or \
                           (isinstance(c, ast.Call) and callee(c) == "startswith" and c.args and m.ev(c.args[0], env0) == "${") or \
                           (isinstance(c, ast.Compare) and len(c.ops) == 1 and isinstance(c.ops[0], ast.Eq) and m.ev(c.comparators[0], env0) == "${"
                            and isinstance(c.left, ast.Subscript) and isinstance(c.left.slice, ast.Slice))
                    if look and tv:
                        seen_brace = True
                    elif isinstance(c, ast.Compare) and isinstance(c.ops[0], (ast.Lt, ast.LtE, ast.Gt, ast.GtE)) and "len(" in t:
                        pass  # bounds check implied by the lookahead
                    elif isinstance(c, ast.Name) and init.get(c.id) is False:
                        pass  # a skip flag of the loop itself
                    else:
                        r.ob(False, {"interpolation_arm_extra_condition": t})
                        res.add(rid, ("_escape_nix_string", "interpolation arm extra condition", t), ef.loc(c),
                                f"escaping of `${{` is additionally conditioned on `{t}`: for some names `${{` is written "
                                f"unescaped and Nix reads an interpolation")
        ok = seen_brace and not bad_off
        r.ob(ok, {"interpolation_arm": "flag and `$` followed by `{`", "escapes_without_flag": len(bad_off)})
        if not ok:
            res.add(rid, ("_escape_nix_string", "interpolation arm condition"), ef.loc(loop),
                    "the interpolation arm does not test <flag> and `$` followed by `{`")
        emitted = sorted({"".join(x if isinstance(x, str) else "?" for x in _pieces(p)) for p in emitting})
        ok = emitted == ["\\${"]
        r.ob(ok, {"interpolation_emitted": emitted})
        if not ok:
            res.add(rid, ("_escape_nix_string", "interpolation escape text"), ef.loc(loop),
                    f"the interpolation arm emits {emitted!r}, expected ['\\\\${{']")
        # both characters are consumed: `index += 2; continue`, or a skip flag that makes the next iteration emit nothing
        adv_ok = True
        for p in emitting:
            jumps = [a for a in p.actions if a[0] == "aug" and a[1] == idxv and a[2] == 2]
            skip_flags = [a[1] for a in p.actions if a[0] == "assign" and a[2] is True and init.get(a[1]) is False]
            via_flag = False
            for sf in skip_flags:
                nxt = run("{", **{sf: True})
                if nxt and all(not _pieces(q) and False in q.assigned(sf) for q in nxt):
                    via_flag = True
            if not ((jumps and p.exit == "continue") or via_flag):
                adv_ok = False
        r.ob(adv_ok, {"interpolation_consumes_both_characters": adv_ok})
        if not adv_ok:
            res.add(rid, ("_escape_nix_string", "interpolation arm advance"), ef.loc(loop),
                    "the interpolation arm does not consume both characters (`index += 2; continue`): `{` would be emitted twice or re-examined")
    # the result is the join of the pieces
    rets = [n for n in walk_no_nested(ef.node) if isinstance(n, ast.Return)]
    ok = len(rets) == 1 and isinstance(rets[0].value, ast.Call) and callee(rets[0].value) == "join" and is_const(rets[0].value.func.value, "")
    r.ob(ok, {"return": norm(rets[0]) if rets else None})
    if not ok:
        res.add(rid, ("_escape_nix_string", "return"), ef.loc(), "the escaper does not return ''.join(pieces)")
    return table


def npath_scanner(prog: Program):
    """the NPath reader as a character machine with its state flags identified by what they do, not by their names:
    -> (func, machine, body, char var, initial flags, quote flag, escape flag, loop)"""
    from sa.charmachine import Machine, char_loop, module_constants, preloop_constants
    pf = prog.func("_parse_npath")
    cl = char_loop(pf.node)
    if cl is None:
        return None
    loop, chv, idxv, src, body = cl
    m = Machine(module_constants(prog, pf.module))
    init = {k: v for k, v in preloop_constants(pf.node, loop).items() if isinstance(v, bool)}

    def run(c, **flags):
        return m.run(body, {**init, chv: c, **flags})

    q = e = None
    for p in run('"'):
        if p.exit != "raise":
            for a in p.actions:
                if a[0] == "assign" and a[2] is True and init.get(a[1]) is False:
                    q = a[1]
    if q is not None:
        for p in run("\\", **{q: True}):
            for a in p.actions:
                if a[0] == "assign" and a[2] is True and init.get(a[1]) is False and a[1] != q:
                    e = a[1]
    if q is None or e is None:
        return None
    return pf, m, body, chv, init, q, e, loop


def check_reader(prog: Program, res: Results, rid: str) -> None:
    r = res.rules[rid]
    sc = npath_scanner(prog)
    if sc is None:
        res.unclass("_parse_npath: the quoted/escape state flags of the scanning loop were not recognised")
        return
    pf, m, body, chv, init, q, e, loop = sc
    res.analysed_functions.add(pf.key)
    want = {"n": "\n", "r": "\r", "t": "\t", '"': '"', "\\": "\\", "x": "\\x", "$": "\\$"}
    r.instances += len(want)
    cleared = True
    for k, v in want.items():
        paths = m.run(body, {**init, chv: k, q: True, e: True})
        outs = {tuple(_pieces(p)) for p in paths}
        got = outs.pop() if len(outs) == 1 else None
        ok = got == (v,)
        if k in ("x", "$"):
            if not ok:
                r.ob(False, {"npath_escape_default": repr(got)})
                res.add(rid, ("_parse_npath", "escape", "default"), pf.loc(loop),
                        f"the NPath reader decodes an unknown escape \\{k} to {got!r}, expected the two characters unchanged")
            continue
        r.ob(ok, {"npath_escape": "\\" + k, "decodes_to": repr(got)})
        if not ok:
            res.add(rid, ("_parse_npath", "escape", "\\" + k), pf.loc(loop),
                    f"the NPath reader decodes \\{k} to {got[0] if got else None!r}, documented {v!r}")
        if not all(False in p.assigned(e) or p.env.get(e) is False for p in paths):
            cleared = False
    r.ob(cleared, {"escape_flag_cleared": cleared})
    if not cleared:
        res.add(rid, ("_parse_npath", "escape flag not cleared"), pf.loc(loop),
                "the escape flag is not cleared after the escaped character")


def _segment_state_inline(prog: Program, res: Results, r, pf) -> None:
    """R-C12-4 when the segment finaliser is not a closure any more: the same obligations read off the scanner specialised to
    `.` outside quotes — on every such path a segment is appended to the result and the buffer and the quoted flag are reset;
    inside quotes no segment is appended; after the scan a pending escape / open quote is rejected."""
    from sa.charmachine import UNKNOWN
    sc = npath_scanner(prog)
    if sc is None:
        res.unclass("_parse_npath: the quoted/escape state flags of the scanning loop were not recognised")
        return
    _pf, m, body, chv, init, q, e, loop = sc
    res.analysed_functions.add(pf.key)
    # roles: the buffer receives an ordinary character; the quoted flag is set when a quote closes
    buf = next((a[1].rsplit(".", 1)[0] for p_ in m.run(body, {**init, chv: "a"}) for a in p_.actions
                if a[0] == "call" and a[1].endswith(".append") and a[2] == ["a"]), None)
    quoted = next((a[1] for p_ in m.run(body, {**init, chv: '"', q: True, e: False}) for a in p_.actions
                   if a[0] == "assign" and a[2] is True and a[1] not in (q, e)), None)
    if buf is None or quoted is None:
        res.unclass("_parse_npath: buffer / quoted-flag of the scanner were not recognised")
        return

    def appended_segment(p_):
        return any(a[0] == "call" and a[1].endswith(".append") and not a[1].startswith(buf + ".") for a in p_.actions)

    def resets(p_, var, empty):
        return any((a[0] == "assign" and a[1] == var and (a[2] == empty or (empty == [] and a[2] in ([], ())))) or
                   (a[0] == "call" and a[1] == f"{var}.clear") for a in p_.actions)

    outside = [p_ for p_ in m.run(body, {**init, chv: "."}) if p_.exit != "raise"]
    r.instances += 2
    if not outside or not all(appended_segment(p_) for p_ in outside):
        res.unclass("_parse_npath: a `.` outside quotes does not append a segment on every path — scanner shape not classifiable")
        return
    for var, empty in ((buf, []), (quoted, False)):
        ok = all(resets(p_, var, empty) for p_ in outside)
        r.ob(ok, {"state": var, "reset_on_every_normal_exit": ok})
        if not ok:
            res.add("R-C12-4", ("_parse_npath.finalize_segment", "state not reset", var), pf.loc(loop),
                    f"`{var}` is per-segment state but is not reset on every path that finalises a segment: it leaks into the next "
                    f"segment of the same path")
    r.instances += 2
    for esc_state in (False, True):
        inside = m.run(body, {**init, chv: ".", q: True, e: esc_state})
        ok = not any(appended_segment(p_) for p_ in inside)
        r.ob(ok, {"dot_split": "outside quotes only", "escape_pending": esc_state})
        if not ok:
            res.add("R-C12-4", ("_parse_npath", "dot split inside quotes"), pf.loc(loop),
                    "the `.` separator test is reachable while in_quotes is true: a quoted name containing a dot would be split")
    for rs in [n for n in ast.walk(pf.node) if isinstance(n, ast.Raise)]:
        r.instances += 1
        ok = exc_name(rs.exc) == "ValueError"
        r.ob(ok, {"raise": norm(rs)[:70]})
        if not ok:
            res.add("R-C12-4", ("_parse_npath", "raise type", alpha(rs, pf.node)[:60]), pf.loc(rs),
                    "a malformed path is rejected with something other than ValueError")
    after = pf.node.body[pf.node.body.index(loop) + 1:] if loop in pf.node.body else []
    for what, st in {"dangling escape": {e: True, q: True}, "unterminated": {e: False, q: True}}.items():
        paths = m.run(after, {**init, **st})
        ok = bool(paths) and all(p_.exit == "raise" for p_ in paths)
        r.ob(ok, {"end_of_input_check": what})
        if not ok:
            res.add("R-C12-4", ("_parse_npath", "end check", what), pf.loc(),
                    f"after the scan, a {what} quoted segment is not rejected")


def check_segment_state(prog: Program, res: Results) -> None:
    """R-C12-4: the tokenizer's per-segment state is reset when a segment is finalised."""
    r = res.rule("R-C12-4", "per-segment tokenizer state (buffer, quoted flag) is reset at every segment boundary; dots split "
                 "only outside quotes; malformed paths raise ValueError", floor=3)
    pf = prog.func("_parse_npath")
    fin = pf.nested.get("finalize_segment")
    if fin is None:
        _segment_state_inline(prog, res, r, pf)
        return
    res.analysed_functions.add(fin.key)
    # state variables: locals of _parse_npath that finalize_segment reads and the scanning loop writes
    outer_assigned = {t.id for s in pf.node.body if isinstance(s, (ast.Assign, ast.AnnAssign))
                      for t in ([s.target] if isinstance(s, ast.AnnAssign) else s.targets) if isinstance(t, ast.Name)}
    read_in_fin = {n.id for n in ast.walk(fin.node) if isinstance(n, ast.Name) and isinstance(n.ctx, ast.Load)}
    loop = next((s for s in pf.node.body if isinstance(s, ast.For)), None)
    if loop is None:
        res.unclass("_parse_npath: scanning loop not found")
        return
    written_in_loop = set()
    for n in ast.walk(loop):
        if isinstance(n, ast.Assign):
            for t in n.targets:
                if isinstance(t, ast.Name):
                    written_in_loop.add(t.id)
        if isinstance(n, ast.Call) and isinstance(n.func, ast.Attribute) and n.func.attr in ("append", "extend") and isinstance(n.func.value, ast.Name):
            written_in_loop.add(n.func.value.id)
    state = sorted((outer_assigned & read_in_fin & written_in_loop) - {"segments"})
    r.instances += len(state)
    cfg = CFG(fin.node)
    nonlocals = {nm for n in ast.walk(fin.node) if isinstance(n, ast.Nonlocal) for nm in n.names}
    for var in state:
        resets = []
        for n in cfg.nodes:
            a = n.ast
            if isinstance(a, ast.Assign) and any(isinstance(t, ast.Name) and t.id == var for t in a.targets) and var in nonlocals:
                if isinstance(a.value, (ast.Constant, ast.List)) and not getattr(a.value, "elts", None):
                    resets.append(n)
            if isinstance(a, ast.Expr) and isinstance(a.value, ast.Call) and dotted(a.value.func) == f"{var}.clear":
                resets.append(n)
        ok = bool(resets) and cfg.postdominated_by(cfg.entry, resets)
        r.ob(ok, {"state": var, "reset_on_every_normal_exit": ok})
        if not ok:
            res.add("R-C12-4", ("_parse_npath.finalize_segment", "state not reset", var), fin.loc(),
                    f"`{var}` is per-segment state (read by finalize_segment, written by the scanner) but is not reset on "
                    f"every normal exit of finalize_segment: it leaks into the next segment of the same path")
    # dots split only outside quotes: the scanner specialised to (`.`, quoted state) never finalises a segment
    sc = npath_scanner(prog)
    if sc is None:
        res.unclass("_parse_npath: the quoted/escape state flags of the scanning loop were not recognised")
        return
    _pf, m, body, chv, init, quote_var, esc_var, _loop = sc
    fin_name = fin.node.name

    def finalises(path):
        return any(a[0] == "call" and a[1] == fin_name for a in path.actions)

    outside = [p_ for p_ in m.run(body, {**init, chv: "."}) if p_.exit != "raise"]
    if not outside or not all(finalises(p_) for p_ in outside):
        res.unclass("_parse_npath: a `.` outside quotes does not finalise the segment on every path — scanner shape not classifiable")
        return
    r.instances += 2
    for esc_state in (False, True):
        inside = m.run(body, {**init, chv: ".", quote_var: True, esc_var: esc_state})
        ok = not any(finalises(p_) for p_ in inside)
        r.ob(ok, {"dot_split": "outside quotes only", "escape_pending": esc_state})
        if not ok:
            res.add("R-C12-4", ("_parse_npath", "dot split inside quotes"), pf.loc(loop),
                    "the `.` separator test is reachable while in_quotes is true: a quoted name containing a dot would be split")
    # malformed input raises ValueError
    for rs in [n for n in ast.walk(pf.node) if isinstance(n, ast.Raise)]:
        r.instances += 1
        ok = exc_name(rs.exc) == "ValueError"
        r.ob(ok, {"raise": norm(rs)[:70]})
        if not ok:
            res.add("R-C12-4", ("_parse_npath", "raise type", alpha(rs, pf.node)[:60]), pf.loc(rs),
                    "a malformed path is rejected with something other than ValueError")
    # after the scan, a pending escape or an open quote is rejected (the statements after the loop, specialised to that state)
    after = pf.node.body[pf.node.body.index(loop) + 1:] if loop in pf.node.body else []
    need = {"dangling escape": {esc_var: True, quote_var: True}, "unterminated": {esc_var: False, quote_var: True}}
    for what, st in need.items():
        paths = m.run(after, {**init, **st})
        ok = bool(paths) and all(p_.exit == "raise" for p_ in paths)
        r.ob(ok, {"end_of_input_check": what})
        if not ok:
            res.add("R-C12-4", ("_parse_npath", "end check", what), pf.loc(),
                    f"after the scan, a {what} quoted segment is not rejected")


LOOKUP_FUNCS = ["_find_binding", "_find_named_binding", "_find_attrpath_root", "Scope._find_binding_index",
                "AttributeSet.__getitem__", "AttributeSet.__setitem__", "AttributeSet.__delitem__",
                "_merge_attrpath_bindings", "_merge_attrpath_sets", "LetExpression.__getitem__", "LetExpression.__setitem__",
                "LetExpression.__delitem__"]


def check_canonical_lookups(prog: Program, res: Results) -> None:
    r = res.rule("R-C12-3", "every name comparison on the lookup paths applies one canonicalising function to both operands "
                 "(Nix reads foo-bar / \"foo-bar\" and a / \"a\" as the same name)", floor=6)
    for key in LOOKUP_FUNCS:
        if not prog.has_func(key):
            continue
        f = prog.func(key)
        res.analysed_functions.add(key)
        sites = []
        for n in ast.walk(f.node):
            if isinstance(n, ast.Compare) and len(n.ops) == 1 and isinstance(n.ops[0], (ast.Eq, ast.NotEq)):
                sides = [n.left, n.comparators[0]]
                if any(isinstance(s, ast.Attribute) and s.attr == "name" for s in sides):
                    sites.append(n)
        for s in sites:
            r.instances += 1
            sides = [s.left, s.comparators[0]]
            canon = all(isinstance(x, ast.Call) and ("canon" in (callee(x) or "") or callee(x) in ("_segment_name", "_attr_key")) for x in sides)
            r.ob(canon, {"site": key, "comparison": norm(s)})
            if not canon:
                res.add("R-C12-3", (key, "raw spelling comparison"), f.loc(s),
                        f"{key} compares attribute names by their spelling (`{norm(s)}`): a bare name in the file and its "
                        f"quoted NPath spelling (or vice versa) are treated as different attributes")



# ----------------------------------------------------------------------------------- escape state machines
def check_escape_machines(prog: Program, res: Results) -> None:
    """R-C12-5: every quoted-state scanner follows Nix's rule: after a backslash the next character is taken literally
    (whatever it is), a backslash outside an escape starts one, an unescaped quote ends the quoted state."""
    from sa.dtable import outcome
    r = res.rule("R-C12-5", "quoted-state scanners agree with Nix's lexer row by row: (escape pending, any char) -> only clears the "
                 "escape; (no escape, backslash) -> sets it; (no escape, quote) -> leaves the quoted state; (no escape, other) -> "
                 "neither — whatever the arrangement of the branches", floor=12)
    machines = 0
    found_in: set = set()

    def rows_for(f, n, body, q, e, ch):
        nonlocal machines
        machines += 1
        found_in.add(f.key)
        res.analysed_functions.add(f.key)
        set_e, clr_e, leave = f"{e} = True", f"{e} = False", f"{q} = False"
        rows = [
            ("escape pending, backslash", {q: True, e: True, ch: "\\"}, {clr_e}, {set_e, leave}),
            ("escape pending, quote", {q: True, e: True, ch: '"'}, {clr_e}, {set_e, leave}),
            ("escape pending, other", {q: True, e: True, ch: "a"}, {clr_e}, {set_e, leave}),
            ("no escape, backslash", {q: True, e: False, ch: "\\"}, {set_e}, {leave}),
            ("no escape, quote", {q: True, e: False, ch: '"'}, {leave}, {set_e}),
            ("no escape, other", {q: True, e: False, ch: "a"}, set(), {set_e, leave}),
        ]
        for name, env, must, never in rows:
            r.instances += 1
            o = outcome(body, env)
            ok = must <= o.must and not (never & o.may)
            r.ob(ok, {"scanner": f.key, "state": q, "row": name, "must": sorted(o.must & (must | never)), "may": sorted(o.may & (must | never))})
            if not ok:
                res.add("R-C12-5", (f.key, q, "escape machine row", name), f.loc(n),
                        f"{f.key}: in the `{q}` state with {name}, the scanner must do {sorted(must) or 'nothing'} and never "
                        f"{sorted(never)}, but it must-does {sorted(o.must & (must | never | {clr_e}))} and may do "
                        f"{sorted(o.may & (must | never))}: e.g. the name `a\\\\` (ending in an escaped backslash) is read with the closing "
                        f"quote taken for an escaped one")

    for f in prog.all_functions():
        if f.module.endswith("color.py"):
            continue
        for n in walk_no_nested(f.node):
            if not isinstance(n, ast.If):
                continue
            if isinstance(n.test, ast.Name):
                q, body = n.test.id, n.body
            elif isinstance(n.test, ast.UnaryOp) and isinstance(n.test.op, ast.Not) and isinstance(n.test.operand, ast.Name) and n.orelse:
                q, body = n.test.operand.id, n.orelse  # `if not in_quotes: … else: <quoted state>`
            else:
                continue
            consts = {}
            for x in ast.walk(ast.Module(body=body, type_ignores=[])):
                if isinstance(x, ast.Assign) and len(x.targets) == 1 and isinstance(x.targets[0], ast.Name) and isinstance(x.value, ast.Constant) \
                        and isinstance(x.value.value, bool):
                    consts.setdefault(x.targets[0].id, set()).add(x.value.value)
            escs = [k for k, v in consts.items() if v == {True, False} and k != q]
            if False not in consts.get(q, set()) or len(escs) != 1:
                continue
            e = escs[0]
            chars = {norm(c.left) for c in ast.walk(ast.Module(body=body, type_ignores=[])) if isinstance(c, ast.Compare) and len(c.ops) == 1
                     and isinstance(c.ops[0], ast.Eq) and isinstance(c.comparators[0], ast.Constant) and c.comparators[0].value in ("\\", '"')}
            if len(chars) != 1:
                continue
            ch = chars.pop()
            machines += 1
            found_in.add(f.key)
            res.analysed_functions.add(f.key)
            set_e, clr_e, leave = f"{e} = True", f"{e} = False", f"{q} = False"
            rows = [
                ("escape pending, backslash", {e: True, ch: "\\"}, {clr_e}, {set_e, leave}),
                ("escape pending, quote", {e: True, ch: '"'}, {clr_e}, {set_e, leave}),
                ("escape pending, other", {e: True, ch: "a"}, {clr_e}, {set_e, leave}),
                ("no escape, backslash", {e: False, ch: "\\"}, {set_e}, {leave}),
                ("no escape, quote", {e: False, ch: '"'}, {leave}, {set_e}),
                ("no escape, other", {e: False, ch: "a"}, set(), {set_e, leave}),
            ]
            for name, env, must, never in rows:
                r.instances += 1
                o = outcome(body, env)
                ok = must <= o.must and not (never & o.may)
                r.ob(ok, {"scanner": f.key, "state": q, "row": name, "must": sorted(o.must & (must | never)), "may": sorted(o.may & (must | never))})
                if not ok:
                    res.add("R-C12-5", (f.key, q, "escape machine row", name), f.loc(n),
                            f"{f.key}: in the `{q}` state with {name}, the scanner must do {sorted(must) or 'nothing'} and never "
                            f"{sorted(never)}, but it must-does {sorted(o.must & (must | never | {clr_e}))} and may do "
                            f"{sorted(o.may & (must | never))}: e.g. the name `a\\\\` (ending in an escaped backslash) is read with the closing "
                            f"quote taken for an escaped one")
    # a scanner whose arms are arranged differently (`if escape: … elif in_quotes: …`): the roles are read off the loop — the
    # escape flag is the one a backslash sets, the quoted flag the one a quote clears — and the rows are evaluated on the whole
    # loop body under "inside quotes"
    for f in prog.all_functions():
        if f.key in found_in or f.module.endswith("color.py"):
            continue
        for lp in [l for l in walk_no_nested(f.node) if isinstance(l, ast.For) and isinstance(l.target, ast.Name)]:
            ch = lp.target.id
            flags = {}
            for x in ast.walk(lp):
                if isinstance(x, ast.Assign) and len(x.targets) == 1 and isinstance(x.targets[0], ast.Name) and isinstance(x.value, ast.Constant) \
                        and isinstance(x.value.value, bool):
                    flags.setdefault(x.targets[0].id, set()).add(x.value.value)
            both = {k for k, v in flags.items() if v == {True, False}}
            if len(both) < 2 or not any(isinstance(c, ast.Compare) and norm(c.left) == ch and isinstance(c.comparators[0], ast.Constant)
                                         and c.comparators[0].value == "\\" for c in ast.walk(lp)):
                continue
            on_bs = outcome(lp.body, {ch: "\\"})
            on_q = outcome(lp.body, {ch: '"'})
            es = sorted(k for k in both if f"{k} = True" in on_bs.may and f"{k} = True" not in on_q.may)
            qs = sorted(k for k in both if f"{k} = False" in on_q.may and k not in es)
            if len(es) == 1 and len(qs) == 1:
                rows_for(f, lp, lp.body, qs[0], es[0], ch)
    # the same question for the whole scanner loop: while an escape is pending inside quotes, `${` does not open an interpolation
    sa_ = prog.func("_split_attrpath")
    loops = [l for l in walk_no_nested(sa_.node) if isinstance(l, (ast.While, ast.For))]
    if len(loops) == 1:
        lp = loops[0]
        state_vars = {}
        for x in ast.walk(lp):
            if isinstance(x, ast.Assign) and len(x.targets) == 1 and isinstance(x.targets[0], ast.Name) and isinstance(x.value, ast.Constant) \
                    and isinstance(x.value.value, (bool, int)):
                state_vars.setdefault(x.targets[0].id, set()).add(x.value.value)
        q = next((v for v in state_vars if "quote" in v and not v.startswith("interp")), None)
        e = next((v for v in state_vars if v.startswith("escape")), None)
        depth = next((v for v in state_vars if "depth" in v), None)
        chv = next((norm(d.targets[0]) for d in lp.body if isinstance(d, ast.Assign) and isinstance(d.value, ast.Subscript)
                    and isinstance(d.targets[0], ast.Name) and isinstance(d.value.value, ast.Name) and isinstance(d.value.slice, ast.Name)), None)
        if q and e and depth and chv:
            idx = next((norm(d.value.slice) for d in ast.walk(lp) if isinstance(d, ast.Assign) and norm(d.targets[0]) == chv and isinstance(d.value, ast.Subscript)), "index")
            src = next((norm(d.value.value) for d in ast.walk(lp) if isinstance(d, ast.Assign) and norm(d.targets[0]) == chv and isinstance(d.value, ast.Subscript)), "text")
            env = {q: True, e: True, chv: "$", f"{depth} > 0": False, f"{src}[{idx} + 1]": "{", f"{idx} + 1 < len({src})": True, depth: 0}
            body = [st for st in lp.body if not (isinstance(st, ast.Assign) and norm(st.targets[0]) == chv)]
            o = outcome(body, env)
            opened = sorted(a for a in o.may if a.startswith(f"{depth} = ") or a.startswith(f"{depth} += "))
            r.instances += 1
            ok = not opened
            r.ob(ok, {"scanner": sa_.key, "row": "escape pending, `${` inside quotes", "opens_interpolation": opened})
            if not ok:
                res.add("R-C12-5", (sa_.key, q, "escape machine row", "escape pending, ${"), sa_.loc(lp),
                        f"{sa_.key}: inside quotes with an escape pending, `${{` may execute {opened}: the escaped `\\${{` that set writes for a "
                        f"literal `${{` is read back as the start of an interpolation, the closing quote is then swallowed, and the file "
                        f"can no longer be read (`Unterminated quoted attrpath segment`)")
        else:
            res.unclass("_split_attrpath: state variables of the scanner loop were not recognised")
    if machines < 3:
        res.unclass(f"only {machines} quoted-state scanners recognised (expected the two of _split_attrpath and the one of _parse_npath)")

def one_bare_name_language(prog: Program, res: Results, rid: str) -> None:
    """every place that decides "may this name be written without quotes?" must decide it the same way: names are compared
    by spelling, so two formatters that disagree on one character (`x'`) spell the same attribute differently"""
    r = res.rule(rid, "one definition of a bare attribute name: every identifier-shaped regular expression in the package "
                 "(`[first][rest]*`) has the same first/rest alphabets as _NPATH_IDENTIFIER_RE — a second formatter with its own "
                 "alphabet quotes (or fails to quote) names the first one does not, and lookups by spelling stop matching", floor=1)
    ref = None
    found = []
    for mod, assigns in prog.module_assigns.items():
        for name, val in assigns.items():
            if isinstance(val, ast.Call) and dotted(val.func) == "re.compile" and val.args and isinstance(val.args[0], ast.Constant) \
                    and isinstance(val.args[0].value, str):
                info = analyse_identifier_regex(val.args[0].value)
                if info is None or len(info["first"]) < 20:
                    continue
                found.append((mod, name, val, info))
                if name == "_NPATH_IDENTIFIER_RE":
                    ref = info
    # regex literals compiled inside functions
    for f in prog.all_functions():
        for c in walk_no_nested(f.node):
            if isinstance(c, ast.Call) and dotted(c.func) in ("re.compile", "re.fullmatch", "re.match") and c.args and isinstance(c.args[0], ast.Constant) \
                    and isinstance(c.args[0].value, str):
                info = analyse_identifier_regex(c.args[0].value)
                if info is not None and len(info["first"]) >= 20:
                    found.append((f.module, f.key, c, info))
    if ref is None:
        res.unclass("_NPATH_IDENTIFIER_RE is not an identifier-shaped pattern any more")
        return
    for mod, name, val, info in found:
        r.instances += 1
        ok = info["first"] == ref["first"] and info["rest"] == ref["rest"]
        r.ob(ok, {"pattern": name, "module": mod})
        if not ok:
            extra = sorted((info["first"] | info["rest"]) - (ref["first"] | ref["rest"]))[:6]
            missing = sorted((ref["first"] | ref["rest"]) - (info["first"] | info["rest"]))[:6]
            res.add(rid, (name, "bare-name alphabets disagree", "".join(extra) + "/" + "".join(missing)), f"{mod}:{getattr(val, 'lineno', 1)}",
                    f"`{name}` admits {extra} and lacks {missing} compared with _NPATH_IDENTIFIER_RE: the two formatters spell some names "
                    f"differently (e.g. `x'` bare in one place, `\"x'\"` in the other), so an item assignment or `set` after construction "
                    f"does not find the binding and defines the attribute twice")


def run(prog: Program) -> Results:
    res = Results("C12")
    check_writer(prog, res, "R-C12-1")
    check_reader(prog, res, "R-C12-1")
    check_bare_names(prog, res, "R-C12-2")
    check_canonical_lookups(prog, res)
    check_segment_state(prog, res)
    check_escape_machines(prog, res)
    # an `@` inside a quoted name is part of the name (shared with R-C09-6)
    from sa.rules import c09
    sub9 = c09.run(prog)
    st9 = sub9.rules.get("R-C09-6")
    r6 = res.rule("R-C12-6", "a name containing `@` stays addressable: the scope-selector split looks only at the leading run of `@` "
                  "(shared with R-C09-6)", floor=1)
    if st9:
        r6.instances, r6.obligations, r6.discharged = st9.instances, st9.obligations, st9.discharged
    for fnd in sub9.findings:
        if fnd.rule == "R-C09-6":
            res.add("R-C12-6", fnd.key, fnd.where, fnd.message)
    for u in sub9.unclassified:
        if "_split_scope_npath" in u:
            res.unclass(u)
    from sa.rules import poslint
    poslint.check(prog, res, "R-C12-7")
    one_bare_name_language(prog, res, "R-C12-8")
    # ------------------------------------------------------------ R-C12-10 sets are searched with the formatted spelling only
    r10 = res.rule("R-C12-10", "a path segment reaches a lookup only in its formatted spelling (_format_attr_name): the raw `.name` of an "
                   "_NPathSegment is never used as a key (`S[seg.name]`, `_find_*(S, seg.name)`) — the raw text of a quoted segment "
                   "such as `\"a.b\"` would be split at its dot by the dotted-key fallback of the mapping", floor=2)
    for f in prog.all_functions():
        if f.module != MANIP:
            continue
        segvars = set()
        for a_ in f.node.args.args + f.node.args.kwonlyargs:
            if a_.annotation is not None and "_NPathSegment" in norm(a_.annotation) and "list" not in norm(a_.annotation):
                segvars.add(a_.arg)
        seglists = {norm(d.targets[0]) for d in walk_no_nested(f.node) if isinstance(d, ast.Assign) and isinstance(d.value, ast.Call)
                    and callee(d.value) == "_parse_npath"}
        for lp in walk_no_nested(f.node):
            if isinstance(lp, ast.For) and isinstance(lp.target, ast.Name):
                it = lp.iter.value if isinstance(lp.iter, ast.Subscript) else lp.iter
                if norm(it) in seglists:
                    segvars.add(lp.target.id)
        if not segvars:
            continue
        r10.instances += 1
        bad = []
        for n in walk_no_nested(f.node):
            key = None
            if isinstance(n, ast.Subscript) and isinstance(n.slice, ast.Attribute) and n.slice.attr == "name" and isinstance(n.slice.value, ast.Name) \
                    and n.slice.value.id in segvars:
                key = n
            elif isinstance(n, ast.Call) and (callee(n) or "").startswith("_find") and any(
                    isinstance(a_, ast.Attribute) and a_.attr == "name" and isinstance(a_.value, ast.Name) and a_.value.id in segvars for a_ in n.args):
                key = n
            if key is not None:
                bad.append(key)
        r10.ob(not bad, None if not bad else {"site": f.key, "raw_key_lookups": [norm(b)[:50] for b in bad]})
        for b in bad:
            res.add("R-C12-10", (f.key, "lookup keyed by the raw segment name"), f.loc(b),
                    f"{f.key}: `{norm(b)[:60]}` searches with the unformatted name of a path segment: for the quoted segment `\"a.b\"` the "
                    f"mapping's dotted-key fallback splits the raw text at the dot and walks `a` then `b` — `set '\"a.b\".c' 2` rewrites "
                    f"`a.b.c` instead of creating `\"a.b\"`")
    # ------------------------------------------------------------ R-C12-11 one way from a path to its formatted segments
    r11 = res.rule("R-C12-11", "one way from a path to its binding names: every element `_format_npath_segments` returns is "
                   "`_format_attr_name(<segment>)` for a segment of `_parse_npath(<path>)` — no shortcut returns pieces of the raw "
                   "text (keywords and names that need quotes would be written bare)", floor=1)
    fs = prog.funcs.get("_format_npath_segments")
    if fs is None:
        res.unclass("_format_npath_segments vanished")
    else:
        from sa.seqbuild import SeqBuilder
        res.analysed_functions.add(fs.key)
        outs = SeqBuilder(fs.node).returned()
        if not outs:
            res.unclass("_format_npath_segments: how the returned list is put together was not recognised")
        for o in outs or []:
            for sg in o:
                r11.instances += 1
                elt = sg[3] if sg[0] == "each" else sg[1]
                src = sg[1] if sg[0] == "each" else None
                formatted = isinstance(elt, ast.Call) and callee(elt) == "_format_attr_name"
                from_parser = src is None or (isinstance(src, ast.Call) and callee(src) == "_parse_npath") or (
                    isinstance(src, ast.Name) and any(isinstance(d, ast.Assign) and norm(d.targets[0]) == src.id and isinstance(d.value, ast.Call)
                                                      and callee(d.value) == "_parse_npath" for d in walk_no_nested(fs.node)))
                ok = formatted and from_parser
                r11.ob(ok, {"segment": sg[0], "from": norm(src)[:40] if src is not None else None, "element": norm(elt)[:40] if elt is not None else "<the item itself>"})
                if not ok:
                    res.add("R-C12-11", (fs.key, "segments returned without the name formatter"), fs.loc(src if src is not None else elt),
                            f"_format_npath_segments returns {'the items of `' + norm(src)[:40] + '`' if src is not None else '`' + norm(elt)[:40] + '`'} "
                            f"{'as they are' if elt is None else 'as `' + norm(elt)[:40] + '`'}: these names did not pass _parse_npath and "
                            f"_format_attr_name, so a keyword (`if`, `with`, `let`…) or a name that needs quotes is looked up and written bare — "
                            f"`set if 1` emits `{{ if = 1; }}`, which no longer parses, and `rm let` cannot find `\"let\"`")
    from sa.rules import merge as _merge12
    _merge12.check(prog, res, "R-C12-12", "R-C12-13")  # a second set/rm finds the same binding: one tree per attrpath family (shared with R-C04-5/6)
    # ------------------------------------------------------------ R-C12-9 every name read from a file passes the splitter
    r9 = res.rule("R-C12-9", "every binding name read from a file is split by _split_attrpath (the one scanner that knows quotes and "
                  "interpolations); a bypass is taken only under `\".\" not in name`, not under a guess about the quotes", floor=1)
    bf = prog.func("Binding.from_cst")
    bcfg = CFG(bf.node)
    segvars = {norm(d.targets[0]) for d in walk_no_nested(bf.node) if isinstance(d, ast.Assign) and isinstance(d.value, ast.Call)
               and callee(d.value) == "_split_attrpath"}
    if not segvars:
        res.unclass("Binding.from_cst: the _split_attrpath call was not found")
    for n in bcfg.nodes:
        a = n.ast
        if isinstance(a, ast.Assign) and norm(a.targets[0]) in segvars:
            r9.instances += 1
            if isinstance(a.value, ast.Call) and callee(a.value) == "_split_attrpath":
                r9.ob(True, {"definition": norm(a)[:60]})
                continue
            arg = next((norm(d.value.args[0]) for d in walk_no_nested(bf.node) if isinstance(d, ast.Assign) and isinstance(d.value, ast.Call)
                        and callee(d.value) == "_split_attrpath" and d.value.args), "name")
            e = edges_establishing(bcfg, lambda at, t, _a=arg: (norm(at) in (f"'.' not in {_a}",) and t is True) or (norm(at) == f"'.' in {_a}" and t is False))
            ok = bool(e) and bcfg.all_paths_pass(n, cut_edges=e)
            r9.ob(ok, {"definition": norm(a)[:60], "only_without_dot": ok})
            if not ok:
                res.add("R-C12-9", (bf.key, "attrpath text bypasses the splitter"), bf.loc(a),
                        f"Binding.from_cst: `{norm(a)[:60]}` takes the name as a single segment on a path where it may contain a dot: "
                        f"`\"a-b\".\"c-d\" = 2;` starts and ends with a quote but is two segments; read as one flat name, set/rm of that "
                        f"path no longer find it (duplicate definition, KeyError)")
    res.tables.append("Nix lexical facts (keywords, bare alphabet, string escapes) embedded in sa/rules/c12.py")
    res.assumptions = ["Nix string lexing: \\n \\r \\t are control characters, any other \\x is x, a raw CR is normalised to LF"]
    return res
