"""C20 — parse and rebuild terminate quickly and fail only in documented ways (complexity clause + raise discipline)."""
from __future__ import annotations

import ast

from sa.callgraph import CallGraph
from sa.model import Program, norm, walk_no_nested
from sa.rcount import analyse_class
from sa.report import Results
from sa.util import callee, exc_name

LEAF_CLASSES = {"Identifier", "Primitive", "StringPrimitive", "IntegerPrimitive", "BooleanPrimitive", "NullPrimitive", "Comment",
                "MultilineComment", "Operator", "FloatExpression", "NixPath", "Ellipses", "IndentedString"}
DOCUMENTED = {"ValueError", "NixSyntaxError"}
REVIEWED_RAISES = {
    ("format_trivia", "NotImplementedError"): "foreign trivia object: from_cst code only ever appends comments and the three layout sentinels",
    ("NixExpression.from_cst", "NotImplementedError"): "abstract base method; every dispatched class overrides it (R-C01-1b)",
    ("NixExpression.rebuild", "NotImplementedError"): "abstract base method; every dispatched class overrides it (R-C01-1b)",
}


# constant-index subscripts whose length guarantee is a fact of the tree-sitter grammar (or of a separately checked contract),
# not of the control flow: (function, anonymised subscript) -> (number of such sites, reason)
REVIEWED_INDEX = {
    ("parse_delimited_sequence", "$[-1]"): (1, "items[-1] after can_inline_comment(...): the callback contract is R-C20-3"),
    ("_parse_argument_set", "$[-1]"): (1, "`?` token of a formal: the grammar puts the formal's identifier, appended just before, first"),
    ("_parse_named_argument_set", "$[0]"): (1, "children_types (parallel list of the same nodes) was checked to have >= 3 entries"),
    ("_parse_named_argument_set", "$[2]"): (1, "children_types (parallel list of the same nodes) was checked to have >= 3 entries"),
    ("LetExpression.from_cst", "$.children[0]"): (1, "binding_set node exists and produced bindings: a binding_set has >= 1 child"),
    ("LetExpression.from_cst", "$.children[-1]"): (1, "binding_set node exists and produced bindings: a binding_set has >= 1 child"),
}


# reads that the path-insensitive part of the definite-assignment analysis cannot discharge: (function, local) -> why the path is infeasible
REVIEWED_UNBOUND = {
    "FunctionDefinition._render_argument_set": (1, "`args_str`, empty-formals arm: `inline_ok` is still true after the comment loop exactly when the "
    "comment-only form was assigned; otherwise `not inline_ok` holds and one of the two following arms assigns"),
}


def nesting_field(prog: Program, cname: str, field: str) -> bool:
    """can this field hold an arbitrary (nestable) expression?"""
    ann = prog.fields(cname).get(field)
    if ann is None:
        return True
    t = ann[0]
    names = set(t.replace("[", " ").replace("]", " ").replace("|", " ").replace(",", " ").split())
    if "NixExpression" in names or "Any" in names:
        return True
    cls = {n for n in names if n in prog.classes}
    return bool(cls - LEAF_CLASSES)


def run(prog: Program) -> Results:
    res = Results("C20")
    # ---------------------------------------------------------------- R-C20-1
    r1 = res.rule("R-C20-1", "no child expression is rendered twice on one path of a rebuild closure (a second rendering per level "
                  "makes nesting exponential); branches dead for every parser-built node are excluded only when from_cst "
                  "provably fills the guarding field", floor=20)
    total_sites = 0
    for c in sorted(prog.classes):
        r = analyse_class(prog, c)
        if r is None:
            continue
        rc, counts = r
        r1.instances += 1
        total_sites += rc.render_sites
        res.analysed_functions.add(f"{c}.rebuild")
        fields = {}
        for base, f, node in rc.reports:
            if base.startswith("param:") or not nesting_field(prog, c, base):
                continue
            fields.setdefault(base, (f, node))
        rendered = sorted({b for (b, p) in counts})
        r1.ob(not fields, {"class": c, "render_sites": rc.render_sites, "children_rendered": rendered[:8],
                           "guards_decided_by_from_cst": sorted(rc.nonnull)[:6]})
        for base, (f, node) in sorted(fields.items()):
            where = f.loc(node) if f is not None else prog.own_method(c, "rebuild").loc()
            res.add("R-C20-1", (c, base), where,
                    f"{c}.rebuild renders its child `{base}` twice on one path (second rendering at `{norm(node)[:70]}` in "
                    f"{f.key if f else c}): a nest of depth d through this field costs at least 2^d renderings")
    if total_sites < 60:
        res.unclass(f"render-count analysis saw only {total_sites} rendering call sites (floor 60)")

    # ---------------------------------------------------------------- R-C20-2
    r2 = res.rule("R-C20-2", "every explicit raise reachable from parse / parse_file / rebuild names ValueError, a subclass, or "
                  "NixSyntaxError (NotImplementedError only in the reviewed abstract/defensive sites)", floor=60)
    cg = CallGraph(prog)
    roots = [k for k in ("parse", "parse_file", "NixSourceCode.rebuild", "tree_sitter_node_to_expression") if prog.has_func(k)]
    roots += [f.key for f in prog.all_functions() if f.name in ("from_cst", "rebuild") and f.cls]
    closure = cg.reachable(roots)
    skip_mod = ("nix_manipulator/cli/", "nix_manipulator/color.py", "nix_manipulator/utils.py")
    # value_error subclasses declared in the package
    ok_names = set(DOCUMENTED)
    for c in prog.classes.values():
        if "ValueError" in prog.mro(c.name):
            ok_names.add(c.name)
    for k in sorted(closure):
        f = prog.funcs[k]
        if f.module.startswith(skip_mod) or f.name in ("__getitem__", "__setitem__", "__delitem__", "__repr__", "__eq__", "__add__", "__radd__",
                                                      "__iadd__", "_coerce_int", "_coerce_str", "save", "resolved_path", "value", "text",
                                                      "_follow_import", "_resolve_argument") or f.kind in ("getter", "setter"):
            continue
        if k in ("scopes_for_owner", "function_call_scope", "_resolve_identifier", "get_binding") or k.startswith(("_resolve_identifier.", "function_call_scope.",
                                                                                                                 "NixSourceCode._resolve_target_set")):
            continue  # resolution API, not part of parse/rebuild (reached only through mapping dunders)
        res.analysed_functions.add(k)
        for n in walk_no_nested(f.node):
            if not isinstance(n, ast.Raise):
                continue
            r2.instances += 1
            nm = exc_name(n.exc) if n.exc is not None else "re-raise"
            ok = nm in ok_names or nm == "re-raise" or (k, nm) in REVIEWED_RAISES
            r2.ob(ok, None)
            if not ok:
                res.add("R-C20-2", (k, "raises", nm), f.loc(n),
                        f"{k} raises {nm} inside the parse/rebuild closure: only ValueError (incl. NixSyntaxError) is a documented failure")
        for n in walk_no_nested(f.node):
            if isinstance(n, ast.Assert):
                r2.instances += 1
                # an assert on a value the code has just established is tolerated only for isinstance narrowing of a comment conversion
                ok = isinstance(n.test, ast.Call) and callee(n.test) == "isinstance"
                if not ok and f.parent is not None and isinstance(n.test, ast.Compare) and isinstance(n.test.ops[0], ast.IsNot) \
                        and isinstance(n.test.left, ast.Name) and isinstance(n.test.comparators[0], ast.Constant) \
                        and n.test.comparators[0].value is None:
                    # `assert <nonlocal> is not None` in a closure: fine iff every call of the closure is guarded by that fact
                    from sa.cfg import CFG, edges_establishing
                    var = n.test.left.id
                    pcfg = CFG(f.parent.node)

                    def holds(a, truth, _v=var):
                        return (norm(a) == _v and truth is True) or (norm(a) == f"{_v} is not None" and truth is True) or \
                               (norm(a) == f"{_v} is None" and truth is False)

                    e = edges_establishing(pcfg, holds)
                    sites = [x for x in pcfg.nodes if x.ast is not None and x.kind in ("stmt", "test", "return") and any(
                        isinstance(c_, ast.Call) and isinstance(c_.func, ast.Name) and c_.func.id == f.name for c_ in ast.walk(x.ast))]
                    ok = bool(sites) and bool(e) and all(pcfg.all_paths_pass(x, cut_edges=e) for x in sites)
                r2.ob(ok, None)
                if not ok:
                    res.add("R-C20-2", (k, "assert", norm(n.test)[:60]), f.loc(n),
                            f"{k} contains `assert {norm(n.test)[:60]}` in the parse/rebuild closure: it would surface as AssertionError")
    r2.samples.append({"functions_in_closure": len(closure), "documented": sorted(ok_names)})

    # ---------------------------------------------------------------- R-C20-3 callback contract of parse_delimited_sequence
    r3 = res.rule("R-C20-3", "contract between parse_delimited_sequence and its callbacks: it indexes items[-1] whenever "
                  "can_inline_comment returns true, so every callback must require a non-empty `items`", floor=4)
    pds = prog.func("parse_delimited_sequence")
    indexes_last = any(isinstance(n, ast.Subscript) and norm(n) == "items[-1]" for n in ast.walk(pds.node))
    guarded_inside = False
    for n in ast.walk(pds.node):
        if isinstance(n, ast.If) and "can_inline_comment(" in norm(n.test):
            guarded_inside = "items" in norm(n.test).replace("can_inline_comment(prev_content, child, items)", "")
    for f in prog.all_functions():
        for c in walk_no_nested(f.node):
            if isinstance(c, ast.Call) and callee(c) == "parse_delimited_sequence":
                cb = next((k.value for k in c.keywords if k.arg == "can_inline_comment"), None)
                if not isinstance(cb, ast.Name):
                    continue
                g = f
                target = None
                while g is not None and target is None:
                    target = g.nested.get(cb.id)
                    g = g.parent
                if target is None:
                    continue
                r3.instances += 1
                items_param = target.params()[2] if len(target.params()) > 2 else None
                rets = [n for n in ast.walk(target.node) if isinstance(n, ast.Return)]
                ok = True
                for rt in rets:
                    conj = []

                    def flat(e):
                        if isinstance(e, ast.BoolOp) and isinstance(e.op, ast.And):
                            for v in e.values:
                                flat(v)
                        else:
                            conj.append(e)

                    flat(rt.value)
                    requires = any(norm(x) in (f"bool({items_param})", items_param, f"len({items_param}) > 0", f"{items_param} != []") for x in conj)
                    const_false = isinstance(rt.value, ast.Constant) and rt.value.value is False
                    if not (requires or const_false):
                        ok = False
                ok = ok or guarded_inside or not indexes_last
                r3.ob(ok, {"caller": f.key, "callback": target.key})
                if not ok:
                    res.add("R-C20-3", (target.key, "callback may accept with empty items"), target.loc(),
                            f"{target.key} can return true while `{items_param}` is empty; parse_delimited_sequence then evaluates "
                            f"`items[-1]` and raises IndexError (e.g. two same-line comments before the first element)")
    # ---------------------------------------------------------------- R-C20-4 index safety
    from sa.guards import const_index, guarded
    from sa.model import alpha
    r4 = res.rule("R-C20-4", "no implicit IndexError: every constant-index subscript (`xs[0]`, `xs[-1]`, ...) in the parse/rebuild "
                  "closure is reached only where a dominating test, an earlier operand of the same and/or chain, a boolean local, "
                  "a one-expression helper or every call site of the enclosing closure establishes the needed length", floor=40)
    cfgs: dict = {}
    unguarded: dict = {}
    for k in sorted(closure):
        f = prog.funcs[k]
        if f.module.startswith(skip_mod) or f.name in ("__repr__", "__eq__"):
            continue
        if k in ("scopes_for_owner", "function_call_scope", "_resolve_identifier", "get_binding", "NixSourceCode.expr") or k.startswith(
                ("_resolve_identifier.", "function_call_scope.", "NixSourceCode._resolve_target_set")):
            continue
        for n in walk_no_nested(f.node):
            if isinstance(n, ast.Subscript) and isinstance(n.ctx, ast.Load) and const_index(n.slice) is not None:
                # tuples returned by helpers / fixed-shape pairs are not sequences of unknown length
                r4.instances += 1
                ok, how = guarded(f, n, cfgs, prog)
                if ok:
                    r4.ob(True, {"site": k, "subscript": norm(n)[:50], "evidence": how})
                else:
                    top = f
                    while top.parent is not None:
                        top = top.parent
                    unguarded.setdefault((k, alpha(n, top.node, anonymous=True)), []).append(n)
    for (k, pat), nodes in sorted(unguarded.items(), key=lambda kv: kv[0]):
        allowed, reason = REVIEWED_INDEX.get((k, pat), (0, None))
        for i, n in enumerate(nodes):
            ok = i < allowed
            r4.ob(ok, {"site": k, "subscript": norm(n)[:50], "reviewed": reason} if ok else {"site": k, "subscript": norm(n)[:50]})
            if not ok:
                res.add("R-C20-4", (k, "unguarded index", pat), prog.funcs[k].loc(n),
                        f"{k}: `{norm(n)[:60]}` is evaluated on a path where nothing establishes that the sequence is long enough: "
                        f"an input that leaves it short raises IndexError out of parse/rebuild")
    # ---------------------------------------------------------------- R-C20-5 definite assignment
    from sa.defassign import maybe_unbound
    r5 = res.rule("R-C20-5", "no implicit UnboundLocalError: every read of a local in the parse/rebuild closure is preceded by an "
                  "assignment on every control-flow path (exception edges included; two tests of the same condition are correlated)",
                  floor=150)
    for k in sorted(closure):
        f = prog.funcs[k]
        if f.module.startswith(skip_mod) or f.name in ("__repr__", "__eq__"):
            continue
        r5.instances += 1
        try:
            bad = maybe_unbound(f)
        except RecursionError:  # pragma: no cover
            res.unclass(f"{k}: definite-assignment analysis did not terminate")
            continue
        names = sorted({x.id for x, _ in bad})
        names = names[REVIEWED_UNBOUND.get(k, (0, None))[0]:] if len(names) > REVIEWED_UNBOUND.get(k, (0, None))[0] else []
        r5.ob(not names, None if not names else {"site": k, "maybe_unassigned": names})
        for n_ in names:
            x = next(x for x, _ in bad if x.id == n_)
            res.add("R-C20-5", (k, "local may be read before assignment", n_), f.loc(x),
                    f"{k}: `{n_}` is read at line {x.lineno} on a path on which no assignment to it has run: that input raises "
                    f"UnboundLocalError (an internal error, not ValueError) out of parse/rebuild")
    # ---------------------------------------------------------------- R-C20-6 resolved-program lints
    from sa import lints
    r6 = res.rule("R-C20-6", "no latent NameError / AttributeError / TypeError in the parse/rebuild closure: every name read is bound "
                  "somewhere, every `self.x` read is defined by the class (or a base / subclass), every call of a package function, "
                  "closure, constructor or own method fits the callee's signature", floor=150)
    for k in sorted(closure):
        f = prog.funcs[k]
        if f.module.startswith(skip_mod) or f.name in ("__repr__",):
            continue
        r6.instances += 1
        probs = [(x, "name is not bound anywhere", x.id, "NameError") for x in lints.undefined_names(prog, f)]
        probs += [(x, "attribute is not defined by the class", x.attr, "AttributeError") for x in lints.unknown_self_attributes(prog, f)]
        probs += [(c, why, norm(c.func)[:30], "TypeError") for c, why in lints.signature_mismatches(prog, f)]
        probs += [(rn, why, "return shape", "TypeError") for rn, why in lints.return_shape_mismatches(prog, f)]
        r6.ob(not probs, None if not probs else {"site": k, "problems": [p_[1] for p_ in probs][:3]})
        for node, why, what, exc in probs:
            res.add("R-C20-6", (k, why.split(" [")[0][:60], what), f.loc(node),
                    f"{k}: `{norm(node)[:60]}` — {why}: executing it raises {exc}, an internal error that parse/rebuild must not let out")
    for it in prog.inline_findings:  # asked of an unreviewed helper before it was dissolved into its caller (sa/inline.py)
        if it["kind"] == "return shape" and it["caller"] in closure:
            r6.ob(False, {"site": it["caller"], "problems": [it["why"]]})
            res.add("R-C20-6", (it["caller"], it["why"].split(" [")[0][:60], "return shape"), f"{it['module']}:{it['lineno']}",
                    f"{it['caller']}: `{it['text'][:60]}` — {it['why']}: executing it raises TypeError, an internal error that parse/rebuild must not let out")
    # ---------------------------------------------------------------- R-C20-7 Optional fields
    from sa.nonnull import optional_derefs
    r7 = res.rule("R-C20-7", "no implicit AttributeError on None: a field whose declared type admits None is dereferenced "
                  "(`self.f.x`, `self.f[...]`, `self.f(...)`) only where an identity/truth/isinstance test of that field dominates "
                  "(branch edge, earlier operand, conditional expression, boolean local, or every call site of a closure)", floor=10)
    ncf: dict = {}
    for k in sorted(closure):
        f = prog.funcs[k]
        if f.module.startswith(skip_mod) or f.name in ("__repr__",):
            continue
        for n, fld, ok, how in optional_derefs(prog, f, ncf):
            r7.instances += 1
            r7.ob(ok, {"site": k, "deref": norm(n), "evidence": how})
            if not ok:
                res.add("R-C20-7", (k, "optional field dereferenced without a guard", fld), f.loc(n),
                        f"{k}: `{norm(n)}` may be None (declared Optional) and is dereferenced on a path with no test of it: that "
                        f"input raises AttributeError/TypeError out of parse/rebuild")
    # ---------------------------------------------------------------- R-C20-9 predicates do not convert
    r9 = res.rule("R-C20-9", "deciding is not converting: a predicate (a function annotated `-> bool`) in the parse closure never "
                  "reaches tree_sitter_node_to_expression / a from_cst — the dispatcher asks Import.is_import_node for every "
                  "application and then converts the same callee again, so a converting predicate doubles the work per nesting "
                  "level of a curried call (2^n parse time)", floor=8)
    for k in sorted(closure):
        f = prog.funcs[k]
        if f.module.startswith(skip_mod) or f.node.returns is None or norm(f.node.returns) != "bool":
            continue
        if f.name in ("has_scope", "__eq__", "__contains__"):
            continue
        r9.instances += 1
        reach = cg.reachable([k]) - {k}
        conv = sorted(x for x in reach if x == "tree_sitter_node_to_expression" or x.endswith(".from_cst") or x == "parse_let_expression")
        r9.ob(not conv, None if not conv else {"predicate": k, "reaches": conv[:3]})
        if conv:
            res.add("R-C20-9", (k, "predicate converts the node it inspects"), f.loc(),
                    f"{k} (a yes/no question) reaches {conv[:3]}: the caller converts the same subtree again after the answer, so every "
                    f"level of nesting is parsed twice — `f a0 a1 … a17` takes seconds")
    # ---------------------------------------------------------------- R-C20-10 regular expressions backtrack linearly
    r10 = res.rule("R-C20-10", "no regular expression in the package nests an unbounded repeat inside another (`(a+)*`, "
                   "`(?:[ \\t]+|\\r)*`): on a run of matching characters followed by a mismatch such a pattern backtracks 2^k times, and "
                   "gap classification applies its patterns to raw gap text of any length", floor=5)
    for mod, call, pat, bad in lints.redos_patterns(prog):
        r10.instances += 1
        r10.ob(not bad, {"module": mod, "pattern": pat[:40]})
        if bad:
            res.add("R-C20-10", (mod, "nested unbounded repeat", pat[:40]), f"{mod}:{call.lineno}",
                    f"{mod}: the pattern {pat!r} repeats a group that itself contains an unbounded repeat: matching k blanks followed by a "
                    f"non-matching character takes about 2^k steps — an own-line comment indented by ~25 columns in a gap makes "
                    f"parse/rebuild take seconds")
    from sa.rules import kinds
    kinds.check(prog, res, "R-C20-8")
    res.tables.append(f"sa/rules/c20.py:REVIEWED_UNBOUND ({len(REVIEWED_UNBOUND)} infeasible paths)")
    res.tables.append(f"sa/rules/c20.py:REVIEWED_INDEX ({len(REVIEWED_INDEX)} grammar-shape entries)")
    res.tables.append(f"sa/rules/c20.py:REVIEWED_RAISES ({len(REVIEWED_RAISES)} entries)")
    res.assumptions = ["absence of implicit IndexError/AttributeError/TypeError on arbitrary text is not decided (needs value ranges)",
                       "measured running time is not decided; only the doubling structure is"]
    return res
