"""C15 — rebuilding is pure and deterministic, independent of threads and history."""
from __future__ import annotations

import ast

from sa.callgraph import CallGraph
from sa.effects import Effects
from sa.model import AnalysisError, Program, norm, walk_no_nested
from sa.report import Results
from sa.tables.reviewed import Reviewed
from sa.util import callee, dotted

MUTATOR_METHODS = {"append", "extend", "insert", "remove", "pop", "clear", "sort", "reverse", "update", "add", "discard",
                   "setdefault", "popitem", "set", "reset"}
# confinement table: module-level stateful object -> functions that may write it (one line of reason each)
STATE_WRITERS = {
    "_PARSER_LOCAL": ({"_get_parser"}, "threading.local: each thread sees only the parser it created itself"),
    "_SOURCE_BYTES": ({"source_bytes_context"}, "ContextVar set/reset by its own context manager"),
    "_SOURCE_PATH": ({"source_path_context"}, "ContextVar set/reset by its own context manager"),
    "_CONTEXTS": ({"_store_context", "_store_context.<_clear>", "_get_context", "clear_resolution_context"},
                  "identity-validated registry (R-C10-2)"),
    "EXPRESSION_TYPES": ({"register_expression"}, "dispatch table extended only by explicit registration"),
    "TREE_SITTER_TYPE_TO_EXPRESSION": ({"register_expression"}, "dispatch table extended only by explicit registration"),
}
AMBIENT = {"getcwd", "cwd", "chdir", "environ", "getenv", "resolve", "absolute", "expanduser", "home", "time", "random",
           "getpid", "urandom", "now", "today", "uuid4", "gethostname"}


def _kind_of_state(v: ast.AST) -> str | None:
    """classify a module-level value: contextvar | threadlocal | mutable | None (immutable / irrelevant)"""
    if isinstance(v, ast.Call):
        c = callee(v)
        if c == "ContextVar":
            return "contextvar"
        if c == "local":
            return "threadlocal"
        if c in ("dict", "list", "set", "defaultdict", "OrderedDict", "deque", "WeakValueDictionary", "WeakKeyDictionary", "Counter"):
            return "mutable"
        if c in ("compile", "frozenset", "tuple", "namedtuple", "TypeVar", "getLogger"):
            return None
        if c and c[:1].isupper():
            return None  # sentinel instances without fields (EmptyLine() ...) are checked by the writer scan anyway
        return None
    if isinstance(v, (ast.Dict, ast.List, ast.Set, ast.DictComp, ast.ListComp, ast.SetComp)):
        return "mutable"
    return None


def run(prog: Program) -> Results:
    res = Results("C15")
    cg = CallGraph(prog)

    # ---------------------------------------------------------------- R-C15-1
    r1 = res.rule("R-C15-1", "no function reachable from any rebuild writes document state of a shared object (copies are shallow: "
                  "writing through a field of a copy writes the original)", floor=28)
    roots = [f.key for f in prog.all_functions() if f.name == "rebuild" and f.cls]
    roots += [k for k in ("NixExpression.add_trivia", "NixExpression.rebuild_scoped", "NixExpression.model_copy", "NixExpression.has_scope",
                          "_render_bindings", "format_trivia", "format_interstitial_trivia",
                          "format_interstitial_trivia_with_separator", "format_inline_comment_suffix", "apply_trailing_trivia",
                          "trim_trailing_layout_newline", "trim_leading_layout_trivia", "separator_from_layout",
                          "separator_from_layout_with_comments", "coerce_expression", "Comment.__str__") if prog.has_func(k)]
    # helpers of the renderers (module functions of the expression modules reachable from a rebuild)
    reach = cg.reachable(roots)
    render_helpers = [k for k in sorted(reach) if k not in roots and prog.funcs[k].kind != "closure" and prog.funcs[k].name != "from_cst"
                      and not prog.funcs[k].name.startswith("__")]
    eng = Effects(prog, emission_calls=(), reviewed=Reviewed(prog))
    r1.instances = len(roots)
    seen = set()
    for k in roots + render_helpers:
        f = prog.funcs[k]
        if f.name in ("from_cst", "__post_init__", "__init__", "__setitem__", "__delitem__") or f.kind == "setter":
            continue
        if k in render_helpers and (".<" in prog.reviewed_key(k) or prog.reviewed_key(k) != k):
            # a closure that moved to module level (or a helper without a reviewed role): judged through the renderers that
            # call it, where its accumulator parameters are the callers' fresh locals
            continue
        try:
            s = eng.summarize(k)
        except RecursionError:  # pragma: no cover
            raise AnalysisError(f"effects analysis of {k} did not terminate")
        res.analysed_functions.add(k)
        doc = [m for m in s.mut_sites if m.kind == "doc" and m.via is None]
        r1.ob(not doc, {"root": k, "document_writes": [m.text[:60] for m in doc][:3]})
        for m in doc:
            key = (prog.reviewed_key(m.func), "writes shared state", m.text[:100])
            if key in seen:
                continue
            seen.add(key)
            mf = prog.funcs[m.func]
            res.add("R-C15-1", key, mf.loc(m.node),
                    f"{m.func}: `{m.text[:90]}` writes {m.tcls or 'an object'}.{m.fld or ''} of an object owned by the tree being rendered "
                    f"(origins {sorted(m.origins)}; reached from {k}): repeated rebuilds would differ / the tree is modified",
                    via=m.via)
        shared = [m for m in s.mut_sites if any(o.startswith("G:cache:") for o in m.origins)]
        for m in shared:
            org = sorted(o[len("G:cache:"):] for o in m.origins if o.startswith("G:cache:"))
            key = (m.func, "writes a memoised object", ",".join(org))
            if key in seen:
                continue
            seen.add(key)
            r1.ob(False, {"root": k, "memoised_object_write": m.text[:70]})
            res.add("R-C15-1", key, prog.funcs[m.func].loc(m.node),
                    f"{m.func}: `{m.text[:90]}` modifies an object returned by memoised {org}: the memo hands the same object to every "
                    f"later caller (any document, any thread), so one rebuild changes the output of the next")
        owner_sites = [m for m in s.mut_sites if m.kind == "registry" and m.fld == "owner" and m.via == "model_copy" and m.func == k]
        for m in owner_sites:
            key = (prog.reviewed_key(m.func), "copy retargets scope.owner")
            if key in seen:
                continue
            seen.add(key)
            r1.ob(False, {"root": k, "owner_retarget": norm(m.node)[:70]})
            res.add("R-C15-1", key, prog.funcs[m.func].loc(m.node),
                    f"{m.func}: `{norm(m.node)[:80]}` copies a node with model_copy(update=…) without replacing `scope`; "
                    f"NixExpression.__post_init__ then executes `self.scope.owner = self` on the Scope object shared with the original, "
                    f"so rebuilding retargets the original's scope.owner back-pointer to a temporary")

    # ---------------------------------------------------------------- R-C15-2
    r2 = res.rule("R-C15-2", "process-wide state is confined: every module/class-level stateful object is written only by its listed "
                  "owners; context variables are reset in `finally`; the parser is thread-local; no ambient (cwd/env/time) input", floor=8)
    inventory = {}
    for mod, assigns in prog.module_assigns.items():
        for name, v in assigns.items():
            k = _kind_of_state(v)
            if k:
                inventory[name] = (mod, k, v)
    for c in prog.classes.values():
        for name, v in c.classvars.items():
            if isinstance(v, (ast.Set, ast.Dict, ast.List)) and name != "__slots__":
                inventory[f"{c.name}.{name}"] = (c.module, "mutable", v)
    r2.instances = len(inventory)
    if len(inventory) < 8:
        res.unclass(f"state inventory found only {len(inventory)} stateful module/class-level objects (floor 8)")
    module_names = {}
    for mod, assigns in prog.module_assigns.items():
        for name in assigns:
            module_names.setdefault(name, set()).add(mod)
    writers: dict[str, list] = {}
    for f in prog.all_functions():
        local_stores = {n.id for n in walk_no_nested(f.node) if isinstance(n, ast.Name) and isinstance(n.ctx, ast.Store)}
        globals_decl = {nm for n in walk_no_nested(f.node) if isinstance(n, ast.Global) for nm in n.names}
        params = set(f.params())
        for n in walk_no_nested(f.node):
            tgt = None
            what = None
            if isinstance(n, ast.Name) and isinstance(n.ctx, ast.Store) and n.id in globals_decl:
                tgt, what = n.id, "rebinding through `global`"
            elif isinstance(n, (ast.Subscript, ast.Attribute)) and isinstance(n.ctx, (ast.Store, ast.Del)):
                base = n.value
                if isinstance(base, ast.Name) and base.id not in params and (base.id not in local_stores or base.id in globals_decl):
                    tgt, what = base.id, "store " + norm(n)[:40]
                elif isinstance(base, ast.Attribute) and isinstance(base.value, ast.Name) and (base.value.id in prog.classes or base.value.id == "cls"):
                    tgt, what = f"{base.value.id}.{base.attr}", "store " + norm(n)[:40]
            elif isinstance(n, ast.Call) and isinstance(n.func, ast.Attribute) and n.func.attr in MUTATOR_METHODS:
                base = n.func.value
                if isinstance(base, ast.Name) and base.id not in params and (base.id not in local_stores or base.id in globals_decl):
                    tgt, what = base.id, "call ." + n.func.attr
                elif isinstance(base, ast.Attribute) and isinstance(base.value, ast.Name) and (base.value.id in prog.classes or base.value.id in ("cls",)):
                    tgt, what = f"{base.value.id}.{base.attr}", "call ." + n.func.attr
            if tgt is None:
                continue
            short = tgt.split(".")[-1] if tgt.startswith("cls.") else tgt
            if tgt in inventory or short in module_names or tgt in module_names or any(k.endswith("." + short) for k in inventory):
                writers.setdefault(tgt, []).append((f, n, what))
    for name, ws in sorted(writers.items()):
        allowed, reason = STATE_WRITERS.get(name, (set(), None))
        for f, n, what in ws:
            # a helper without a reviewed role that only the listed writers name (a callback moved out of its closure, a step
            # extracted from a writer) writes on their behalf
            rk = prog.reviewed_key(f.key)
            ok = f.key in allowed or rk in allowed or any(rk == a.split(".<")[0] for a in allowed if ".<" in a)
            r2.ob(ok, {"state": name, "writer": f.key, "write": what, "confinement": reason})
            if not ok:
                res.add("R-C15-2", (name, "written by", f.key), f.loc(n),
                        f"{f.key} writes process-wide state `{name}` ({what}): no confinement argument is listed for this writer — "
                        f"results could depend on other documents, threads or call order")
    for name, (mod, kind, v) in sorted(inventory.items()):
        if name not in writers:
            r2.ob(True, {"state": name, "kind": kind, "writers": "none outside module top level"})
    # context variables: set/reset pairing
    for name, (mod, kind, v) in inventory.items():
        if kind != "contextvar":
            continue
        for f in prog.all_functions():
            sets = [c for c in walk_no_nested(f.node) if isinstance(c, ast.Call) and dotted(c.func) == f"{name}.set"]
            for c in sets:
                r2.instances += 1
                tok = None
                for st in ast.walk(f.node):
                    if isinstance(st, ast.Assign) and st.value is c and isinstance(st.targets[0], ast.Name):
                        tok = st.targets[0].id
                tries = [t for t in walk_no_nested(f.node) if isinstance(t, ast.Try) and t.finalbody]
                paired = False
                for t in tries:
                    resets = [x for fb in t.finalbody for x in ast.walk(fb) if isinstance(x, ast.Call) and dotted(x.func) == f"{name}.reset"
                              and x.args and isinstance(x.args[0], ast.Name) and x.args[0].id == tok]
                    yields = [x for b in t.body for x in ast.walk(b) if isinstance(x, (ast.Yield, ast.YieldFrom))]
                    if resets and yields:
                        # the set must immediately precede the try
                        body = f.node.body
                        for i, st in enumerate(body):
                            if st is t and i > 0 and any(x is c for x in ast.walk(body[i - 1])):
                                paired = True
                is_cm = any("contextmanager" in norm(d) for d in f.node.decorator_list)
                r2.ob(paired and is_cm, {"contextvar": name, "set_in": f.key, "reset_in_finally": paired})
                if not (paired and is_cm):
                    res.add("R-C15-2", (name, "set without paired reset", f.key), f.loc(c),
                            f"{f.key}: `{name}.set(...)` is not followed by `try: yield finally: {name}.reset(token)`: the value would leak "
                            f"into later parses on this thread")
    # the parser: constructed only in _get_parser and stored only into the thread-local
    for f in prog.all_functions():
        for c in walk_no_nested(f.node):
            if isinstance(c, ast.Call) and isinstance(c.func, ast.Name) and c.func.id == "Parser":
                r2.instances += 1
                ok = f.key == "_get_parser"
                r2.ob(ok, {"Parser()": f.key})
                if not ok:
                    res.add("R-C15-2", ("Parser", "constructed in", f.key), f.loc(c),
                            f"{f.key} constructs a tree-sitter Parser outside the per-thread cache")
    gp = prog.func("_get_parser")
    stores = [n for n in ast.walk(gp.node) if isinstance(n, ast.Attribute) and isinstance(n.ctx, ast.Store)]
    ok = all(norm(n.value) == "_PARSER_LOCAL" for n in stores) and not any(isinstance(n, ast.Global) for n in ast.walk(gp.node)) and bool(stores)
    r2.ob(ok, {"_get_parser stores": [norm(n) for n in stores]})
    if not ok:
        res.add("R-C15-2", ("_get_parser", "parser escapes thread-local"), gp.loc(), "the parser is stored somewhere other than the thread-local cache")
    v = prog.module_assigns.get("nix_manipulator/parser.py", {}).get("_PARSER_LOCAL")
    ok = isinstance(v, ast.Call) and callee(v) == "local"
    r2.ob(ok, {"_PARSER_LOCAL": norm(v) if v is not None else None})
    if not ok:
        res.add("R-C15-2", ("_PARSER_LOCAL", "not thread-local"), "nix_manipulator/parser.py:1",
                "_PARSER_LOCAL is not a threading.local(): a parser shared between threads races on its internal state")
    for nm in ("_SOURCE_BYTES", "_SOURCE_PATH"):
        entry = inventory.get(nm)
        ok = entry is not None and entry[1] == "contextvar"
        r2.ob(ok, {nm: entry[1] if entry else "missing"})
        if not ok:
            # find where it is defined now
            where = next((f"{m}:{getattr(a.get(nm), 'lineno', 1)}" for m, a in prog.module_assigns.items() if nm in a), "nix_manipulator/expressions/trivia.py:1")
            res.add("R-C15-2", (nm, "not a ContextVar"), where,
                    f"{nm} is not a ContextVar: a plain module global is shared by all threads, so concurrent parses read each other's value")
    # ambient inputs in the parse/rebuild closure
    pr_roots = [k for k in ("parse", "parse_file", "NixSourceCode.rebuild") if prog.has_func(k)] + roots
    closure = cg.reachable(pr_roots)
    repr_only = cg.reachable([k for k in prog.funcs if k.endswith(".__repr__")]) - closure
    for k in sorted(closure):
        f = prog.funcs[k]
        if f.module.endswith("color.py") or f.name == "__repr__":
            continue
        for n in walk_no_nested(f.node):
            nm = n.attr if isinstance(n, ast.Attribute) else (n.id if isinstance(n, ast.Name) else None)
            if nm in AMBIENT and not (isinstance(n, ast.Attribute) and norm(n.value) in ("self",)):
                if k in ("NixPath.resolved_path",):
                    continue  # C17's subject
                r2.instances += 1
                r2.ob(False, {"ambient": norm(n), "in": k})
                res.add("R-C15-2", (k, "ambient input", nm), f.loc(n),
                        f"{k} uses `{norm(n)}` inside the parse/rebuild closure: the result would depend on the process environment")
    # iteration over a set that reaches text: dispatch sets are iterated only at import
    for f in prog.all_functions():
        for n in walk_no_nested(f.node):
            if isinstance(n, (ast.For, ast.comprehension)) and norm(n.iter) in ("EXPRESSION_TYPES",) and f.key != "register_expression":
                res.add("R-C15-2", (f.key, "iterates a set", norm(n.iter)), f.loc(n.iter),
                        f"{f.key} iterates the set {norm(n.iter)}: the order depends on PYTHONHASHSEED")
    from sa.rules import c04 as _shared_c04
    _sub = _shared_c04.run(prog)
    _st = _sub.rules.get("R-C04-4")
    _r = res.rule("R-C15-3", "no memoised object is stored into a document: documents edited in one process (any thread, any order) never share a mutable node (shared with R-C04-4)", floor=5)
    if _st:
        _r.instances, _r.obligations, _r.discharged = _st.instances, _st.obligations, _st.discharged
    for _f in _sub.findings:
        if _f.rule == "R-C04-4":
            res.add("R-C15-3", _f.key, _f.where, _f.message)
    # ---------------------------------------------------------------- R-C15-4 nothing one-shot, nothing shared is put into a document
    from sa import lints
    from sa.effects import memoised
    r4 = res.rule("R-C15-4", "what is stored in a document can be read any number of times and belongs to that document: no lazy "
                  "iterator (map/filter/zip/reversed/generator) is stored in a field, layer dictionary or constructor argument; no "
                  "from_cst returns a module-level instance (the parser writes trivia into what it returns); no memoised function "
                  "reads a file or a context variable (its answer would depend on when it was first asked)", floor=100)
    module_instances = {}
    for mod, assigns in prog.module_assigns.items():
        for name, v in assigns.items():
            if isinstance(v, ast.Call) and isinstance(v.func, ast.Name) and v.func.id in prog.classes and prog.fields(v.func.id):
                module_instances[name] = (mod, v.func.id)
    for f in prog.all_functions():
        if f.module.endswith("color.py"):
            continue
        r4.instances += 1
        probs = []
        for x in lints.stored_lazy_iterators(f):
            probs.append((x, "lazy iterator stored", f"`{norm(x)[:50]}` is consumed by its first reader: the first rebuild after the edit is right, every later "
                          f"rebuild (or edit) sees it empty — a let layer silently disappears"))
        if f.name == "from_cst":
            for rt in walk_no_nested(f.node):
                if isinstance(rt, ast.Return) and isinstance(rt.value, ast.Name) and rt.value.id in module_instances:
                    probs.append((rt, "from_cst returns a shared instance", f"`{norm(rt)}` hands out the module-level {module_instances[rt.value.id][1]} instance: the "
                                  f"parser assigns `.before` / appends to `.after` of what from_cst returns, so comments of one document show up "
                                  f"in every other document (and thread) that contains the same construct"))
        if memoised(f):
            reads = [c for c in ast.walk(f.node) if isinstance(c, ast.Call) and isinstance(c.func, ast.Attribute)
                     and c.func.attr in ("read_text", "read_bytes", "read", "open", "get", "stat", "exists")
                     and (c.func.attr != "get" or norm(c.func.value).isupper() or norm(c.func.value).startswith("_"))]
            reads += [c for c in ast.walk(f.node) if isinstance(c, ast.Call) and isinstance(c.func, ast.Name) and c.func.id == "open"]
            for c in reads:
                probs.append((c, "memoised function reads external state", f"`{norm(c)[:50]}` inside a memoised function: the first answer is kept "
                              f"although the file / context it was read from may have changed (a file damaged after the first parse still "
                              f"appears valid)"))
        r4.ob(not probs, None if not probs else {"site": f.key, "problems": [p_[1] for p_ in probs]})
        for node, what, msg in probs:
            res.add("R-C15-4", (f.key, what), f.loc(node), f"{f.key}: {msg}")
    res.tables.append(f"sa/rules/c15.py:STATE_WRITERS ({len(STATE_WRITERS)} confined objects, one reason each)")
    res.assumptions = ["interleavings themselves are not explored; confinement (thread-local, context variables, identity-validated "
                       "registry under the GIL) is the argument"]
    return res
