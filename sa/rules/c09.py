"""C09 — scope selectors address exactly the intended let layer (orientation, bounds, create/prune shape)."""
from __future__ import annotations

import ast

from sa.cfg import CFG, edges_establishing
from sa.model import Program, alpha, norm, walk_no_nested
from sa.report import Results
from sa.tables.reviewed import scope_creation_parts, witness_scope_creation_guard
from sa.util import callee, exc_name


def _order_of(cfg: CFG, first_pred, second_pred):
    """(first nodes, second nodes, every second node is dominated by some first node)"""
    a = [n for n in cfg.nodes if n.ast is not None and first_pred(n)]
    b = [n for n in cfg.nodes if n.ast is not None and second_pred(n)]
    # the own layer may be conditional (`if expr.scope:`): what matters is that no own-layer append can follow a stack append
    ok = bool(a) and bool(b) and not any(x in cfg.reachable(y) for y in b for x in a) and all(
        any(y in cfg.reachable(x) for x in a) for y in b)
    return a, b, ok


def _stmt_text(n):
    return norm(n.ast) if n.kind not in ("for",) else norm(n.ast.iter)


def _linear(e: ast.AST, env: dict, depth=0):
    """expression as a*i + b*n + c over the loop index i (0-based) and the list length n; None if not linear"""
    if depth > 6:
        return None
    if isinstance(e, ast.Constant) and isinstance(e.value, int) and not isinstance(e.value, bool):
        return (0, 0, e.value)
    if isinstance(e, ast.Name):
        return env.get(e.id)
    if isinstance(e, ast.Call) and isinstance(e.func, ast.Name) and e.func.id == "len" and len(e.args) == 1:
        return env.get("len:" + norm(e.args[0]))
    if isinstance(e, ast.BinOp) and isinstance(e.op, (ast.Add, ast.Sub)):
        a, b = _linear(e.left, env, depth + 1), _linear(e.right, env, depth + 1)
        if a is None or b is None:
            return None
        sg = 1 if isinstance(e.op, ast.Add) else -1
        return (a[0] + sg * b[0], a[1] + sg * b[1], a[2] + sg * b[2])
    return None


def _outer_trivia_on_last(fn: ast.AST, lp: ast.For, layers_expr: ast.AST) -> str:
    """which iteration of the wrapping loop hands `self.before` to the LetExpression it builds: 'last' | 'first' | 'every' |
    'unknown'.  The index arithmetic is evaluated as a linear form, so `index == total - 1`, `depth == len(layers)` with
    enumerate(start=1), `remaining == 0` … are the same thing."""
    let_calls = [c for c in ast.walk(lp) if isinstance(c, ast.Call) and callee(c) == "LetExpression"]
    if len(let_calls) != 1:
        return "unknown"
    kw = next((k.value for k in let_calls[0].keywords if k.arg == "before"), None)
    if kw is None:
        return "unknown"
    lname = norm(layers_expr)
    env: dict = {"len:" + lname: (0, 1, 0)}
    # the index variable of enumerate(…, start)
    it = lp.iter
    if isinstance(it, ast.Call) and isinstance(it.func, ast.Name) and it.func.id == "enumerate" and isinstance(lp.target, ast.Tuple) \
            and isinstance(lp.target.elts[0], ast.Name):
        start = 0
        if len(it.args) > 1 and isinstance(it.args[1], ast.Constant):
            start = it.args[1].value
        for k in it.keywords:
            if k.arg == "start" and isinstance(k.value, ast.Constant):
                start = k.value.value
        env[lp.target.elts[0].id] = (1, 0, start)
    # single-definition integer locals (`total = len(layers)`, `outermost = total - 1`)
    for _ in range(3):
        for d in ast.walk(fn):
            if isinstance(d, ast.Assign) and len(d.targets) == 1 and isinstance(d.targets[0], ast.Name) and d.targets[0].id not in env:
                if sum(1 for x in ast.walk(fn) if isinstance(x, ast.Name) and x.id == d.targets[0].id and isinstance(x.ctx, ast.Store)) == 1:
                    v = _linear(d.value, env)
                    if v is not None:
                        env[d.targets[0].id] = v

    def truth_of(test: ast.AST, depth=0):
        """'last' / 'first' / None for a test expression"""
        t, neg = test, False
        while isinstance(t, ast.UnaryOp) and isinstance(t.op, ast.Not):
            t, neg = t.operand, not neg
        if isinstance(t, ast.Name) and depth < 3:
            ds = [d for d in ast.walk(fn) if isinstance(d, ast.Assign) and len(d.targets) == 1 and norm(d.targets[0]) == t.id]
            if len(ds) == 1:
                r = truth_of(ds[0].value, depth + 1)
                return r if not neg else None
            return None
        if isinstance(t, ast.Compare) and len(t.ops) == 1 and isinstance(t.ops[0], (ast.Eq, ast.Is)) and not neg:
            a, b = _linear(t.left, env), _linear(t.comparators[0], env)
            if a is not None and b is not None:
                dlt = (a[0] - b[0], a[1] - b[1], a[2] - b[2])
                if dlt in ((1, -1, 1), (-1, 1, -1)):
                    return "last"  # i == n - 1
                if dlt in ((1, 0, 0), (-1, 0, 0)):
                    return "first"  # i == 0
            # `layer is layers[0]` in a reversed loop is the last iteration
            for x, y in ((t.left, t.comparators[0]), (t.comparators[0], t.left)):
                if isinstance(y, ast.Subscript) and norm(y.value) == lname and isinstance(y.slice, ast.Constant) and y.slice.value == 0 \
                        and isinstance(lp.target, ast.Tuple) and norm(x) == norm(lp.target.elts[-1]):
                    return "last"
        return None

    def side(e: ast.AST):
        return "self" if norm(e) == "self.before" else ("empty" if isinstance(e, (ast.List, ast.Tuple)) and not e.elts else None)

    if norm(kw) == "self.before":
        return "every"
    if isinstance(kw, ast.IfExp):
        which = truth_of(kw.test)
        a, b = side(kw.body), side(kw.orelse)
        if which and a == "self" and b == "empty":
            return which
        return "unknown"
    if isinstance(kw, ast.Name):
        # `if <test>: x = self.before … else: x = []` inside the loop
        for st in ast.walk(lp):
            if isinstance(st, ast.If) and st.orelse:
                def assigned(block):
                    for d in block:
                        if isinstance(d, ast.Assign) and any(norm(t) == kw.id for t in d.targets):
                            return side(d.value)
                        if isinstance(d, ast.Assign) and isinstance(d.targets[0], ast.Tuple) and isinstance(d.value, ast.Tuple):
                            for t, v in zip(d.targets[0].elts, d.value.elts):
                                if norm(t) == kw.id:
                                    return side(v)
                    return None
                a, b = assigned(st.body), assigned(st.orelse)
                which = truth_of(st.test)
                if which and a == "self" and b == "empty":
                    return which
                if which and a == "empty" and b == "self":
                    return {"last": "unknown", "first": "unknown"}[which]
    return "unknown"


def run(prog: Program) -> Results:
    res = Results("C09")
    sv = prog.func("set_value")
    rv = prog.func("remove_value")
    csl = prog.func("_collect_scope_layers")
    wsl = prog.func("_write_scope_layers")
    tse = prog.func("LetExpression.to_scoped_expression")
    rbs = prog.func("NixExpression.rebuild_scoped")
    res.analysed_functions |= {f.key for f in (sv, rv, csl, wsl, tse, rbs)}

    # ---------------------------------------------------------------- R-C09-1 orientation
    r1 = res.rule("R-C09-1", "one orientation everywhere: layers are stored and listed outermost first (own scope, then the stack); "
                  "selectors count from the end; re-wrapping iterates reversed with the outer trivia on the last iteration", floor=5)

    from sa.seqbuild import SeqBuilder, _rev
    from sa.util import Aliases

    def own_then_stack(f, list_name, label):
        """the list is read as a sequence of segments (sa/seqbuild.py): the expression's own layer, then one element per stacked
        layer in stored order — however that is spelled (append in a loop, extend with a generator, list display, helper)"""
        sb = SeqBuilder(f.node)
        if list_name is None:
            # what the function returns, whichever `return` it leaves through (`return stacked` when there is no own layer,
            # `return [own, *stacked]` otherwise): the fullest one is judged, the others must not contradict it
            outs = sb.returned() or []
            cands = [(o, sb.kinds(o, lambda t: ".stack" in t)) for o in outs]
            full = [(o, k) for o, k in cands if "first" in k and any(x.startswith("second") for x in k)]
            if full and all("first" not in k or (o, k) in full for o, k in cands):
                seq, kinds = full[0]
            else:
                seq, kinds = None, []
            list_name = "<returned list>"
        else:
            seq = sb.sequence(list_name)
            kinds = sb.kinds(seq, lambda t: ".stack" in t) if seq is not None else []
        r1.instances += 1
        if seq is None or "first" not in kinds or not any(k.startswith("second") for k in kinds):
            res.unclass(f"{f.key}: the 'own layer, then stacked layers' construction of `{list_name}` was not recognised")
            return
        first_second = kinds.index(next(k for k in kinds if k.startswith("second")))
        ok = "second-reversed" not in kinds and "first" not in kinds[first_second:]
        r1.ob(ok, {"site": f.key, "list": list_name, "segments": kinds})
        if not ok:
            at = next((x[1] for x, k in zip(seq, kinds) if k.startswith("second")), f.node)
            res.add("R-C09-1", (f.key, "layer order", label), f.loc(at),
                    f"{f.key} does not list the expression's own (outermost) layer before the stacked inner layers: "
                    f"selectors and re-wrapping would address a different let layer")

    def resolve_copy(fnode, name):
        """`inner = layers` copies are followed to the list that is built"""
        seen = set()
        while name not in seen:
            seen.add(name)
            ds = [d for d in ast.walk(fnode) if isinstance(d, ast.Assign) and len(d.targets) == 1 and norm(d.targets[0]) == name]
            if len(ds) == 1 and isinstance(ds[0].value, ast.Name):
                name = ds[0].value.id
            else:
                break
        return name

    # (a) to_scoped_expression: value's previous own layer first, then its stack; own bindings become `scope`
    stack_kw = next((k.value.id for c in ast.walk(tse.node) if isinstance(c, ast.Call) and callee(c) == "ScopeState"
                     for k in c.keywords if k.arg == "stack" and isinstance(k.value, ast.Name)), None)
    if stack_kw is None:
        res.unclass("to_scoped_expression: `ScopeState(stack=<list>)` not found")
    else:
        own_then_stack(tse, stack_kw, "to_scoped_expression")
    r1.instances += 1
    lifted = False
    for d in ast.walk(tse.node):
        if isinstance(d, ast.Dict):
            for k, v in zip(d.keys, d.values):
                if isinstance(k, ast.Constant) and k.value == "scope" and "self.local_variables" in norm(v):
                    lifted = True
    ok = lifted and stack_kw is not None
    r1.ob(ok, {"site": tse.key, "own_bindings_become": "scope", "previous_layers_become": "stack"})
    if not ok:
        res.add("R-C09-1", (tse.key, "lifting"), tse.loc(),
                "to_scoped_expression does not lift the let's own bindings into `scope` and the body's previous layers into `stack`")
    # (b) rebuild_scoped: the wrapping loop runs innermost-first and only its last iteration (the outermost let) carries the
    # node's own trivia
    wrap_loops = [n for n in walk_no_nested(rbs.node) if isinstance(n, ast.For)
                  and any(isinstance(c, ast.Call) and callee(c) == "LetExpression" for c in ast.walk(n))]
    r1.instances += 1
    if len(wrap_loops) != 1:
        res.unclass("rebuild_scoped: the loop that wraps the body in LetExpression layers was not found")
    else:
        lp = wrap_loops[0]
        it, rev = _rev(lp.iter)
        if isinstance(it, ast.Name):
            own_then_stack(rbs, resolve_copy(rbs.node, it.id), "rebuild_scoped")
        else:
            res.unclass("rebuild_scoped: the wrapping loop does not iterate a local list of layers")
        verdict = _outer_trivia_on_last(rbs.node, lp, it)
        ok = rev and verdict == "last"
        r1.ob(ok, {"site": rbs.key, "wrap": "reversed(layers), outer trivia on last", "iterates_reversed": rev, "own_trivia_on": verdict})
        if verdict == "unknown" and rev:
            res.unclass("rebuild_scoped: which iteration of the wrapping loop receives self.before/self.after was not recognised")
        elif not ok:
            res.add("R-C09-1", (rbs.key, "wrapping order"), rbs.loc(),
                    "rebuild_scoped does not wrap layers innermost-first (`reversed(layers)`) with the node's own trivia on the outermost let")
    # (c) _collect_scope_layers
    c_rets = [n for n in walk_no_nested(csl.node) if isinstance(n, ast.Return) and n.value is not None]
    if len(c_rets) == 1 and isinstance(c_rets[0].value, ast.Name):
        own_then_stack(csl, resolve_copy(csl.node, c_rets[0].value.id), "_collect_scope_layers")
    else:
        own_then_stack(csl, None, "_collect_scope_layers")
    # (d) selector indexing
    for f, pat in ((sv, "{l}[-{d}]"), (rv, "len({l}) - {d}")):
        l_, d_, _t = scope_creation_parts(f.node)
        if not (l_ and d_):
            res.unclass(f"{f.key}: layer list / selector depth variables not found (via _collect_scope_layers / _split_scope_npath)")
            continue
        want = {pat.format(l=l_, d=d_), f"{l_}[-{d_}]", f"len({l_}) - {d_}"}  # either spelling of "counted from the end"
        r1.instances += 1
        t = norm(f.node)
        ok = any(w in t for w in want)
        r1.ob(ok, {"site": f.key, "selector_index": sorted(want)})
        if not ok:
            res.add("R-C09-1", (f.key, "selector index"), f.loc(),
                    f"{f.key} does not index the layer list from the end ({sorted(want)}): `@` must select the innermost layer")
    # (e) _write_scope_layers
    r1.instances += 1
    t = norm(wsl.node)
    p0, p1 = wsl.params()[0], wsl.params()[1]
    an = alpha(wsl.node, wsl.node, anonymous=True)
    ok = (f"= {p1}[0]" in t or "($, *$) = $" in an) and (f"in {p1}[1:]" in t or "($, *$) = $" in an) and f"{p0}.scope = " in t
    r1.ob(ok, {"site": wsl.key, "first_layer": "scope", "rest": "stack"})
    if not ok:
        res.add("R-C09-1", (wsl.key, "write-back order"), wsl.loc(),
                "_write_scope_layers does not write layers[0] to `scope` and layers[1:] to the stack")

    # ---------------------------------------------------------------- R-C09-2 bounds
    r2 = res.rule("R-C09-2", "every selector-derived index into the layer list is dominated by `depth > len(layers)` -> ValueError on "
                  "the same list with no resize in between", floor=3)
    for f in (sv, rv):
        cfg = CFG(f.node)
        L, D, _t = scope_creation_parts(f.node)
        if not (L and D):
            continue
        idx_vars = {norm(d.targets[0]) for d in ast.walk(f.node) if isinstance(d, ast.Assign) and norm(d.value) == f"len({L}) - {D}"}

        def in_bounds(a, truth, L=L, D=D):
            return (norm(a) == f"{D} > len({L})" and truth is False) or (norm(a) == f"{D} <= len({L})" and truth is True)

        e = edges_establishing(cfg, in_bounds)
        guards = {t for t, _ in e}
        uses = []
        for n in cfg.nodes:
            if n.ast is None or n.kind == "def":
                continue
            for s in ast.walk(n.ast) if n.kind != "for" else ast.walk(n.ast.iter):
                if isinstance(s, ast.Subscript) and norm(s.value) == L and (D in norm(s.slice).replace("-", " ").split() or norm(s.slice) == f"-{D}" or norm(s.slice) in idx_vars):
                    uses.append((n, s))
        r2.instances += len(uses)
        if not uses:
            res.unclass(f"{f.key}: no selector-indexed access to `layers` found")
        for n, s in uses:
            ok = bool(e) and cfg.all_paths_pass(n, cut_edges=e)
            # no resize of `layers` between the guard and the use
            resized = False
            for g in guards:
                reach = cfg.reachable(g, removed_edges=[(g, True)] if any(lab is False for t_, lab in e if t_ is g) else [])
                back = cfg.reachable(n, forward=False)
                for m in reach & back:
                    if m is n or m.ast is None:
                        continue
                    tx = norm(m.ast) if m.kind == "stmt" else ""
                    if tx.startswith((f"{L}.append(", f"{L}.insert(", f"{L}.pop(", f"del {L}[", f"{L}.extend(", f"{L}.clear(")):
                        resized = True
            r2.ob(ok and not resized, {"site": f.key, "use": norm(s), "guarded": ok, "resized_between": resized})
            if not ok:
                res.add("R-C09-2", (f.key, "unguarded selector index", alpha(s, f.node)), f.loc(s),
                        f"{f.key}: `{norm(s)}` is reachable without the `{D} > len({L})` check: Python's negative indexing "
                        f"would silently address a different layer")
            elif resized:
                res.add("R-C09-2", (f.key, "resize between guard and index", alpha(s, f.node)), f.loc(s),
                        f"{f.key}: the layer list is resized between the depth check and `{norm(s)}`")
        for t, lab in e:
            arm = [s_ for l, s_ in t.succ if l == (not lab)]
            ok = all(s_.kind == "raise" and exc_name(s_.ast.exc) == "ValueError" for s_ in arm)
            r2.ob(ok, {"site": f.key, "guard_raises": "ValueError"})
            if not ok:
                res.add("R-C09-2", (f.key, "depth guard does not raise"), f.loc(t.ast), "the out-of-range arm of the depth check does not raise ValueError")

    # ---------------------------------------------------------------- R-C09-3 create once, prune exactly one
    r3 = res.rule("R-C09-3", "one innermost layer is created only under `not layers and depth == 1`; the only pruned layer is the "
                  "selected one, and only when its scope is empty", floor=2)
    r3.instances += 1
    ok = witness_scope_creation_guard(prog, sv.node)
    r3.ob(ok, {"site": sv.key, "creation_guard": "not layers and depth == 1; one append"})
    if not ok:
        res.add("R-C09-3", (sv.key, "layer creation guard"), sv.loc(),
                "the layer-creation arm of set_value is not confined to `not layers and depth == 1` with exactly one appended layer: "
                "a deeper selector on a document without that layer would create/modify instead of failing")
    rcfg = CFG(rv.node)
    RL, RD, _t = scope_creation_parts(rv.node)
    RL = RL or "layers"
    ridx = {norm(d.targets[0]) for d in ast.walk(rv.node) if isinstance(d, ast.Assign) and norm(d.value) == f"len({RL}) - {RD}"}
    ridx = ridx | {f"-{RD}"}  # `layers[-depth]` addresses the same layer as `layers[len(layers) - depth]`
    tlayer = {norm(d.targets[0]) for d in ast.walk(rv.node) if isinstance(d, ast.Assign) and isinstance(d.value, ast.Subscript)
              and norm(d.value.value) == RL and norm(d.value.slice) in ridx}
    def _pruned_index(n):
        """index expression of `del layers[i]` / `layers.pop(i)` in CFG node n, else None"""
        if isinstance(n.ast, ast.Delete):
            for t in n.ast.targets:
                if isinstance(t, ast.Subscript) and norm(t.value) == RL:
                    return norm(t.slice)
        if n.ast is not None and n.kind == "stmt":
            for c in ast.walk(n.ast):
                if isinstance(c, ast.Call) and isinstance(c.func, ast.Attribute) and c.func.attr == "pop" and norm(c.func.value) == RL and len(c.args) == 1:
                    return norm(c.args[0])
        return None

    dels = [n for n in rcfg.nodes if _pruned_index(n) is not None]
    r3.instances += len(dels)
    if len(dels) != 1:
        res.add("R-C09-3", (rv.key, "prune count"), rv.loc(), f"remove_value deletes from the layer list at {len(dels)} places (expected exactly one)")
    for d in dels:
        idx = _pruned_index(d)

        def empty_scope(a, truth):
            return any(norm(a) in (f"{tl}['scope']", f"{tl}.get('scope')") for tl in tlayer) and truth is False

        e = edges_establishing(rcfg, empty_scope)
        ok = idx in ridx and bool(e) and rcfg.all_paths_pass(d, cut_edges=e) and bool(tlayer)
        r3.ob(ok, {"site": rv.key, "prune": norm(d.ast), "guard": "not target_layer['scope']"})
        if not ok:
            res.add("R-C09-3", (rv.key, "prune guard"), rv.loc(d.ast),
                    f"`{norm(d.ast)}` is not the selected layer guarded by emptiness of its scope: a non-empty or different let layer could be removed")

    # ---------------------------------------------------------------- R-C09-4 created let sits where the grammar admits one
    r4 = res.rule("R-C09-4", "a let created around the target is only created where the grammar admits a bare let (not in a call "
                  "argument position), or the target is parenthesised", floor=1)
    r4.instances += 1
    resolver = prog.func("_resolve_target_set_from_expr")
    through_call_argument = "_resolve_call_argument" in resolver.nested
    t = norm(sv.node)
    witness = "Parenthesis(" in t or "position" in t or "in_argument" in t
    ok = (not through_call_argument) or witness
    r4.ob(ok, {"resolver_reaches_call_arguments": through_call_argument, "creation_consults_position_or_wraps": witness})
    if not ok:
        res.add("R-C09-4", (sv.key, "let created in call-argument position"), sv.loc(),
                "the target set may be a function-call argument (resolver arm _resolve_call_argument) but layer creation neither "
                "consults the position nor parenthesises: `set @x 1` on `f { a = 1; }` emits `f let … in { a = 1; }`, which is not valid Nix")

    # ---------------------------------------------------------------- R-C09-5 snapshots (shared with R-C04-3)
    from sa.rules import c04
    sub = c04.run(prog)
    st = sub.rules.get("R-C04-3")
    # ---------------------------------------------------------------- R-C09-6 depth = length of the leading run of `@`
    r6 = res.rule("R-C09-6", "the selector depth is the length of the *leading* run of `@` and the remaining path is the input "
                  "without exactly that prefix: an `@` inside a quoted name is not a selector", floor=1)
    sp = prog.func("_split_scope_npath")
    res.analysed_functions.add(sp.key)
    r6.instances += 1
    src = sp.params()[0]
    rets = [n for n in walk_no_nested(sp.node) if isinstance(n, ast.Return) and isinstance(n.value, ast.Tuple) and len(n.value.elts) == 2]
    verdict, why = None, ""

    def defs_of(name):
        return [n for n in ast.walk(sp.node) if isinstance(n, (ast.Assign, ast.AugAssign)) and
                norm(n.targets[0] if isinstance(n, ast.Assign) else n.target) == name]

    whole_count = [c for c in ast.walk(sp.node) if isinstance(c, ast.Call) and isinstance(c.func, ast.Attribute)
                   and c.func.attr in ("count", "rfind", "rindex", "rpartition", "rsplit", "split") and norm(c.func.value) == src]
    if whole_count:
        verdict, why = False, f"`{norm(whole_count[0])}` looks at every `@` of the path, also those inside quoted names"
    elif len(rets) == 1:
        d_expr, r_expr = rets[0].value.elts
        d_name = d_expr.id if isinstance(d_expr, ast.Name) else None
        r_defs = defs_of(norm(r_expr)) if isinstance(r_expr, ast.Name) else []
        r_val = r_defs[0].value if len(r_defs) == 1 and isinstance(r_defs[0], ast.Assign) else r_expr
        # idiom 1: counting loop that breaks at the first other character + slice by the counter
        loops = [l for l in walk_no_nested(sp.node) if isinstance(l, ast.For) and norm(l.iter) == src]
        if d_name and len(loops) == 1:
            lp = loops[0]
            ch = norm(lp.target)
            first = lp.body[0] if lp.body else None
            breaks_first = isinstance(first, ast.If) and norm(first.test) in (f"{ch} != '@'", f"not {ch} == '@'") and \
                any(isinstance(x, ast.Break) for x in first.body) and not first.orelse
            incs = [n for n in lp.body[1:] if isinstance(n, ast.AugAssign) and norm(n.target) == d_name and isinstance(n.op, ast.Add) and norm(n.value) == "1"]
            alt = isinstance(first, ast.If) and norm(first.test) == f"{ch} == '@'" and any(
                isinstance(n, ast.AugAssign) and norm(n.target) == d_name for n in first.body) and any(isinstance(x, ast.Break) for x in first.orelse)
            zero = [n for n in defs_of(d_name) if isinstance(n, ast.Assign) and norm(n.value) == "0"]
            other = [n for n in defs_of(d_name) if n not in zero and n not in incs and not (alt and n in ast.walk(first))]
            sliced = norm(r_val) == f"{src}[{d_name}:]"
            if ((breaks_first and len(incs) == 1) or alt) and len(zero) == 1 and not other and sliced:
                verdict = True
            elif (breaks_first and incs) or alt:
                verdict, why = False, f"the remainder `{norm(r_val)}` is not `{src}[{d_name}:]` or the counter has other definitions"
        # idiom 3: the depth is the position of the first character that is not `@` (the whole length when there is none)
        if verdict is None and d_name:
            dd3 = defs_of(d_name)
            dv3 = dd3[0].value if len(dd3) == 1 and isinstance(dd3[0], ast.Assign) else None
            if isinstance(dv3, ast.Call) and isinstance(dv3.func, ast.Name) and dv3.func.id == "next" and len(dv3.args) == 2 \
                    and isinstance(dv3.args[0], ast.GeneratorExp):
                g3 = dv3.args[0].generators[0]
                first_other = (isinstance(g3.iter, ast.Call) and isinstance(g3.iter.func, ast.Name) and g3.iter.func.id == "enumerate"
                               and len(g3.iter.args) == 1 and norm(g3.iter.args[0]) == src and isinstance(g3.target, ast.Tuple) and len(g3.target.elts) == 2
                               and norm(dv3.args[0].elt) == norm(g3.target.elts[0]) and len(g3.ifs) == 1
                               and norm(g3.ifs[0]) in (f"{norm(g3.target.elts[1])} != '@'", f"not {norm(g3.target.elts[1])} == '@'"))
                if first_other:
                    from sa.util import Aliases as _Al3
                    rem3 = norm(r_val.value) if isinstance(r_val, ast.NamedExpr) else _Al3(sp.node).norm(r_val)
                    # the remainder may be bound by a walrus inside the emptiness test
                    wal = [w for w in ast.walk(sp.node) if isinstance(w, ast.NamedExpr) and norm(w.target) == norm(r_expr)]
                    if wal:
                        rem3 = norm(wal[0].value)
                    if norm(dv3.args[1]) == f"len({src})" and rem3 == f"{src}[{d_name}:]":
                        verdict = True
                    else:
                        verdict, why = False, f"the default `{norm(dv3.args[1])}` / remainder `{rem3}` do not describe the leading `@` run"
        # idiom 2: the depth is the length difference to the stripped text; the remainder is the stripped text or the slice by
        # the depth (any mix of the two spellings, locals looked through)
        if verdict is None:
            from sa.util import Aliases
            al2 = Aliases(sp.node, calls=("len", "lstrip"))
            strip = f"{src}.lstrip('@')"
            dd = defs_of(d_name) if d_name else []
            dv = dd[0].value if len(dd) == 1 and isinstance(dd[0], ast.Assign) else d_expr
            depth_ok = al2.norm(dv) in (f"len({src}) - len({strip})",)
            rem_txt = al2.norm(r_val)
            rem_ok = rem_txt == strip or (d_name is not None and norm(r_val) == f"{src}[{d_name}:]") or rem_txt == f"{src}[len({src}) - len({strip}):]"
            if strip in al2.norm(dv) or strip in rem_txt:
                if depth_ok and rem_ok:
                    verdict = True
                elif not depth_ok:
                    verdict, why = False, f"the depth `{norm(dv)}` is not the length of the stripped prefix"
                else:
                    verdict, why = False, f"the remainder `{norm(r_val)}` is not the input without its leading `@` run"
    if verdict is None:
        res.unclass("_split_scope_npath: neither the counting-loop nor the strip-and-difference idiom was recognised")
    else:
        r6.ob(verdict, {"function": sp.key, "returns": norm(rets[0].value) if rets else None})
        if not verdict:
            res.add("R-C09-6", (sp.key, "depth is not the leading run of @"), sp.loc(rets[0] if rets else None),
                    f"_split_scope_npath: {why}: `@\"user@host\"` addresses the second-innermost layer instead of the innermost one")
    r5 = res.rule("R-C09-5", "scope-layer snapshots and write-backs are field-wise faithful and complete: layers are never mixed "
                  "(shared with R-C04-3)", floor=5)
    if st:
        r5.instances, r5.obligations, r5.discharged, r5.samples = st.instances, st.obligations, st.discharged, st.samples
    for fnd in sub.findings:
        if fnd.rule == "R-C04-3":
            res.add("R-C09-5", fnd.key, fnd.where, fnd.message)
    st41 = sub.rules.get("R-C04-1")
    r11 = res.rule("R-C09-11", "a scoped edit writes the addressed layer's own lists: every document-state write reachable from set/rm "
                   "targets the addressed binding, its containers or their order mirror — a list that is rebound on the temporary "
                   "set standing for a layer never reaches the layer (shared with R-C04-1)", floor=2)
    if st41:
        r11.instances, r11.obligations, r11.discharged = st41.instances, st41.obligations, st41.discharged
    for fnd in sub.findings:
        if fnd.rule == "R-C04-1":
            res.add("R-C09-11", fnd.key, fnd.where, fnd.message)
    # ---------------------------------------------------------------- R-C09-8 layers are told apart by position, never by content
    r8 = res.rule("R-C09-8", "let layers are identified by position: outside __eq__ no `==` / `!=` / `in` compares a layer's bindings "
                  "(`layer[\"scope\"]`, `.scope`, `.local_variables`) with another's — two layers that bind the same names to the same "
                  "values are still two layers", floor=20)
    for f in prog.all_functions():
        if f.name in ("__eq__", "__ne__", "__hash__") or f.module.endswith("color.py"):
            continue
        if not (f.module.endswith(("expression.py", "scope.py", "let.py", "manipulations.py", "resolution.py", "set.py", "source_code.py"))):
            continue
        r8.instances += 1
        bad = []
        for c in walk_no_nested(f.node):
            if isinstance(c, ast.Compare) and len(c.ops) == 1 and isinstance(c.ops[0], (ast.Eq, ast.NotEq, ast.In, ast.NotIn)):
                sides = [c.left, c.comparators[0]]

                def is_layer_scope(e):
                    t = norm(e)
                    return (isinstance(e, ast.Attribute) and e.attr in ("scope", "local_variables")) or \
                           (isinstance(e, ast.Subscript) and isinstance(e.slice, ast.Constant) and e.slice.value == "scope") or \
                           (isinstance(e, ast.Call) and isinstance(e.func, ast.Attribute) and e.func.attr == "get" and e.args
                            and isinstance(e.args[0], ast.Constant) and e.args[0].value == "scope")
                if any(is_layer_scope(x) for x in sides) and not any(isinstance(x, ast.Constant) or (isinstance(x, (ast.List, ast.Tuple)) and not x.elts) for x in sides):
                    bad.append(c)
        r8.ob(not bad, None if not bad else {"site": f.key, "comparisons": [norm(c) for c in bad]})
        for c in bad:
            res.add("R-C09-8", (f.key, "layers compared by content", norm(c)[:50]), f.loc(c),
                    f"{f.key}: `{norm(c)}` compares the bindings of two let layers by value: an inner layer whose bindings equal the "
                    f"outermost layer's (`let debug = false; in … let debug = false; in`) is taken for a duplicate, and every selector "
                    f"after it addresses the wrong layer")
    # ---------------------------------------------------------------- R-C09-9 a layer is stored in one place
    r9 = res.rule("R-C09-9", "lifting a let stores every layer in exactly one place: when LetExpression.to_scoped_expression moves "
                  "the body's own scope into the stack snapshot, the same copy also replaces the body's `scope` — otherwise the "
                  "body's layer exists twice (own scope + stack) and is re-emitted twice", floor=2)
    tse = prog.func("LetExpression.to_scoped_expression")
    res.analysed_functions.add(tse.key)
    snap_vars = set()
    for d in ast.walk(tse.node):
        if isinstance(d, ast.Call) and isinstance(d.func, ast.Attribute) and d.func.attr in ("append", "extend") and isinstance(d.func.value, ast.Name):
            snap_vars.add(d.func.value.id)
    for rt in [n for n in walk_no_nested(tse.node) if isinstance(n, ast.Return) and isinstance(n.value, ast.Call)
               and isinstance(n.value.func, ast.Attribute) and n.value.func.attr == "model_copy"]:
        upd = next((k.value for k in rt.value.keywords if k.arg == "update"), None)
        if not isinstance(upd, ast.Dict):
            continue
        r9.instances += 1
        keys = {k.value: v for k, v in zip(upd.keys, upd.values) if isinstance(k, ast.Constant)}
        restacks = "scope_state" in keys and any(isinstance(x, ast.Name) and x.id in snap_vars for x in ast.walk(keys["scope_state"]))
        ok = (not restacks) or "scope" in keys
        r9.ob(ok, {"return_updates": sorted(keys), "re_stacks_body_layers": restacks})
        if not ok:
            res.add("R-C09-9", (tse.key, "body layer stored twice"), tse.loc(rt),
                    f"{tse.key}: `{norm(rt)[:70]}` installs a stack that contains a snapshot of the body's own scope but leaves the body's "
                    f"`scope` in place: `let in let a = 1; in a` is rebuilt with the inner let twice")
    from sa.rules import c03 as _shared_c03_10
    _sub = _shared_c03_10.run(prog)
    _st = _sub.rules.get("R-C03-8")
    _r = res.rule("R-C09-10", "re-wrapping consumes every trivia slot of every layer on every path, so each layer keeps its own comments (shared with R-C03-8)", floor=5)
    if _st:
        _r.instances, _r.obligations, _r.discharged = _st.instances, _st.obligations, _st.discharged
    for _f in _sub.findings:
        if _f.rule == "R-C03-8":
            res.add("R-C09-10", _f.key, _f.where, _f.message)
    from sa.rules import cursor
    cursor.check(prog, res, "R-C09-7", ("cli/manipulations.py",), 4)
    body_only_without_layers(prog, res)
    from sa.rules.c11 import closer_scope_first
    closer_scope_first(prog, res, rid="R-C09-13")  # the layer the selector addressed is consulted before the outermost let
    res.assumptions = ["contents of the other layers' text and name shadowing across layers are runtime data"]
    return res


def body_only_without_layers(prog: Program, res: Results) -> None:
    """R-C09-12: `@name` addresses a let layer.  The one shortcut that edits the body set instead (the body already defines the
    name and there is no `let` to put it in) is taken only when no layer exists."""
    from sa.cfg import CFG, edges_establishing
    from sa.tables.reviewed import scope_creation_parts
    from sa.util import callee
    r = res.rule("R-C09-12", "a scoped selector edits a let layer: in set_value / remove_value an edit helper applied to the resolved body "
                 "set itself (not to the set standing for a layer) on the scoped branch is dominated by the fact that no layer exists "
                 "(`not layers`)", floor=1)
    for key in ("set_value", "remove_value"):
        f = prog.funcs.get(key)
        if f is None:
            continue
        layers, depth, target = scope_creation_parts(f.node)
        if not (layers and target):
            continue
        cfg = CFG(f.node)
        res.analysed_functions.add(key)
        # the scoped branch: statements after the layers were collected
        ln = next((n for n in cfg.nodes if isinstance(n.ast, ast.Assign) and isinstance(n.ast.value, ast.Call) and callee(n.ast.value) == "_collect_scope_layers"), None)
        if ln is None:
            continue
        after = cfg.reachable(ln, follow_exc=False)
        none = edges_establishing(cfg, lambda a, t: (norm(a) in (layers, f"len({layers})", f"len({layers}) > 0") and t is False)
                                  or (norm(a) in (f"not {layers}", f"len({layers}) == 0") and t is True))
        for n in after:
            if n.ast is None or n.kind not in ("stmt", "test", "return"):
                continue
            for c in ast.walk(n.ast):
                if isinstance(c, ast.Call) and (callee(c) or "").startswith(("_set_value_in_attrset", "_remove_value", "_set_attrpath", "_remove_attrpath")) \
                        and c.args and isinstance(c.args[0], ast.Name) and c.args[0].id == target:
                    r.instances += 1
                    ok = bool(none) and cfg.all_paths_pass(n, cut_edges=none)
                    r.ob(ok, {"site": key, "edit_of_the_body": norm(c)[:60]})
                    if not ok:
                        res.add("R-C09-12", (key, "scoped selector edits the body although layers exist", callee(c)), f.loc(c),
                                f"{key}: `{norm(c)[:70]}` edits the body set `{target}` on the `@` branch without `not {layers}` being known: "
                                f"with `let version = …; in {{ version = …; }}`, `set @version` rewrites the body's attribute and leaves the "
                                f"let layer it addresses untouched")
