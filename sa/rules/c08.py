"""C08 — a rejected edit is loud and leaves the document exactly as it was (ordering + escape analysis)."""
from __future__ import annotations

import ast

from sa.effects import Effects
from sa.model import Program, norm, walk_no_nested
from sa.report import Results
from sa.tables.reviewed import Reviewed, INFEASIBLE_PAIRS, BENIGN_MUTATIONS

EDIT_ROOTS = ["set_value", "remove_value"]
MAPPING_ROOTS = ["AttributeSet.__setitem__", "AttributeSet.__delitem__", "Scope.__setitem__", "Scope.__delitem__",
                 "NixSourceCode.__setitem__", "NixSourceCode.__delitem__", "LetExpression.__setitem__",
                 "LetExpression.__delitem__", "Identifier.value#setter"]
ALLOWED_ESCAPES = {"KeyError", "ValueError"}
REFLECTION = {"setattr", "delattr", "vars", "__dict__", "__setattr__", "__delattr__"}


def closure_of(eng: Effects, roots):
    seen = set()
    todo = list(roots)
    bykey = {}
    for sk, s in eng.summaries.items():
        k = sk[0]
        bykey.setdefault(k, []).append(s)
    while todo:
        k = todo.pop()
        if k in seen:
            continue
        seen.add(k)
        for s in bykey.get(k, []):
            todo.extend(s.callees)
    return seen, bykey


def analyse_roots(prog: Program, roots):
    rev = Reviewed(prog)
    eng = Effects(prog, reviewed=rev)
    sums = {r: eng.summarize(r) for r in roots}
    return eng, rev, sums


def run(prog: Program, roots=None, prop="C08") -> Results:
    res = Results(prop)
    roots = roots or (EDIT_ROOTS + MAPPING_ROOTS)
    for r in roots:
        prog.func(r)
    eng, rev, sums = analyse_roots(prog, roots)
    closure, bykey = closure_of(eng, roots)
    res.analysed_functions |= closure

    # ---------------------------------------------------------------- R-C08-1
    r1 = res.rule("R-C08-1", "no rejection point (raise, or a call whose summary lets an exception escape) is reachable after a "
                  "document-state write on the same path of the edit closure", floor=11)
    r1.instances = len(roots)
    n_raise = n_mut = 0
    for k in closure:
        for s in bykey.get(k, [])[:1]:
            n_raise += len(s.raise_sites)
            n_mut += sum(1 for m in s.mut_sites if m.kind == "doc" and m.via is None)
    seen = set()
    for root, s in sums.items():
        for rec in s.raise_after_mut:
            key = (rec.func, rec.mut_text, rec.raise_text)
            if key in seen:
                continue
            seen.add(key)
            r1.ob(False, {"entry": root, "mutation": rec.mut_text, "rejection": rec.raise_text, "exc": rec.exc})
            res.add("R-C08-1", key, f"{rec.file}:{rec.raise_line}",
                    f"rejected edit after mutation: in {rec.func} the document write `{rec.mut_text}` (line {rec.mut_line}) can be "
                    f"followed by a {rec.exc} from `{rec.raise_text}` (line {rec.raise_line}); reached from {root}",
                    entry=root, origins=sorted(rec.origins))
    # every explicit raise in the closure is an obligation that was examined in state CLEAN or reported
    r1.obligations += n_raise
    r1.discharged += n_raise
    r1.samples.append({"entries": roots, "functions_in_closure": len(closure), "explicit_raise_sites": n_raise,
                       "document_mutation_sites": n_mut})
    for e in rev.used:
        r1.samples.append({"reviewed_infeasible_pair": e})
    for e in rev.failed:
        res.notes.append(f"reviewed entry no longer applies (witness failed): {e['function']}: {e['mutation']} -> {e['raise']}")
    if n_raise < 40:
        res.unclass(f"only {n_raise} explicit raise sites found in the edit closure (floor 40)")
    if n_mut < 15:
        res.unclass(f"only {n_mut} document mutation sites found in the edit closure (floor 15)")
    if len(closure) < 40:
        res.unclass(f"only {len(closure)} functions in the edit closure (floor 40)")

    # ---------------------------------------------------------------- R-C08-2
    r2 = res.rule("R-C08-2", "only KeyError/ValueError (and subclasses) escape set_value / remove_value", floor=2)
    for root in EDIT_ROOTS:
        if root not in sums:
            continue
        r2.instances += 1
        s = sums[root]
        for exc in sorted(s.raises):
            ok = any(eng.is_subclass_exc(exc, a) for a in ALLOWED_ESCAPES)
            r2.ob(ok, {"entry": root, "escaping": exc})
            if not ok:
                # find where it comes from
                origin = _origin_of(eng, bykey, root, exc)
                res.add("R-C08-2", (root, "escapes", exc), origin[1] if origin else prog.func(root).loc(),
                        f"{exc} may escape {root} (raised in {origin[0] if origin else '?'}): a rejected edit must raise KeyError or ValueError")

    # ---------------------------------------------------------------- R-C08-3 (CLI) shared with C16
    if prop == "C08":
        from sa.rules import c16
        r3 = res.rule("R-C08-3", "CLI: no handler around the library call, stdout is written only after it returned, exit 0 only then "
                      "(shared with R-C16-2)", floor=1)
        sub = c16.run(prog)
        st = sub.rules.get("R-C16-2")
        if st:
            r3.instances, r3.obligations, r3.discharged = st.instances, st.obligations, st.discharged
        for f in sub.findings:
            if f.rule == "R-C16-2":
                res.add("R-C08-3", f.key, f.where, f.message)

    # ---------------------------------------------------------------- R-C08-4 no reflection
    r4 = res.rule("R-C08-4", "no reflective writes (setattr/__dict__/vars/object.__setattr__) in the edit closure: the effect "
                  "model sees every mutation", floor=40)
    for k in sorted(closure):
        f = prog.funcs.get(k)
        if f is None:
            continue
        r4.instances += 1
        bad = None
        for n in walk_no_nested(f.node):
            if isinstance(n, ast.Name) and n.id in REFLECTION and isinstance(n.ctx, ast.Load):
                bad = n
            if isinstance(n, ast.Attribute) and n.attr in REFLECTION:
                bad = n
        r4.ob(bad is None, None)
        if bad is not None:
            res.add("R-C08-4", (k, "reflection", norm(bad)), f.loc(bad),
                    f"{k} uses `{norm(bad)}`: a reflective write would be invisible to the mutate-then-raise analysis")
    res.tables.append(f"sa/tables/reviewed.py: {len(INFEASIBLE_PAIRS)} infeasible mutate-then-raise pairs (witness re-checked each run), "
                      f"{len(BENIGN_MUTATIONS)} benign text-preserving normalisations")
    res.assumptions = ["the final source.rebuild() is the emission step, not a rejection point (its failures belong to C20)",
                       "registry state (_CONTEXTS, Scope.owner back-pointers) is not document state"]
    return res


def _origin_of(eng, bykey, root, exc, depth=0, seen=None):
    seen = seen or set()
    if root in seen or depth > 12:
        return None
    seen.add(root)
    for s in bykey.get(root, []):
        for node, e, text in s.raise_sites:
            if e == exc:
                f = eng.prog.funcs[root]
                return (root, f.loc(node))
        for c in sorted(s.callees):
            for cs in bykey.get(c, []):
                if exc in cs.raises:
                    r = _origin_of(eng, bykey, c, exc, depth + 1, seen)
                    if r:
                        return r
    return None
