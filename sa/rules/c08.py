"""C08 — a rejected edit is loud and leaves the document exactly as it was (ordering + escape analysis)."""
from __future__ import annotations

import ast

from sa.effects import Effects
from sa.model import Program, norm, walk_no_nested
from sa.report import Results
from sa.tables.reviewed import Reviewed, INFEASIBLE_PAIRS, BENIGN_MUTATIONS

EDIT_ROOTS = ["set_value", "remove_value"]
MAPPING_ROOTS = ["AttributeSet.__setitem__", "AttributeSet.__delitem__", "Scope.__setitem__", "Scope.__delitem__",
                 "NixSourceCode.__setitem__", "NixSourceCode.__delitem__", "LetExpression.__setitem__",
                 "LetExpression.__delitem__", "Identifier.value#setter"]
ALLOWED_ESCAPES = {"KeyError", "ValueError"}
REFLECTION = {"setattr", "delattr", "vars", "__dict__", "__setattr__", "__delattr__"}


def closure_of(eng: Effects, roots):
    seen = set()
    todo = list(roots)
    bykey = {}
    for sk, s in eng.summaries.items():
        k = sk[0]
        bykey.setdefault(k, []).append(s)
    while todo:
        k = todo.pop()
        if k in seen:
            continue
        seen.add(k)
        for s in bykey.get(k, []):
            todo.extend(s.callees)
    return seen, bykey


def analyse_roots(prog: Program, roots):
    rev = Reviewed(prog)
    eng = Effects(prog, reviewed=rev)
    sums = {r: eng.summarize(r) for r in roots}
    return eng, rev, sums


def run(prog: Program, roots=None, prop="C08") -> Results:
    res = Results(prop)
    roots = roots or (EDIT_ROOTS + MAPPING_ROOTS)
    for r in roots:
        prog.func(r)
    eng, rev, sums = analyse_roots(prog, roots)
    closure, bykey = closure_of(eng, roots)
    res.analysed_functions |= closure

    # ---------------------------------------------------------------- R-C08-1
    r1 = res.rule("R-C08-1", "no rejection point (raise, or a call whose summary lets an exception escape) is reachable after a "
                  "document-state write on the same path of the edit closure", floor=11)
    r1.instances = len(roots)
    n_raise = n_mut = 0
    for k in closure:
        for s in bykey.get(k, [])[:1]:
            n_raise += len(s.raise_sites)
            n_mut += sum(1 for m in s.mut_sites if m.kind == "doc" and m.via is None)
    seen = set()
    for root, s in sums.items():
        for rec in s.raise_after_mut:
            key = (rec.func, rec.mut_text, rec.raise_text)
            if key in seen:
                continue
            seen.add(key)
            r1.ob(False, {"entry": root, "mutation": rec.mut_text, "rejection": rec.raise_text, "exc": rec.exc})
            res.add("R-C08-1", key, f"{rec.file}:{rec.raise_line}",
                    f"rejected edit after mutation: in {rec.func} the document write `{rec.mut_text}` (line {rec.mut_line}) can be "
                    f"followed by a {rec.exc} from `{rec.raise_text}` (line {rec.raise_line}); reached from {root}",
                    entry=root, origins=sorted(rec.origins))
    # every explicit raise in the closure is an obligation that was examined in state CLEAN or reported
    r1.obligations += n_raise
    r1.discharged += n_raise
    r1.samples.append({"entries": roots, "functions_in_closure": len(closure), "explicit_raise_sites": n_raise,
                       "document_mutation_sites": n_mut})
    for e in rev.used:
        r1.samples.append({"reviewed_infeasible_pair": e})
    for e in rev.failed:
        res.notes.append(f"reviewed entry no longer applies (witness failed): {e['function']}: {e['mutation']} -> {e['raise']}")
    if n_raise < 40:
        res.unclass(f"only {n_raise} explicit raise sites found in the edit closure (floor 40)")
    if n_mut < 15:
        res.unclass(f"only {n_mut} document mutation sites found in the edit closure (floor 15)")
    if len(closure) < 40:
        res.unclass(f"only {len(closure)} functions in the edit closure (floor 40)")

    # ---------------------------------------------------------------- R-C08-2
    r2 = res.rule("R-C08-2", "only KeyError/ValueError (and subclasses) escape set_value / remove_value", floor=2)
    for root in EDIT_ROOTS:
        if root not in sums:
            continue
        r2.instances += 1
        s = sums[root]
        for exc in sorted(s.raises):
            ok = any(eng.is_subclass_exc(exc, a) for a in ALLOWED_ESCAPES)
            r2.ob(ok, {"entry": root, "escaping": exc})
            if not ok:
                # find where it comes from
                origin = _origin_of(eng, bykey, root, exc)
                res.add("R-C08-2", (root, "escapes", exc), origin[1] if origin else prog.func(root).loc(),
                        f"{exc} may escape {root} (raised in {origin[0] if origin else '?'}): a rejected edit must raise KeyError or ValueError")

    # ---------------------------------------------------------------- R-C08-3 (CLI) shared with C16
    if prop == "C08":
        from sa.rules import c16
        r3 = res.rule("R-C08-3", "CLI: no handler around the library call, stdout is written only after it returned, exit 0 only then "
                      "(shared with R-C16-2)", floor=1)
        sub = c16.run(prog)
        st = sub.rules.get("R-C16-2")
        if st:
            r3.instances, r3.obligations, r3.discharged = st.instances, st.obligations, st.discharged
        for f in sub.findings:
            if f.rule == "R-C16-2":
                res.add("R-C08-3", f.key, f.where, f.message)

    # ---------------------------------------------------------------- R-C08-4 no reflection
    r4 = res.rule("R-C08-4", "no reflective writes (setattr/__dict__/vars/object.__setattr__) in the edit closure: the effect "
                  "model sees every mutation", floor=40)
    for k in sorted(closure):
        f = prog.funcs.get(k)
        if f is None:
            continue
        r4.instances += 1
        bad = None
        for n in walk_no_nested(f.node):
            if isinstance(n, ast.Name) and n.id in REFLECTION and isinstance(n.ctx, ast.Load):
                bad = n
            if isinstance(n, ast.Attribute) and n.attr in REFLECTION:
                bad = n
        r4.ob(bad is None, None)
        if bad is not None:
            res.add("R-C08-4", (k, "reflection", norm(bad)), f.loc(bad),
                    f"{k} uses `{norm(bad)}`: a reflective write would be invisible to the mutate-then-raise analysis")
    if prop == "C08":
        refusal_guards(prog, res)
        fallback_handlers(prog, res, closure, eng=eng, bykey=bykey)
        recursion_carries_visited(prog, res)
        from sa.rules.c05 import callee_head_acceptance
        callee_head_acceptance(prog, res, "R-C08-5", res.rules["R-C08-5"])
        # (d) a path running through an inherited (non-set) name is refused, not papered over (shared with R-C05-10)
        from sa.rules.c05 import creation_sees_inherits
        _tmp = Results("C08")
        creation_sees_inherits(prog, _tmp, "R-C08-5")
        _st5 = _tmp.rules.get("R-C08-5")
        if _st5:
            res.rules["R-C08-5"].instances += _st5.instances
            res.rules["R-C08-5"].obligations += _st5.obligations
            res.rules["R-C08-5"].discharged += _st5.discharged
        for _f in _tmp.findings:
            res.add("R-C08-5", _f.key, _f.where, _f.message)
        # (c) missing outer scope layer: the selector-derived index is dominated by the depth guard (shared with R-C09-2)
        from sa.rules import c09 as _c09
        _sub = _c09.run(prog)
        _st = _sub.rules.get("R-C09-2")
        if _st:
            res.rules["R-C08-5"].instances += _st.instances
            res.rules["R-C08-5"].obligations += _st.obligations
            res.rules["R-C08-5"].discharged += _st.discharged
        for _f in _sub.findings:
            if _f.rule == "R-C09-2":
                res.add("R-C08-5", _f.key, _f.where, _f.message)
        from sa import lints
        r8 = res.rule("R-C08-8", "no latent NameError / AttributeError / TypeError in the edit closure (unbound names, undefined "
                      "`self` attributes, calls that do not fit the callee's signature)", floor=40)
        for k in sorted(closure):
            f = prog.funcs.get(k)
            if f is None:
                continue
            for g in [f] + list(f.nested.values()):
                r8.instances += 1
                probs = [(x, "name is not bound anywhere", x.id) for x in lints.undefined_names(prog, g)]
                probs += [(x, "attribute is not defined by the class", x.attr) for x in lints.unknown_self_attributes(prog, g)]
                probs += [(c, why, norm(c.func)[:30]) for c, why in lints.signature_mismatches(prog, g)]
                r8.ob(not probs, None if not probs else {"site": g.key, "problems": [p_[1] for p_ in probs][:3]})
                for node, why, what in probs:
                    res.add("R-C08-8", (g.key, why[:60], what), g.loc(node),
                            f"{g.key}: `{norm(node)[:60]}` — {why}: an exception other than KeyError/ValueError would leave set/rm")
        from sa.defassign import maybe_unbound
        r7 = res.rule("R-C08-7", "no implicit UnboundLocalError in the edit closure: every read of a local is preceded by an assignment "
                      "on every path (only KeyError/ValueError may leave a rejected edit)", floor=40)
        for k in sorted(closure):
            f = prog.funcs.get(k)
            if f is None:
                continue
            for g in [f] + list(f.nested.values()):
                r7.instances += 1
                names = sorted({x.id for x, _ in maybe_unbound(g)})
                r7.ob(not names, None if not names else {"site": g.key, "maybe_unassigned": names})
                for n_ in names:
                    res.add("R-C08-7", (g.key, "local may be read before assignment", n_), g.loc(),
                            f"{g.key}: `{n_}` may be read before any assignment on some path: UnboundLocalError would escape set/rm")
    res.tables.append(f"sa/tables/reviewed.py: {len(INFEASIBLE_PAIRS)} infeasible mutate-then-raise pairs (witness re-checked each run), "
                      f"{len(BENIGN_MUTATIONS)} benign text-preserving normalisations")
    res.assumptions = ["the final source.rebuild() is the emission step, not a rejection point (its failures belong to C20)",
                       "registry state (_CONTEXTS, Scope.owner back-pointers) is not document state"]
    return res


def _origin_of(eng, bykey, root, exc, depth=0, seen=None):
    seen = seen or set()
    if root in seen or depth > 12:
        return None
    seen.add(root)
    for s in bykey.get(root, []):
        for node, e, text in s.raise_sites:
            if e == exc:
                f = eng.prog.funcs[root]
                return (root, f.loc(node))
        for c in sorted(s.callees):
            for cs in bykey.get(c, []):
                if exc in cs.raises:
                    r = _origin_of(eng, bykey, c, exc, depth + 1, seen)
                    if r:
                        return r
    return None


# handlers in the edit closure that do not re-raise on every path: (function, caught classes) -> (count, why it is not a swallowed refusal)
REVIEWED_FALLBACKS = {
    ("_resolve_identifier", ("KeyError",)): (1, "a miss in one scope: the quoted spelling and then the next scope are tried; exhaustion raises ResolutionError"),
    ("_resolve_npath_parent", ("KeyError",)): (1, "missing intermediate key: created when create_missing, else re-raised as KeyError"),
    ("_resolve_target_set_from_expr.<_resolve_call_argument>", ("ValueError",)): (1, "an unusable call argument yields None; the caller's arm then raises the shape ValueError"),
    ("_set_value_in_attrset", ("ValueError",)): (1, "path through an inherited binding: the handler either finds the inherited target or re-raises"),
    ("_set_value_in_attrset.<_assign_through_identifier>", ("ResolutionError",)): (1, "reference cannot be resolved: False makes the caller overwrite the binding itself (R-C11-2 orders this)"),
    ("function_call_scope", ("KeyError",)): (1, "formal without a supplied argument: simply not bound in the parameter scope"),
}


def _local_control_flow(prog: Program, eng, bykey, k: str, try_node: ast.Try) -> bool:
    """every exception the handlers of `try_node` receive is raised by a `raise` statement written in the try body itself
    (per the effect engine: no callee of the body can raise a caught class).  Such a handler is a jump inside one function
    (`raise KeyError(k)` … `except KeyError: return None` ≡ `return None` at that point): no refusal made elsewhere is swallowed."""
    if eng is None:
        return False
    sums = bykey.get(k) or bykey.get(prog.reviewed_key(k)) or []
    f = prog.funcs.get(k)
    if f is not None and f.parent is not None:
        sums = sums or bykey.get(f.parent.key) or []
    if not sums and f is not None:
        try:
            sums = [eng.summarize((f.parent or f).key)]  # a function outside the closure of the roots: summarised on its own
        except Exception:
            return False
    srcs = set()
    for s_ in sums:
        srcs |= s_.try_sources.get(id(try_node), set())
    if not srcs:
        return False
    own = {id(n) for b in try_node.body for n in walk_no_nested(b) if isinstance(n, ast.Raise)} | \
          {id(b) for b in try_node.body if isinstance(b, ast.Raise)}
    return all(what == "raise" and id(node) in own for what, node, _exc in srcs)


def fallback_handlers(prog: Program, res: Results, closure, rid: str = "R-C08-6", eng=None, bykey=None) -> None:
    """R-C08-6: who may swallow an exception in the edit closure"""
    from sa.dtable import outcome
    from sa.util import handler_names
    r = res.rule(rid, "refusals stay loud: in the set/rm and item-assignment closure an `except` clause that does not re-raise "
                 "on every path exists only at the reviewed fallback sites; any other one could turn a rejected edit into a silent "
                 "success on a substitute target", floor=6)
    keys = set(closure)
    for k in list(keys):
        f = prog.funcs.get(k)
        stack = [f] if f is not None else []
        while stack:
            g = stack.pop()
            for h in g.nested.values():
                keys.add(h.key)
                stack.append(h)
    # helpers called only through a name the effect engine inlines are reached via the module scan below
    for f in prog.all_functions():
        if f.module == "nix_manipulator/cli/manipulations.py":
            keys.add(f.key)
    seen: dict = {}
    for k in sorted(keys):
        f = prog.funcs.get(k)
        if f is None or f.name in ("__repr__",) or f.module.endswith(("color.py", "cli/main.py")):
            continue
        for n in walk_no_nested(f.node):
            if not isinstance(n, ast.Try):
                continue
            for h in n.handlers:
                r.instances += 1
                o = outcome(h.body, {})
                always = bool(o.paths) and all(p_ and p_[-1].startswith("raise") for p_ in o.paths)
                if always:
                    r.ob(True, {"site": k, "catches": handler_names(h), "kind": "converts and re-raises"})
                    continue
                if _local_control_flow(prog, eng, bykey or {}, k, n):
                    r.ob(True, {"site": k, "catches": handler_names(h), "kind": "catches only the raise statements of its own try body (a jump inside the function)"})
                    continue
                from sa.report import _site
                from sa.model import alpha as _alpha
                # keyed by the function the handler lives in (a closure counts as its function: `f.<helper>` ≡ `f`); copies of
                # one handler (a helper dissolved into several call sites) are one handler
                key = (_site(prog.reviewed_key(k)), tuple(sorted(str(x) for x in handler_names(h))))
                text = _alpha(n, f.node, anonymous=True)
                seen.setdefault(key, set()).add(text)
                allowed = sum(a for (kk, ex), (a, _w) in REVIEWED_FALLBACKS.items() if (_site(kk), ex) == key)
                why = next((w for (kk, ex), (_a, w) in REVIEWED_FALLBACKS.items() if (_site(kk), ex) == key), None)
                ok = len(seen[key]) <= allowed
                r.ob(ok, {"site": k, "catches": list(key[1]), "kind": "fallback", "reviewed": why})
                if not ok:
                    res.add(rid, (k, "unreviewed fallback handler", ",".join(key[1])), f.loc(h),
                            f"{k}: `except {', '.join(key[1]) or 'BaseException'}` around `{norm(n.body[0])[:60]}` does not re-raise on every path: "
                            f"a refusal raised inside (unsupported shape, raw document, malformed path) can be replaced by a fallback "
                            f"and the edit proceeds on something else instead of failing loudly")
    res.tables.append(f"sa/rules/c08.py:REVIEWED_FALLBACKS ({len(REVIEWED_FALLBACKS)} handlers)")


def refusal_guards(prog: Program, res: Results) -> None:
    """R-C08-5: the refusals the property lists are enforced where the corresponding write / construction happens."""
    from sa.cfg import CFG, edges_establishing
    from sa.util import callee
    r = res.rule("R-C08-5", "listed refusals guard the operation itself: (a) every write of a binding found by a one-segment name "
                 "is dominated by `no attrpath-derived binding has that name` (the value of _find_attrpath_root(set, name) is "
                 "None); (b) every path segment is constructed under `quoted or non-empty` — inside the finaliser, or at every one "
                 "of its call sites", floor=4)
    # (a) overwrite of an attrpath root
    f = prog.func("_set_value_in_attrset")
    res.analysed_functions.add(f.key)
    cfg = CFG(f.node)
    roots = [n.targets[0].id for n in walk_no_nested(f.node) if isinstance(n, ast.Assign) and isinstance(n.targets[0], ast.Name)
             and isinstance(n.value, ast.Call) and callee(n.value) == "_find_attrpath_root"]
    if len(roots) != 1:
        res.unclass("_set_value_in_attrset: the `_find_attrpath_root(...)` lookup was not found exactly once")
        return
    root = roots[0]
    seg_param = next((n.targets[0].id for n in walk_no_nested(f.node) if isinstance(n, ast.Assign) and isinstance(n.targets[0], ast.Name)
                      and isinstance(n.value, ast.Call) and callee(n.value) in ("_parse_npath", "_format_npath_segments")), "segments")

    def one_segment(a, truth):
        t = norm(a)
        return (t == f"len({seg_param}) == 1" and truth is True) or (t == f"len({seg_param}) != 1" and truth is False) or \
               (t in (f"len({seg_param}) > 1", f"len({seg_param}) >= 2") and truth is False)

    def no_family(a, truth):
        t = norm(a)
        return (t == f"{root} is None" and truth is True) or (t == f"{root} is not None" and truth is False) or (t == root and truth is False)

    e_one = edges_establishing(cfg, one_segment)
    e_nf = edges_establishing(cfg, no_family)
    if not e_one:
        res.unclass("_set_value_in_attrset: the one-segment branch (`len(segments) == 1`) was not recognised")
        return
    value_param = next((p_ for p_ in f.params() if "value" in p_), "value_expr")
    writes = []
    for n in cfg.nodes:
        a = n.ast
        if not isinstance(a, ast.Assign) or norm(a.value) != value_param:
            continue
        t = a.targets[0]
        if (isinstance(t, ast.Attribute) and t.attr == "value") or isinstance(t, ast.Subscript):
            if cfg.all_paths_pass(n, cut_edges=e_one):
                writes.append(n)
    for n in writes:
        r.instances += 1
        ok = bool(e_nf) and cfg.all_paths_pass(n, cut_edges=e_nf)
        r.ob(ok, {"site": f.key, "write": norm(n.ast), "guard": f"{root} is None"})
        if not ok:
            res.add("R-C08-5", (f.key, "name overwritten without the attrpath-root refusal", norm(n.ast.targets[0])[:40]), f.loc(n.ast),
                    f"{f.key}: `{norm(n.ast)}` (one-segment path) is reachable while `{root}` — an attrpath-derived binding of the same "
                    f"name anywhere in the set — may exist: `set a V` on `a = {{ x = 1; }}; a.y = 2;` is no longer refused and leaves "
                    f"two conflicting definitions of `a`")
    # (a') the removal twin: a one-segment `rm` inside a let layer deletes only when no attrpath-derived binding has that name —
    # looking at the first binding of the name alone misses `a = {...}; a.b = 2;`
    f2 = prog.funcs.get("_remove_value_in_attrset")
    if f2 is not None:
        roots2 = [n.targets[0].id for n in walk_no_nested(f2.node) if isinstance(n, ast.Assign) and isinstance(n.targets[0], ast.Name)
                  and isinstance(n.value, ast.Call) and callee(n.value) == "_find_attrpath_root"]
        seg2 = next((n.targets[0].id for n in walk_no_nested(f2.node) if isinstance(n, ast.Assign) and isinstance(n.targets[0], ast.Name)
                     and isinstance(n.value, ast.Call) and callee(n.value) in ("_parse_npath", "_format_npath_segments")), "segments")
        cfg2 = CFG(f2.node)

        def one_segment2(a, truth):
            t = norm(a)
            return (t == f"len({seg2}) == 1" and truth is True) or (t == f"len({seg2}) != 1" and truth is False) or \
                   (t in (f"len({seg2}) > 1", f"len({seg2}) >= 2") and truth is False)

        e_one2 = edges_establishing(cfg2, one_segment2)
        dels = [n for n in cfg2.nodes if isinstance(n.ast, ast.Delete) and any(isinstance(t, ast.Subscript) for t in n.ast.targets)
                and e_one2 and cfg2.all_paths_pass(n, cut_edges=e_one2)]
        if len(roots2) == 1 and dels:
            res.analysed_functions.add(f2.key)
            root2 = roots2[0]

            def no_family2(a, truth):
                t = norm(a)
                return (t == f"{root2} is None" and truth is True) or (t == f"{root2} is not None" and truth is False) or (t == root2 and truth is False)

            e_nf2 = edges_establishing(cfg2, no_family2)
            for n in dels:
                r.instances += 1
                ok = bool(e_nf2) and cfg2.all_paths_pass(n, cut_edges=e_nf2)
                r.ob(ok, {"site": f2.key, "delete": norm(n.ast), "guard": f"{root2} is None"})
                if not ok:
                    res.add("R-C08-5", (f2.key, "name deleted without the attrpath-root refusal", norm(n.ast)[:40]), f2.loc(n.ast),
                            f"{f2.key}: `{norm(n.ast)}` (one-segment path) is reachable while `{root2}` — an attrpath-derived binding of "
                            f"the same name anywhere in the layer — may exist: `rm @a` on `let a = {{ x = 1; }}; a.b = 2; in …` is no "
                            f"longer refused and silently deletes the explicit binding")
    # (b) empty segments
    g = prog.func("_parse_npath")
    res.analysed_functions.add(g.key)
    for h in [g] + list(g.nested.values()):
        ctors = [c for c in walk_no_nested(h.node) if isinstance(c, ast.Call) and callee(c) == "_NPathSegment"]
        if not ctors:
            continue
        hcfg = CFG(h.node)
        for c in ctors:
            r.instances += 1
            name_arg = next((k.value for k in c.keywords if k.arg == "name"), c.args[0] if c.args else None)
            q_arg = next((k.value for k in c.keywords if k.arg == "quoted"), c.args[1] if len(c.args) > 1 else None)
            nm, q = norm(name_arg) if name_arg is not None else None, norm(q_arg) if q_arg is not None else None
            # what `name` is joined from (buffer)
            buf = None
            for d in ast.walk(h.node):
                if isinstance(d, ast.Assign) and norm(d.targets[0]) == nm and isinstance(d.value, ast.Call) and callee(d.value) == "join" and d.value.args:
                    buf = norm(d.value.args[0])

            def nonempty_or_quoted(a, truth, _nm=nm, _q=q, _buf=buf):
                t = norm(a)
                if truth is False:
                    # (not quoted and name == "") is false, or its De-Morgan parts
                    return t in (f"{_nm} == ''", f"not {_nm}", f"not {_buf}", f"len({_nm}) == 0") or t == f"not {_q}"
                return t in (_q, _nm, _buf, f"{_nm} != ''", f"len({_nm}) > 0")

            def guard_edges(cf):
                out = []
                for n in cf.nodes:
                    if n.kind != "test":
                        continue
                    # the raising test `not quoted and name == ''`: its False edge establishes quoted or non-empty
                    from sa.cfg import atoms
                    for label in (True, False):
                        facts = list(atoms(n.ast, label))
                        if label is False and isinstance(n.ast, ast.BoolOp) and isinstance(n.ast.op, ast.And):
                            parts = [norm(v) for v in n.ast.values]
                            if any(p_ in (f"not {q}",) for p_ in parts) and any(p_ in (f"{nm} == ''", f"not {nm}", f"not {buf}") for p_ in parts) and len(parts) == 2:
                                out.append((n, False))
                        elif any(nonempty_or_quoted(a, t) for a, t in facts) and not (isinstance(n.ast, ast.BoolOp) and label is False):
                            out.append((n, label))
                return out

            node = hcfg.containing(c)
            inside = node is not None and hcfg.all_paths_pass(node, cut_edges=guard_edges(hcfg))
            ok = inside
            where = "inside the finaliser"
            if not inside and h is not g:
                # every call site of the finaliser must be guarded
                pcfg = CFG(g.node)
                ge = guard_edges(pcfg)
                sites = [n for n in pcfg.nodes if n.ast is not None and n.kind in ("stmt", "test", "return") and any(
                    isinstance(x, ast.Call) and isinstance(x.func, ast.Name) and x.func.id == h.name for x in ast.walk(n.ast))]
                unguarded = [n for n in sites if not pcfg.all_paths_pass(n, cut_edges=ge)]
                ok = bool(sites) and not unguarded
                where = f"at {len(sites) - len(unguarded)}/{len(sites)} call sites"
            r.ob(ok, {"site": h.key, "constructor": norm(c)[:60], "guarded": where})
            if not ok:
                res.add("R-C08-5", (h.key, "segment constructed without the empty-segment refusal"), h.loc(c),
                        f"{h.key}: `{norm(c)[:60]}` can be reached with an unquoted empty name ({where}): a path such as `a.` (trailing "
                        f"dot) is accepted and `set` writes a `\"\" = …;` binding instead of raising ValueError")


def recursion_carries_visited(prog: Program, res: Results) -> None:
    """R-C08-9: a cyclic document is refused with ValueError, not by exhausting the stack: the target resolver marks what it
    has visited, and every call by which it re-enters itself hands that set on."""
    from sa.util import callee
    r = res.rule("R-C08-9", "the edit-target resolver's cycle guard survives re-entry: every recursive call of "
                 "_resolve_target_set_from_expr (from its body or its closures) passes the local visited set as `_visited` — a call "
                 "without it starts a fresh set, and `let x = with { }; x; in x` ends in RecursionError instead of ValueError", floor=2)
    f = prog.funcs.get("_resolve_target_set_from_expr")
    if f is None:
        res.unclass("_resolve_target_set_from_expr vanished")
        return
    vp = next((p_ for p_ in f.params() if "visited" in p_), None)
    local = next((norm(d.targets[0]) for d in walk_no_nested(f.node) if isinstance(d, ast.Assign) and isinstance(d.targets[0], ast.Name)
                  and vp and any(isinstance(x, ast.Name) and x.id == vp for x in ast.walk(d.value))), None)
    if not vp or not local:
        res.unclass("_resolve_target_set_from_expr: the visited-set parameter / local was not recognised")
        return
    res.analysed_functions.add(f.key)
    for g in [f] + list(f.nested.values()):
        for c in walk_no_nested(g.node):
            if not (isinstance(c, ast.Call) and (callee(c) == f.name)):
                continue
            r.instances += 1
            kw = next((k.value for k in c.keywords if k.arg == vp), None)
            ok = kw is not None and norm(kw) == local
            r.ob(ok, {"site": g.key, "call": norm(c)[:70]})
            if not ok:
                res.add("R-C08-9", (g.key, "re-entry without the visited set"), g.loc(c),
                        f"{g.key}: `{norm(c)[:70]}` re-enters the resolver without `{vp}={local}`: the cycle guard starts afresh on every pass, "
                        f"so a cyclic document is not refused with ValueError but recurses until RecursionError")
    # functools.partial(f, _visited=visited) binds it once for every call through the partial
    for c in walk_no_nested(f.node):
        if isinstance(c, ast.Call) and callee(c) == "partial" and c.args and norm(c.args[0]) == f.name:
            r.instances += 1
            kw = next((k.value for k in c.keywords if k.arg == vp), None)
            r.ob(kw is not None and norm(kw) == local, {"site": f.key, "partial": norm(c)[:70]})
            if not (kw is not None and norm(kw) == local):
                res.add("R-C08-9", (f.key, "re-entry without the visited set", "partial"), f.loc(c),
                        f"{f.key}: `{norm(c)[:70]}` re-enters the resolver without `{vp}={local}`")
