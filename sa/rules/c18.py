"""C18 — rebuilt text is in the formatter's spacing normal form (taint + structural rules)."""
from __future__ import annotations

import ast

from sa.cfg import edges_establishing, CFG, ReachingDefs
from sa.dataflow import FnFlow
from sa.model import Program, alpha, norm, walk_no_nested
from sa.report import Results
from sa.taint import Taint, TEXT, COUNT
from sa.util import callee, dotted, strip_not


def run(prog: Program) -> Results:
    res = Results("C18")
    t = Taint(prog)
    t.run_parser_side()
    gap_fields = sorted(k for k, v in t.field_kinds.items() if TEXT in v)
    count_fields = sorted(k for k, v in t.field_kinds.items() if COUNT in v)
    t.run_renderer_side()

    # ---------------------------------------------------------------- R-C18-1
    r1 = res.rule("R-C18-1", "raw whitespace captured from a gap (gap_between / gap_from_offsets / the gap of "
                  "collect_comments_between_with_gap and every field they are stored in) reaches rendered text only through a "
                  "classifier (layout_from_gap, gap_has_empty_line, `\"\\n\" in g`, indent_from_gap, ...)", floor=20)
    r1.instances = len(gap_fields)
    r1.obligations = t.sinks_checked
    seen = set()
    bad1 = [s for s in t.sinks if s[0] == "R-C18-1"]
    for rule, f, node, kinds, what in bad1:
        key = (f.key if f else "?", "raw gap text in output", alpha(node, (f.parent or f).node if f else None)[:80])
        if key in seen:
            continue
        seen.add(key)
        res.add("R-C18-1", key, f.loc(node) if f else "?", f"{f.key if f else '?'}: `{norm(node)[:80]}` carries raw gap text into a "
                f"{what}: tabs, trailing blanks and alignment padding of the input would leak into the output")
    r1.discharged = t.sinks_checked - len(seen)
    r1.samples.append({"raw_text_fields": gap_fields})
    for fld in gap_fields[:4]:
        r1.samples.append({"field": fld, "captured_at": [f"{s[0]}:{s[1]}" for s in t.field_sites.get(fld, [])][:2]})
    res.analysed_functions |= {f.key for f in prog.all_functions() if f.name in ("from_cst", "rebuild")}

    # ---------------------------------------------------------------- R-C18-2
    r2 = res.rule("R-C18-2", "a raw newline count (gap.count('\\n'), gap_line_info) multiplies a newline/blank-line separator only "
                  "after `min(…, k)`: at most one consecutive blank line", floor=10)
    r2.instances = t.mults_checked
    r2.obligations = t.mults_checked
    seen2 = set()
    for rule, f, node, kinds, what in [s for s in t.sinks if s[0] == "R-C18-2"]:
        key = (f.key if f else "?", "unclamped newline count", alpha(node, (f.parent or f).node if f else None)[:80])
        if key in seen2:
            continue
        seen2.add(key)
        res.add("R-C18-2", key, f.loc(node) if f else "?",
                f"{f.key if f else '?'}: `{norm(node)[:80]}` repeats a newline/blank-line marker by a raw count taken from the input: "
                f"runs of blank lines survive the rebuild")
    r2.discharged = t.mults_checked - len(seen2)
    r2.samples.append({"count_fields_still_raw": count_fields})

    # ---------------------------------------------------------------- R-C18-3
    r3 = res.rule("R-C18-3", "`inline` governs the leading indent: every rebuild(self, indent, inline) reads `inline` (other than "
                  "forwarding it to rebuild_scoped)", floor=20)
    for f in prog.all_functions():
        if not (f.cls and f.name == "rebuild" and f.kind == "method" and "inline" in f.params()):
            continue
        if f.cls in ("NixExpression",):
            continue
        r3.instances += 1
        loads = []
        for n in walk_no_nested(f.node):
            if isinstance(n, ast.Name) and n.id == "inline" and isinstance(n.ctx, ast.Load):
                loads.append(n)
        scoped_only = []
        for c in walk_no_nested(f.node):
            if isinstance(c, ast.Call) and callee(c) == "rebuild_scoped":
                for sub in ast.walk(c):
                    if isinstance(sub, ast.Name) and sub.id == "inline":
                        scoped_only.append(sub)
        effective = [n for n in loads if n not in scoped_only]
        exempt = f.cls in ("Comment", "MultilineComment", "Operator")  # comments use their own `self.inline`; operators are never line-leading
        emits_indent = any(isinstance(n, ast.BinOp) and isinstance(n.op, ast.Mult) and any(isinstance(x, ast.Name) and x.id == "indent" for x in ast.walk(n))
                           for n in walk_no_nested(f.node))
        ok = bool(effective) or exempt or not emits_indent
        r3.ob(ok, {"class": f.cls, "inline_reads": len(effective)})
        if not ok:
            res.add("R-C18-3", (f.key, "inline never read"), f.loc(),
                    f"{f.key} never reads its `inline` parameter: rendered in an inline position (after `=`), it still emits its own "
                    f"leading indentation (`a =   let …`)")

    # ---------------------------------------------------------------- R-C18-4
    r4 = res.rule("R-C18-4", "sibling comment renderers agree on indentation: like Comment.rebuild, every return of "
                  "MultilineComment.rebuild starts with `\" \" * indent` unless the comment is inline", floor=2)
    cr = prog.func("Comment.rebuild")
    base_ok = '" " * indent' in norm(cr.node).replace("'", '"')
    mr = prog.func("MultilineComment.rebuild")
    flow = FnFlow(mr.node)
    for rt in [n for n in flow.cfg.nodes if n.kind == "return"]:
        r4.instances += 1
        v = rt.ast.value
        starts = []
        if isinstance(v, ast.Name):
            # first definitions of the accumulated string
            for n in flow.cfg.nodes:
                a = n.ast
                if isinstance(a, (ast.Assign, ast.AnnAssign)) and getattr(a, "value", None) is not None:
                    tg = a.targets[0] if isinstance(a, ast.Assign) else a.target
                    if isinstance(tg, ast.Name) and tg.id == v.id:
                        starts.append(a.value)
        else:
            starts.append(v)
        for sv in starts:
            txt = norm(sv).replace("'", '"')
            ok = txt.startswith('" " * indent') or txt.startswith('f"{" " * indent}') or "indentation" in txt.split("+")[0]
            r4.ob(ok and base_ok, {"return": norm(rt.ast)[:50], "starts_with": txt[:40]})
            if not ok:
                res.add("R-C18-4", (mr.key, "no indentation", alpha(sv, mr.node)[:40]), mr.loc(sv),
                        f"MultilineComment.rebuild builds `{txt[:50]}` without the `\" \" * indent` prefix that Comment.rebuild applies: "
                        f"an own-line block comment loses its indentation")

    # ---------------------------------------------------------------- R-C18-5
    r5 = res.rule("R-C18-5", "where a node's leading layout trivia are trimmed because the separator already encodes them, the "
                  "trimmed copy (or the provably unchanged node) is the one rendered", floor=6)
    for f in prog.all_functions():
        trims = [n for n in walk_no_nested(f.node) if isinstance(n, ast.Call) and callee(n) == "trim_leading_layout_trivia"
                 and n.args and isinstance(n.args[0], ast.Attribute) and n.args[0].attr == "before" and isinstance(n.args[0].value, ast.Name)]
        if not trims or f.name in ("trim_leading_layout_trivia",):
            continue
        cfg = CFG(f.node)
        for tr in trims:
            x = tr.args[0].value.id
            if x == "self":
                continue
            tn = cfg.containing(tr)
            if tn is None or not isinstance(tn.ast, ast.Assign) or not isinstance(tn.ast.targets[0], ast.Name):
                continue
            tv = tn.ast.targets[0].id
            r5.instances += 1
            # renders of x reachable from the trim
            reach = cfg.reachable(tn)
            renders = []
            for n in reach:
                if n is tn or n.ast is None or n.kind == "def":
                    continue
                root = n.ast.iter if n.kind == "for" else n.ast
                for c in ast.walk(root):
                    if isinstance(c, ast.Call) and isinstance(c.func, ast.Attribute) and c.func.attr in ("rebuild", "_inline_preview") \
                            and isinstance(c.func.value, ast.Name) and c.func.value.id == x:
                        renders.append((n, c))
            # x is "settled" once reassigned to the trimmed copy, or once equality with the trimmed list was established
            reassign = [n for n in cfg.nodes if isinstance(n.ast, ast.Assign) and any(isinstance(tg, ast.Name) and tg.id == x for tg in n.ast.targets)
                        and tv in norm(n.ast.value) and "model_copy" in norm(n.ast.value)]
            eq_edges = []
            for n in cfg.nodes:
                if n.kind != "test":
                    continue
                tx = norm(n.ast)
                if tx in (f"{tv} != {x}.before", f"{x}.before != {tv}"):
                    eq_edges.append((n, False))
                if tx in (f"{tv} == {x}.before", f"{x}.before == {tv}"):
                    eq_edges.append((n, True))
            bad = []
            for n, c in renders:
                # every path trim -> render must pass a reassignment or the equality edge
                reach2 = cfg.reachable(tn, removed_nodes=reassign, removed_edges=eq_edges)
                if n in reach2:
                    bad.append(c)
            r5.ob(not bad, {"site": f.key, "trimmed": f"{x}.before -> {tv}", "renders_of_untrimmed_after_trim": [norm(b)[:50] for b in bad]})
            for c in bad:
                res.add("R-C18-5", (f.key, "untrimmed node rendered after its separator"), f.loc(c),
                        f"{f.key}: `{norm(c)[:70]}` renders `{x}` although its leading layout trivia were trimmed into `{tv}` for this "
                        f"position and neither `{x}` was replaced by the trimmed copy nor `{tv} == {x}.before` established: the blank "
                        f"line encoded by the separator would be emitted twice")

    # ---------------------------------------------------------------- R-C18-6
    r6 = res.rule("R-C18-6", "closing delimiters are indented with the structure (`\" \" * indent`), never with the opener's "
                  "inline-dependent prefix", floor=3)
    for f in prog.all_functions():
        if not (f.cls and f.name == "rebuild"):
            continue
        inline_dep = set()
        for n in walk_no_nested(f.node):
            if isinstance(n, ast.Assign) and isinstance(n.targets[0], ast.Name) and isinstance(n.value, ast.IfExp) \
                    and any(isinstance(x, ast.Name) and x.id == "inline" for x in ast.walk(n.value.test)):
                inline_dep.add(n.targets[0].id)
        for n in walk_no_nested(f.node):
            segs = _segments(n)
            if not segs:
                continue
            for i, sg in enumerate(segs):
                if isinstance(sg, ast.Constant) and isinstance(sg.value, str) and sg.value[:1] in ("}", "]", ")") and i > 0:
                    prev = segs[i - 1]
                    before = segs[:i - 1]
                    multiline = any(isinstance(b, ast.Constant) and isinstance(b.value, str) and "\n" in b.value for b in before) or \
                        any(isinstance(b, ast.Name) and "sep" in b.id for b in before)
                    if not multiline:
                        continue
                    r6.instances += 1
                    bad = isinstance(prev, ast.Name) and prev.id in inline_dep
                    r6.ob(not bad, {"site": f.key, "closing": sg.value[:1], "preceded_by": norm(prev)[:30]})
                    if bad:
                        res.add("R-C18-6", (f.key, "closing delimiter uses inline-dependent indent"), f.loc(n),
                                f"{f.key}: the closing `{sg.value[:1]}` on its own line is prefixed by `{norm(prev)}`, which is empty when "
                                f"the node is rendered inline (binding value, argument): the delimiter lands at column 0")
    # ---------------------------------------------------------------- R-C18-7
    from sa.order import Order
    r7 = res.rule("R-C18-7", "a node's own leading/trailing trivia (`self.before`, `self.after`, and lists built only from them) are "
                  "rendered at the node's own indent: the `indent` argument of format_trivia / apply_trailing_trivia is the "
                  "rebuild's `indent` parameter itself, not an inner (item) indent", floor=12)
    for f in prog.all_functions():
        top = f
        while top.parent is not None:
            top = top.parent
        if not (top.cls and top.name in ("rebuild", "add_trivia") and "indent" in top.params()):
            continue
        if f is not top and "indent" in f.params():
            continue  # a closure with its own `indent`: the value is whatever its callers pass
        reassigned = any(isinstance(n, ast.Name) and n.id == "indent" and isinstance(n.ctx, ast.Store) for n in ast.walk(top.node))
        o = Order(f)
        for c in walk_no_nested(f.node):
            if not isinstance(c, ast.Call):
                continue
            nm = callee(c)
            if nm == "format_trivia" and c.args:
                slot = c.args[0]
            elif nm == "apply_trailing_trivia" and len(c.args) >= 2:
                slot = c.args[1]
            else:
                continue
            labels = o.seq(slot)
            flat = [x for lab in labels for x in ([lab] if lab[0] != "bag" else lab[1])]
            if not flat or not all(p == ("self",) for p, k in flat):
                continue
            r7.instances += 1
            arg = next((k.value for k in c.keywords if k.arg == "indent"), None)
            if arg is None and nm == "format_trivia" and len(c.args) > 1:
                arg = c.args[1]
            ok = isinstance(arg, ast.Name) and arg.id == "indent" and not reassigned
            r7.ob(ok, {"site": f.key, "call": norm(c)[:70]})
            if not ok:
                res.add("R-C18-7", (f.key, "own trivia at a foreign indent", nm, "/".join(sorted({k for p, k in flat}))), f.loc(c),
                        f"{f.key}: `{norm(c)[:80]}` renders the node's own {sorted({k for p, k in flat})} trivia with indent "
                        f"`{norm(arg) if arg is not None else 'default 0'}` instead of the node's `indent`: own-line comments that belong to "
                        f"the enclosing structure are shifted to another column")
    # ---------------------------------------------------------------- R-C18-8
    r8 = res.rule("R-C18-8", "a blank line inside a comment gap is represented once: the collector stores it as an empty_line marker "
                  "in the comment list AND in the gap measured after the last comment, so wherever "
                  "format_interstitial_trivia_with_separator is told not to drop the layout's blank-line flag "
                  "(drop_blank_line_if_items=False) the caller has cleared it on every path where the list is non-empty", floor=8)

    def clears(v: ast.AST) -> bool:
        if isinstance(v, ast.Call) and isinstance(v.func, ast.Attribute) and v.func.attr == "model_copy":
            for k in v.keywords:
                if k.arg == "update" and isinstance(k.value, ast.Dict):
                    for kk, vv in zip(k.value.keys, k.value.values):
                        if isinstance(kk, ast.Constant) and kk.value == "blank_line" and isinstance(vv, ast.Constant) and vv.value is False:
                            return True
        return False

    def helper_clears(f, call: ast.Call, items_text: str) -> bool:
        """`helper(layout, has_comments=bool(items))` where helper returns a cleared copy under that flag"""
        if not isinstance(call.func, ast.Name):
            return False
        g = f
        h = None
        while g is not None and h is None:
            h = g.nested.get(call.func.id)
            g = g.parent
        if h is None:
            return False
        for st in ast.walk(h.node):
            if isinstance(st, ast.If) and isinstance(st.test, ast.Name) and any(isinstance(x, ast.Return) and x.value is not None and clears(x.value) for x in st.body):
                flag = st.test.id
                arg = next((k.value for k in call.keywords if k.arg == flag), None)
                if arg is None:
                    params = [a.arg for a in h.node.args.posonlyargs + h.node.args.args]
                    if flag in params and params.index(flag) < len(call.args):
                        arg = call.args[params.index(flag)]
                if arg is not None and norm(arg) in (items_text, f"bool({items_text})", f"len({items_text}) > 0"):
                    return True
        return False

    for f in prog.all_functions():
        calls = [c for c in walk_no_nested(f.node) if isinstance(c, ast.Call) and callee(c) == "format_interstitial_trivia_with_separator"]
        if not calls:
            continue
        cfg = None
        for c in calls:
            flag = next((k.value for k in c.keywords if k.arg == "drop_blank_line_if_items"), None)
            if flag is None or (isinstance(flag, ast.Constant) and flag.value is True):
                continue
            r8.instances += 1
            items, layout = (c.args + [None, None])[:2]
            items = items if items is not None else next((k.value for k in c.keywords if k.arg == "items"), None)
            layout = layout if layout is not None else next((k.value for k in c.keywords if k.arg == "layout"), None)
            if not isinstance(layout, ast.Name) or items is None or not (isinstance(flag, ast.Constant) and flag.value is False):
                res.unclass(f"{f.key}: `{norm(c)[:60]}` — items/layout/flag arguments not in a recognised form")
                continue
            it, L = norm(items), layout.id
            cfg = cfg or CFG(f.node)
            node = cfg.containing(c)
            clearing = []
            # the layout handed over may be a copy / derivation of the one that was cleared (`shown = layout`,
            # `shown = layout.model_copy(update={…})`): the clearing of the source counts
            family, todo_ = {L}, [L]
            while todo_:
                x_ = todo_.pop()
                for d_ in ast.walk(f.node):
                    if isinstance(d_, ast.Assign) and any(isinstance(t_, ast.Name) and t_.id == x_ for t_ in d_.targets):
                        src_ = d_.value
                        if isinstance(src_, ast.Call) and isinstance(src_.func, ast.Attribute) and src_.func.attr == "model_copy":
                            src_ = src_.func.value
                        if isinstance(src_, ast.Name) and src_.id not in family:
                            family.add(src_.id)
                            todo_.append(src_.id)
            for n in cfg.nodes:
                a = n.ast
                if isinstance(a, ast.Assign) and any(isinstance(t, ast.Name) and t.id in family for t in a.targets):
                    if clears(a.value) or (isinstance(a.value, ast.Call) and helper_clears(f, a.value, it)):
                        clearing.append(n)
            empty = edges_establishing(cfg, lambda a, t, _it=it: (norm(a) == _it and t is False) or (norm(a) == f"not {_it}" and t is True))
            # a clearing assignment counts only if it is itself reached under `items` non-empty or unconditionally (helper form)
            ok = node is not None and bool(clearing) and cfg.all_paths_pass(node, cut_nodes=clearing, cut_edges=empty)
            # later definitions that set blank_line from the markers themselves (`any(item is empty_line ...)`) re-derive it from
            # the list: they are applied when the layout was not on a new line at all, i.e. the gap held no blank line
            r8.ob(ok, {"site": f.key, "items": it, "layout": L, "cleared_by": [norm(n.ast)[:50] for n in clearing][:2]})
            if not ok:
                res.add("R-C18-8", (f.key, "blank-line flag kept although the comment list holds the blank line", it), f.loc(c),
                        f"{f.key}: `{norm(c)[:70]}` keeps the blank-line flag of `{L}` while `{it}` may be non-empty and nothing cleared "
                        f"it: a comment followed by a blank line in that gap is rendered with two blank lines")
    # ---------------------------------------------------------------- R-C18-9
    r9 = res.rule("R-C18-9", "a blank line next to an opening/closing delimiter is recorded once: a from_cst either lets "
                  "parse_delimited_sequence record it as an empty_line marker (open_token/close_token given) or measures it itself "
                  "into a `*_blank_line` flag that its rebuild turns into a blank line — never both", floor=3)
    for f in prog.all_functions():
        calls = [c for c in walk_no_nested(f.node) if isinstance(c, ast.Call) and callee(c) in ("parse_delimited_sequence", "parse_binding_sequence")]
        for c in calls:
            if callee(c) != "parse_delimited_sequence":
                continue
            r9.instances += 1
            tokens = [k.arg for k in c.keywords if k.arg in ("open_token", "close_token") and not (isinstance(k.value, ast.Constant) and k.value.value is None)]
            host = f
            while host.parent is not None:
                host = host.parent
            own_flags = sorted({norm(d.targets[0]) for d in ast.walk(host.node) if isinstance(d, ast.Assign) and isinstance(d.targets[0], ast.Name)
                                and d.targets[0].id.endswith("blank_line") and isinstance(d.value, ast.Call)
                                and (callee(d.value) or "").startswith("gap_has_empty_line")})
            ok = not (tokens and own_flags)
            r9.ob(ok, {"site": f.key, "delimiter_tokens_given": tokens, "own_flags": own_flags})
            if not ok:
                res.add("R-C18-9", (host.key, "blank line at a delimiter recorded twice", ",".join(own_flags)), f.loc(c),
                        f"{host.key}: parse_delimited_sequence is given {tokens} (it then stores an empty_line marker for a blank line next to "
                        f"the delimiter) while the same function also measures {own_flags}: the rebuild emits the blank line from both, "
                        f"i.e. two consecutive blank lines")
    # ---------------------------------------------------------------- R-C18-10
    from sa.rules.c01 import renderer_classes
    r10 = res.rule("R-C18-10", "what the parser records, the renderer consults: every field a from_cst passes to its constructor is read "
                   "through `self` by some method of the class (other than from_cst), or — for a field name no other class has — "
                   "through an instance elsewhere; a recorded gap/layout field that nothing reads means the layout is re-invented",
                   floor=20)
    field_owners: dict = {}
    for cn in prog.classes:
        for fld in prog.fields(cn):
            field_owners.setdefault(fld, set()).add(cn)
    foreign_reads = set()
    for f in prog.all_functions():
        for n in walk_no_nested(f.node):
            if isinstance(n, ast.Attribute) and isinstance(n.ctx, ast.Load) and not (isinstance(n.value, ast.Name) and n.value.id == "self"):
                foreign_reads.add(n.attr)
    for cn in renderer_classes(prog):
        fc = prog.own_method(cn, "from_cst")
        if fc is None:
            continue
        filled = set()
        for g in [fc] + list(fc.nested.values()):
            for call in ast.walk(g.node):
                if isinstance(call, ast.Call) and callee(call) in ("cls", cn):
                    filled |= {k.arg for k in call.keywords if k.arg}
        reads = set()
        for b in prog.mro(cn):
            cl = prog.classes.get(b)
            if cl is None:
                continue
            for m in list(cl.methods.values()) + list(cl.setters.values()):
                if m.name == "from_cst":
                    continue
                for n in ast.walk(m.node):
                    if isinstance(n, ast.Attribute) and isinstance(n.value, ast.Name) and n.value.id == "self" and isinstance(n.ctx, ast.Load):
                        reads.add(n.attr)
        r10.instances += 1
        unused = []
        for fld in sorted(filled - reads):
            owners = {o for o in field_owners.get(fld, set()) if not (prog.is_subclass(o, cn) or prog.is_subclass(cn, o))}
            if fld in foreign_reads and not owners:
                continue  # read through instances elsewhere and no unrelated class shares the name
            if cn == "NixSourceCode" and fld == "node":
                continue  # the CST root is kept for callers, not for rendering
            unused.append(fld)
        r10.ob(not unused, {"class": cn, "fields_filled_by_from_cst": len(filled)} if not unused else {"class": cn, "never_read": unused})
        for fld in unused:
            res.add("R-C18-10", (cn, "recorded field never consulted", fld), prog.own_method(cn, "rebuild").loc() if prog.own_method(cn, "rebuild") else fc.loc(),
                    f"{cn}: from_cst records `{fld}` but no method of the class reads `self.{fld}`: the recorded layout is dropped and the "
                    f"renderer falls back to a synthesised one (spaces/newlines that were not in the input)")
    # ---------------------------------------------------------------- R-C18-11
    r11 = res.rule("R-C18-11", "attrpath segments are normalised on every path of the splitter: every list _split_attrpath returns "
                   "is built from `.strip()`-ed pieces (whitespace and tabs around the dots of `a . b\t.c = 1;` are layout, not name)",
                   floor=1)
    sp = prog.func("_split_attrpath")
    res.analysed_functions.add(sp.key)

    def stripped_expr(e) -> bool:
        if isinstance(e, ast.Call) and isinstance(e.func, ast.Attribute) and e.func.attr == "strip" and not e.args:
            return True
        if isinstance(e, ast.Name):
            ds = [d for d in ast.walk(sp.node) if isinstance(d, ast.Assign) and norm(d.targets[0]) == e.id]
            return bool(ds) and all(stripped_expr(d.value) for d in ds)
        return False

    def stripped_list(e) -> bool:
        if isinstance(e, ast.Name):
            ds = [d for d in ast.walk(sp.node) if isinstance(d, (ast.Assign, ast.AnnAssign)) and norm(d.targets[0] if isinstance(d, ast.Assign) else d.target) == e.id
                  and getattr(d, "value", None) is not None]
            apps = [c for c in ast.walk(sp.node) if isinstance(c, ast.Call) and isinstance(c.func, ast.Attribute) and c.func.attr == "append"
                    and norm(c.func.value) == e.id]
            return bool(ds) and all((isinstance(d.value, ast.List) and not d.value.elts) or stripped_list(d.value) for d in ds) and \
                all(stripped_expr(c.args[0]) for c in apps)
        if isinstance(e, ast.ListComp):
            return stripped_expr(e.elt)
        if isinstance(e, ast.List):
            return all(stripped_expr(x) for x in e.elts)
        return False

    for rt in [n for n in walk_no_nested(sp.node) if isinstance(n, ast.Return) and n.value is not None]:
        r11.instances += 1
        ok = stripped_list(rt.value)
        r11.ob(ok, {"return": norm(rt)[:60]})
        if not ok:
            res.add("R-C18-11", (sp.key, "segments returned without stripping"), sp.loc(rt),
                    f"_split_attrpath: `{norm(rt)[:60]}` returns pieces that did not pass `.strip()`: for `services\\t.\\tnginx.enable = true;` "
                    f"the tab and the alignment spaces around the dots become part of the names and are written back verbatim")
    # ---------------------------------------------------------------- R-C18-12
    r12 = res.rule("R-C18-12", "the gap before a closing delimiter is built from the structural indent, never taken from the source: in "
                   "a rebuild no `)` / `]` / `}` is preceded by the result of separator_from_layout(…), which prefers the column the "
                   "closer had in the input (`layout.indent`)", floor=3)
    for f in prog.all_functions():
        if not (f.cls and f.name == "rebuild"):
            continue
        defs = {}
        for d in walk_no_nested(f.node):
            if isinstance(d, ast.Assign) and len(d.targets) == 1 and isinstance(d.targets[0], ast.Name):
                defs.setdefault(d.targets[0].id, []).append(d.value)
            elif isinstance(d, ast.AugAssign) and isinstance(d.target, ast.Name) and isinstance(d.op, ast.Add):
                defs.setdefault(d.target.id, []).append(("+=", d.value))

        def last_pieces(e, depth=0):
            """expressions that may form the *end* of the string e"""
            if depth > 4:
                return []
            if isinstance(e, ast.JoinedStr):
                vals = [v.value if isinstance(v, ast.FormattedValue) else v for v in e.values]
                return last_pieces(vals[-1], depth + 1) if vals else []
            if isinstance(e, ast.BinOp) and isinstance(e.op, ast.Add):
                return last_pieces(e.right, depth + 1)
            if isinstance(e, ast.Name):
                out = []
                for d in defs.get(e.id, []):
                    out += last_pieces(d[1] if isinstance(d, tuple) else d, depth + 1)
                return out
            if isinstance(e, ast.IfExp):
                return last_pieces(e.body, depth + 1) + last_pieces(e.orelse, depth + 1)
            return [e]

        for n in walk_no_nested(f.node):
            segs = _segments(n)
            if not segs:
                continue
            for i, sg in enumerate(segs):
                if isinstance(sg, ast.Constant) and isinstance(sg.value, str) and sg.value[:1] in (")", "]", "}") and i > 0:
                    r12.instances += 1
                    prev = last_pieces(segs[i - 1])
                    bad = [x for x in prev if isinstance(x, ast.Call) and callee(x) in ("separator_from_layout", "separator_from_layout_with_comments")
                           and not any(k.arg == "include_indent" and is_false(k.value) for k in x.keywords)]
                    r12.ob(not bad, {"site": f.key, "closer": sg.value[:1]})
                    for x in bad:
                        res.add("R-C18-12", (f.key, "closing delimiter placed by a source-derived separator", sg.value[:1]), f.loc(x),
                                f"{f.key}: the text before the closing `{sg.value[:1]}` ends with `{norm(x)[:60]}`, which uses the column recorded "
                                f"from the input when there is one: after re-indenting a 4-space (or tab) source the `{sg.value[:1]}` stays at its "
                                f"old column instead of the column of the line that opened it")
    padded_at_render_indent(prog, res)
    one_layout_per_gap(prog, res)
    res.assumptions = ["`;`/`:` attachment and exactly-one-space between tokens are value-level facts not decided here"]
    return res


def padded_at_render_indent(prog: Program, res: Results) -> None:
    """R-C18-13: a fragment rendered with `inline=True` carries no leading indent; where the renderer then pads it
    (`" " * J + text`, `_ensure_indent(text, J)`), J is the indent the fragment was rendered with — otherwise the first line
    and the lines inside the fragment (and its closing delimiter) are indented differently."""
    from sa.cfg import CFG, ReachingDefs
    from sa.util import Aliases
    r = res.rule("R-C18-13", "a rendered fragment is padded to the indent it was rendered with: where `text = <child>.rebuild(indent=I, …)` "
                 "(or a render helper taking `indent=`) is followed by `text = \" \" * J + text` / `_ensure_indent(text, J)`, I and J are "
                 "the same expression", floor=3)
    for f in prog.all_functions():
        if not f.module.startswith("nix_manipulator/expressions/"):
            continue
        pads = []
        for n in walk_no_nested(f.node):
            if not (isinstance(n, ast.Assign) and len(n.targets) == 1 and isinstance(n.targets[0], ast.Name)):
                continue
            t, v = n.targets[0].id, n.value
            j = None
            if isinstance(v, ast.BinOp) and isinstance(v.op, ast.Add) and isinstance(v.right, ast.Name) and v.right.id == t:
                l = v.left
                if isinstance(l, ast.BinOp) and isinstance(l.op, ast.Mult) and isinstance(l.left, ast.Constant) and l.left.value == " ":
                    j = l.right
            elif isinstance(v, ast.Call) and callee(v) == "_ensure_indent" and v.args and isinstance(v.args[0], ast.Name) and v.args[0].id == t:
                j = v.args[1] if len(v.args) > 1 else next((k.value for k in v.keywords if k.arg == "indent"), None)
            if j is not None:
                pads.append((n, t, j))
        if not pads:
            continue
        cfg = CFG(f.node)
        rd = ReachingDefs(cfg)
        al = Aliases(f.node)
        res.analysed_functions.add(f.key)
        for n, t, j in pads:
            at = cfg.node_of(n)
            if at is None:
                continue
            for d in rd.defs_at(at, t):
                if not (isinstance(d, ast.Assign) and isinstance(d.value, ast.Call)):
                    continue
                i = next((k.value for k in d.value.keywords if k.arg == "indent"), None)
                if i is None or d is n:
                    continue
                r.instances += 1
                ok = al.norm(i) == al.norm(j)
                r.ob(ok, {"site": f.key, "rendered_at": norm(i)[:30], "padded_to": norm(j)[:30]})
                if not ok:
                    res.add("R-C18-13", (f.key, "fragment padded to another indent than it was rendered with", t), f.loc(d),
                            f"{f.key}: `{norm(d)[:70]}` renders the fragment at indent `{norm(i)[:30]}`, but it is then padded to `{norm(j)[:30]}` "
                            f"(`{norm(n)[:50]}`): the first line sits at one column while the lines inside the fragment and its closing "
                            f"delimiter are laid out for another")


def is_false(e) -> bool:
    return isinstance(e, ast.Constant) and e.value is False


def _segments(n: ast.AST):
    """ordered pieces of a string concatenation / f-string expression (top level only)"""
    if isinstance(n, ast.JoinedStr):
        out = []
        for v in n.values:
            out.append(v.value if isinstance(v, ast.FormattedValue) else v)
        return out
    if isinstance(n, ast.BinOp) and isinstance(n.op, ast.Add):
        parts = []

        def flat(e):
            if isinstance(e, ast.BinOp) and isinstance(e.op, ast.Add):
                flat(e.left)
                flat(e.right)
            elif isinstance(e, ast.JoinedStr):
                parts.extend(_segments(e))
            else:
                parts.append(e)

        flat(n)
        return parts
    return None


def one_layout_per_gap(prog: Program, res: Results) -> None:
    """R-C18-14: the separator before a child and the way the child itself is rendered are decided by the same layout value."""
    from sa.cfg import CFG, ReachingDefs
    r = res.rule("R-C18-14", "one layout per gap: where a renderer adjusts a layout local after reading it from the gap (forcing a new "
                 "line when comments are present, clearing the blank-line flag), the separator formatter that receives the layout and "
                 "the `<layout>.on_newline` test that selects how the following child is rendered see the same definitions of it — a "
                 "separator computed from the stale value puts the child on the operator's line while the child is rendered with its "
                 "own indentation", floor=2)
    SEP = ("format_interstitial_trivia_with_separator", "separator_from_layout", "separator_from_layout_with_comments")
    for f in prog.all_functions():
        if not (f.cls and f.name in ("rebuild", "rebuild_scoped")) or f.parent is not None:
            continue
        layouts: dict = {}
        for d in walk_no_nested(f.node):
            if isinstance(d, ast.Assign) and len(d.targets) == 1 and isinstance(d.targets[0], ast.Name) and isinstance(d.value, ast.Call):
                c = callee(d.value)
                if c == "layout_from_gap" or (c == "model_copy" and isinstance(d.value.func, ast.Attribute) and isinstance(d.value.func.value, ast.Name)
                                              and d.value.func.value.id == d.targets[0].id):
                    layouts.setdefault(d.targets[0].id, []).append(d)
        multi = {k: v for k, v in layouts.items() if len(v) >= 2 and any(callee(d.value) == "layout_from_gap" for d in v)}
        if not multi:
            continue
        cfg = CFG(f.node)
        rd = ReachingDefs(cfg)
        for L in sorted(multi):
            seps = [n for n in cfg.nodes if n.ast is not None and n.kind in ("stmt", "return") and any(
                isinstance(c, ast.Call) and callee(c) in SEP and any(isinstance(a, ast.Name) and a.id == L for a in list(c.args) + [k.value for k in c.keywords])
                for c in ast.walk(n.ast))]
            tests = [n for n in cfg.nodes if n.kind == "test" and isinstance(getattr(n, "stmt", None), ast.If)
                     and any(isinstance(a, ast.Attribute) and a.attr == "on_newline" and isinstance(a.value, ast.Name) and a.value.id == L for a in ast.walk(n.ast))
                     and any(isinstance(c, ast.Call) and isinstance(c.func, ast.Attribute) and c.func.attr == "rebuild"
                             for b in n.stmt.body + n.stmt.orelse for c in ast.walk(b))]
            if not seps or not tests:
                continue
            res.analysed_functions.add(f.key)
            for sn in seps:
                r.instances += 1
                ds = rd.defs_at(sn, L)
                bad = [t for t in tests if rd.defs_at(t, L) != ds]
                r.ob(not bad, {"site": f.key, "layout": L, "separator": norm(sn.ast)[:50]})
                for t in bad:
                    res.add("R-C18-14", (f.key, "separator and child rendered from different values of one layout", L), f.loc(sn.ast),
                            f"{f.key}: `{norm(sn.ast)[:70]}` receives `{L}` as it is at that point, but `{norm(t.ast)[:50]}`, which selects how "
                            f"the following child is rendered, sees another set of assignments to `{L}`: after the layout is forced onto a new "
                            f"line (comments present) the separator still belongs to the same-line layout, so the child's own indentation "
                            f"follows the comment on one line — more than one space between two tokens")
