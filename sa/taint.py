"""M4 taint interpreter (C18): raw whitespace text / raw newline counts captured from gaps must not reach the output.

Kinds: TEXT (raw gap text), COUNT (raw newline / character count), INDENT (raw indentation width), CLAMPED is
the absence of COUNT after `min(x, k)`.  Phase 1 walks the parser side (from_cst closures and their helpers) and
records which fields receive which kinds; phase 2 walks the renderer side with `self.F` carrying the field kinds.
"""
from __future__ import annotations

import ast

from sa.model import Func, Program, norm, walk_no_nested

TEXT, COUNT, INDENT = "TEXT", "COUNT", "INDENT"
E = frozenset()

SRC_TEXT = {"gap_between", "gap_from_offsets", "append_gap_between"}
SRC_TUPLE = {"collect_comments_between_with_gap": [E, frozenset([TEXT])],
             "gap_line_info": [frozenset([COUNT]), frozenset([INDENT])],
             "_gap_line_info_from_offsets": [frozenset([COUNT]), frozenset([INDENT])]}
SANITIZERS = {"layout_from_gap", "from_gap", "gap_has_empty_line", "gap_has_empty_line_from_offsets", "gap_has_newline_from_offsets",
              "append_gap_trivia", "append_gap_trivia_from_offsets", "append_gap_between_offsets", "bool", "isinstance", "search", "match",
              "fullmatch", "startswith", "endswith", "isspace", "any", "all", "Layout", "separator_from_layout",
              "separator_from_layout_with_comments"}
STRING_KEEP = {"strip", "lstrip", "rstrip", "split", "rsplit", "splitlines", "replace", "expandtabs", "partition", "rpartition", "join", "format"}


class T:
    """taint value: kinds + optional per-element kinds for tuples"""
    __slots__ = ("k", "tup")

    def __init__(self, k=E, tup=None):
        self.k = frozenset(k)
        self.tup = tup

    def flat(self):
        k = set(self.k)
        if self.tup:
            for t in self.tup:
                k |= t.flat()
        return frozenset(k)

    def __or__(self, o):
        if self.tup and o.tup and len(self.tup) == len(o.tup):
            return T(self.k | o.k, [a | b for a, b in zip(self.tup, o.tup)])
        return T(self.flat() | o.flat())


CLEAN = T()


class Taint:
    def __init__(self, prog: Program):
        self.prog = prog
        self.field_kinds: dict[str, set] = {}  # field name -> kinds
        self.field_sites: dict[str, list] = {}
        self.sinks: list = []  # (rule, func key, node, kinds, description)
        self.phase = 1
        self.depth = 0
        self.stack: list = []
        self.memo: dict = {}
        self.cur: list[Func] = []
        self.mults_checked = 0
        self.sinks_checked = 0

    # ------------------------------------------------------------------ drivers
    def run_parser_side(self):
        self.phase = 1
        roots = [f for f in self.prog.all_functions() if f.name == "from_cst" and f.cls]
        for _ in range(3):  # fields flow through other constructors (Import takes FunctionCall's captured gap)
            before = {k: set(v) for k, v in self.field_kinds.items()}
            self.memo.clear()
            for f in roots:
                self.call_func(f, [], {}, selfk=CLEAN)
            if before == self.field_kinds:
                break

    def run_renderer_side(self):
        self.phase = 2
        self.memo.clear()
        for f in self.prog.all_functions():
            if f.cls and f.name in ("rebuild", "__str__") and f.kind == "method":
                self.call_func(f, [], {}, selfk=CLEAN)

    # ------------------------------------------------------------------ functions
    def call_func(self, f: Func, args, kw, selfk=None, closure_env=None):
        key = (f.key, tuple(a.flat() for a in args), tuple(sorted((k, v.flat()) for k, v in kw.items())), self.phase)
        if closure_env is None and key in self.memo:
            return self.memo[key]
        if self.depth > 9 or f.key in self.stack:
            return T(frozenset().union(*[a.flat() for a in args], *[v.flat() for v in kw.values()]) if (args or kw) else E)
        self.depth += 1
        self.stack.append(f.key)
        self.cur.append(f)
        try:
            fn = f.node
            env = closure_env if closure_env is not None else {}
            saved = dict(env) if closure_env is not None else None
            params = [a.arg for a in fn.args.posonlyargs + fn.args.args]
            if selfk is not None and params and params[0] in ("self", "cls"):
                env[params[0]] = selfk
                params = params[1:]
            for p in params + [a.arg for a in fn.args.kwonlyargs]:
                env[p] = CLEAN
            for p, a in zip(params, args):
                env[p] = a
            for k, a in kw.items():
                env[k] = a
            rets: list = []
            self.block(fn.body, env, rets)
            out = CLEAN
            for r in rets:
                out = out | r if (out.k or out.tup or rets.index(r)) else r
            if rets:
                out = rets[0]
                for r in rets[1:]:
                    out = out | r
            if saved is not None:
                for p in params + [a.arg for a in fn.args.kwonlyargs]:
                    if p in saved:
                        env[p] = saved[p]
                    else:
                        env.pop(p, None)
            else:
                self.memo[key] = out
            return out
        finally:
            self.cur.pop()
            self.stack.pop()
            self.depth -= 1

    # ------------------------------------------------------------------ expressions
    def ev(self, e, env) -> T:
        if e is None or isinstance(e, ast.Constant):
            return CLEAN
        if isinstance(e, ast.Name):
            v = env.get(e.id)
            return v if isinstance(v, T) else CLEAN
        if isinstance(e, ast.Attribute):
            base = self.ev(e.value, env)
            if e.attr in self.field_kinds and not (isinstance(e.value, ast.Name) and e.value.id in ("node", "child")):
                return T(self.field_kinds[e.attr]) | T(base.flat() & {TEXT})
            if e.attr in ("indent",):
                return CLEAN
            return T(base.flat() & {TEXT}) if base.flat() else CLEAN
        if isinstance(e, ast.Subscript):
            base = self.ev(e.value, env)
            self.ev(e.slice, env)
            if base.tup and isinstance(e.slice, ast.Constant) and isinstance(e.slice.value, int) and -len(base.tup) <= e.slice.value < len(base.tup):
                return base.tup[e.slice.value]
            return T(base.flat())
        if isinstance(e, ast.Tuple):
            return T(E, [self.ev(x, env) for x in e.elts])
        if isinstance(e, (ast.List, ast.Set)):
            k = set()
            for x in e.elts:
                k |= self.ev(x, env).flat()
            return T(k)
        if isinstance(e, ast.Dict):
            k = set()
            for x in e.values:
                k |= self.ev(x, env).flat()
            return T(k)
        if isinstance(e, ast.JoinedStr):
            k = set()
            for v in e.values:
                if isinstance(v, ast.FormattedValue):
                    t = self.ev(v.value, env).flat()
                    self.sink_string(v.value, t, "f-string segment")
                    k |= t
            return T(k - {COUNT, INDENT})
        if isinstance(e, ast.BinOp):
            a, b = self.ev(e.left, env).flat(), self.ev(e.right, env).flat()
            if isinstance(e.op, ast.Mult):
                self.check_mult(e, a, b)
                return T((a | b) - {COUNT, INDENT}) if self._is_textual(e.left) or self._is_textual(e.right) else T(a | b)
            if isinstance(e.op, ast.Add) and (self._is_textual(e.left) or self._is_textual(e.right) or TEXT in a | b):
                self.sink_string(e.left, a, "string concatenation")
                self.sink_string(e.right, b, "string concatenation")
            return T(a | b)
        if isinstance(e, ast.BoolOp):
            k = set()
            for v in e.values:
                k |= self.ev(v, env).flat()
            return T(k)
        if isinstance(e, ast.UnaryOp):
            t = self.ev(e.operand, env)
            return CLEAN if isinstance(e.op, ast.Not) else t
        if isinstance(e, ast.Compare):
            self.ev(e.left, env)
            for c in e.comparators:
                self.ev(c, env)
            return CLEAN
        if isinstance(e, ast.IfExp):
            self.ev(e.test, env)
            return self.ev(e.body, env) | self.ev(e.orelse, env)
        if isinstance(e, (ast.ListComp, ast.GeneratorExp, ast.SetComp, ast.DictComp)):
            env2 = dict(env)
            for g in e.generators:
                it = self.ev(g.iter, env2)
                self.bind(g.target, it if it.tup else T(it.flat()), env2)
                for c in g.ifs:
                    self.ev(c, env2)
            if isinstance(e, ast.DictComp):
                return T(self.ev(e.value, env2).flat())
            return T(self.ev(e.elt, env2).flat())
        if isinstance(e, ast.NamedExpr):
            v = self.ev(e.value, env)
            env[e.target.id] = v
            return v
        if isinstance(e, ast.Starred):
            return self.ev(e.value, env)
        if isinstance(e, ast.Lambda):
            return CLEAN
        if isinstance(e, ast.Call):
            return self.ev_call(e, env)
        return CLEAN

    @staticmethod
    def _is_textual(e) -> bool:
        return isinstance(e, ast.JoinedStr) or (isinstance(e, ast.Constant) and isinstance(e.value, str))

    def ev_call(self, e, env) -> T:
        args = [self.ev(a, env) for a in e.args]
        kw = {k.arg: self.ev(k.value, env) for k in e.keywords if k.arg}
        allk = set()
        for a in args + list(kw.values()):
            allk |= a.flat()
        f = e.func
        nm = f.id if isinstance(f, ast.Name) else (f.attr if isinstance(f, ast.Attribute) else None)
        if nm == "zip" and isinstance(f, ast.Name):
            return T(E, [T(a.flat()) for a in args])
        if nm == "enumerate" and isinstance(f, ast.Name) and args:
            return T(E, [CLEAN, T(args[0].flat())])
        if nm in SRC_TEXT:
            return T([TEXT])
        if nm in SRC_TUPLE:
            return T(E, [T(k) for k in SRC_TUPLE[nm]])
        if nm == "indent_from_gap":
            return T([INDENT])
        if nm in SANITIZERS:
            return CLEAN
        if nm == "count" and isinstance(f, ast.Attribute):
            recv = self.ev(f.value, env).flat()
            return T([COUNT]) if TEXT in recv else CLEAN
        if nm == "len" and args:
            a = args[0].flat()
            return T([COUNT]) if TEXT in a else CLEAN
        if nm == "min" and any(isinstance(a, ast.Constant) and isinstance(a.value, int) for a in e.args):
            return T(allk - {COUNT})
        if nm in ("int", "abs", "max", "sum", "round"):
            return T(allk)
        if nm == "decode" and isinstance(f, ast.Attribute):
            return T(self.ev(f.value, env).flat())
        if nm == "join" and isinstance(f, ast.Attribute):
            for a, an in zip(args, e.args):
                self.sink_string(an, a.flat(), "str.join argument")
            return T((allk | self.ev(f.value, env).flat()) - {COUNT, INDENT})
        if isinstance(f, ast.Attribute) and nm in STRING_KEEP:
            return T(self.ev(f.value, env).flat() | (allk & {TEXT}))
        if nm in ("append", "extend", "insert", "add") and isinstance(f, ast.Attribute) and isinstance(f.value, ast.Name):
            cur = env.get(f.value.id, CLEAN)
            env[f.value.id] = T((cur.flat() if isinstance(cur, T) else E) | allk)
            return CLEAN
        # constructors: record field kinds
        cname = None
        if isinstance(f, ast.Name) and f.id in self.prog.classes:
            cname = f.id
        elif isinstance(f, ast.Name) and f.id == "cls" and self.cur and self.cur[-1].cls:
            cname = self.cur[-1].cls
        elif isinstance(f, ast.Attribute) and f.attr == "_fast_construct":
            cname = self.cur[-1].cls if self.cur and self.cur[-1].cls else None
        if cname is not None or (isinstance(f, ast.Name) and f.id == "cls"):
            for k, v in kw.items():
                if v.flat():
                    self.record_field(k, v.flat(), e)
            return CLEAN
        if nm in ("model_copy", "replace"):
            for k in e.keywords:
                if k.arg == "update" and isinstance(k.value, ast.Dict):
                    for kk, vv in zip(k.value.keys, k.value.values):
                        if isinstance(kk, ast.Constant):
                            t = self.ev(vv, env).flat()
                            if t:
                                self.record_field(kk.value, t, e)
            return T(self.ev(f.value, env).flat()) if isinstance(f, ast.Attribute) else CLEAN
        # package functions / methods: interprocedural
        if isinstance(f, ast.Name):
            v = env.get(f.id)
            if isinstance(v, tuple) and v[0] == "closure":
                fobj = v[1]
                return self.call_func(fobj, args, kw, closure_env=v[2])
            tgt = self.prog.funcs.get(f.id)
            if tgt is not None and self.cur and self.prog.shadowed(self.cur[-1], f.id):
                tgt = None  # a callback parameter
            if tgt is not None and tgt.cls is None:
                return self.call_func(tgt, args, kw)
            return T(allk & {TEXT})
        if isinstance(f, ast.Attribute):
            recv = f.value
            if isinstance(recv, ast.Name) and recv.id in ("self", "cls") and self.cur and self.cur[-1].cls:
                if f.attr in ("rebuild_scoped", "has_scope", "model_copy"):
                    return CLEAN
                m = self.prog.method(self.cur[-1].cls, f.attr)
                if m is not None and f.attr != "rebuild":
                    return self.call_func(m, args, kw, selfk=CLEAN)
            if isinstance(recv, ast.Name) and recv.id in self.prog.classes:
                m = self.prog.method(recv.id, f.attr)
                if m is not None and f.attr != "from_cst":
                    return self.call_func(m, args, kw, selfk=CLEAN if m.kind == "classmethod" else None)
            if f.attr in ("rebuild", "from_cst", "_inline_preview", "simple_inline_preview"):
                return CLEAN
            return T((self.ev(recv, env).flat() | allk) & {TEXT})
        return CLEAN

    # ------------------------------------------------------------------ records
    def record_field(self, field, kinds, node):
        self.field_kinds.setdefault(field, set()).update(kinds)
        site = (self.cur[-1].key if self.cur else "?", getattr(node, "lineno", 0), field, tuple(sorted(kinds)))
        lst = self.field_sites.setdefault(field, [])
        if site not in lst:
            lst.append(site)

    def sink_string(self, node, kinds, what):
        if self.phase != 2:
            return
        self.sinks_checked += 1
        if TEXT in kinds:
            self.sinks.append(("R-C18-1", self.cur[-1] if self.cur else None, node, kinds, what))

    def check_mult(self, e, a, b):
        def newline_like(x):
            if isinstance(x, ast.Constant) and isinstance(x.value, str) and "\n" in x.value:
                return True
            if isinstance(x, ast.List) and any(isinstance(el, ast.Name) and el.id in ("empty_line", "linebreak") for el in x.elts):
                return True
            return False

        for s, other_kinds in ((e.left, b), (e.right, a)):
            if newline_like(s):
                self.mults_checked += 1
                if COUNT in other_kinds:
                    self.sinks.append(("R-C18-2", self.cur[-1] if self.cur else None, e, other_kinds, "newline multiplier"))

    # ------------------------------------------------------------------ statements
    def bind(self, t, v: T, env):
        if isinstance(t, ast.Name):
            env[t.id] = v
        elif isinstance(t, (ast.Tuple, ast.List)):
            if v.tup and len(v.tup) == len(t.elts):
                for x, a in zip(t.elts, v.tup):
                    self.bind(x, a, env)
            else:
                for x in t.elts:
                    self.bind(x, T(v.flat()), env)
        elif isinstance(t, ast.Starred):
            self.bind(t.value, v, env)
        elif isinstance(t, ast.Attribute):
            if v.flat():
                self.record_field(t.attr, v.flat(), t)
        elif isinstance(t, ast.Subscript):
            if isinstance(t.value, ast.Name):
                cur = env.get(t.value.id, CLEAN)
                env[t.value.id] = T((cur.flat() if isinstance(cur, T) else E) | v.flat())

    def block(self, stmts, env, rets):
        for s in stmts:
            self.stmt(s, env, rets)

    def stmt(self, s, env, rets):
        if isinstance(s, ast.Return):
            v = self.ev(s.value, env)
            if self.phase == 2 and self.cur and self.cur[-1].name in ("rebuild", "__str__") and TEXT in v.flat():
                self.sinks.append(("R-C18-1", self.cur[-1], s, v.flat(), "returned text"))
            rets.append(v)
            return
        if isinstance(s, ast.Assign):
            v = self.ev(s.value, env)
            for t in s.targets:
                self.bind(t, v, env)
            return
        if isinstance(s, ast.AnnAssign):
            if s.value is not None:
                self.bind(s.target, self.ev(s.value, env), env)
            return
        if isinstance(s, ast.AugAssign):
            v = self.ev(s.value, env)
            if isinstance(s.target, ast.Name):
                cur = env.get(s.target.id, CLEAN)
                cur = cur if isinstance(cur, T) else CLEAN
                if isinstance(s.op, ast.Add) and (TEXT in v.flat()):
                    self.sink_string(s.value, v.flat(), "augmented string concatenation")
                env[s.target.id] = T(cur.flat() | v.flat())
            else:
                self.bind(s.target, v, env)
            return
        if isinstance(s, ast.Expr):
            self.ev(s.value, env)
            return
        if isinstance(s, (ast.FunctionDef, ast.AsyncFunctionDef)):
            owner = self.cur[-1] if self.cur else None
            fobj = owner.nested.get(s.name) if owner is not None else None
            if fobj is None:
                for f in self.prog.all_functions():
                    if f.node is s:
                        fobj = f
            if fobj is not None:
                env[s.name] = ("closure", fobj, env)
            return
        if isinstance(s, ast.If):
            self.ev(s.test, env)
            e1, e2 = dict(env), dict(env)
            self.block(s.body, e1, rets)
            self.block(s.orelse, e2, rets)
            self.join(env, e1, e2)
            return
        if isinstance(s, (ast.For, ast.AsyncFor)):
            it = self.ev(s.iter, env)
            e1 = dict(env)
            for _ in range(2):
                self.bind(s.target, it if it.tup else T(it.flat()), e1)
                self.block(s.body, e1, rets)
            self.join(env, e1, dict(env))
            self.block(s.orelse, env, rets)
            return
        if isinstance(s, ast.While):
            e1 = dict(env)
            for _ in range(2):
                self.ev(s.test, e1)
                self.block(s.body, e1, rets)
            self.join(env, e1, dict(env))
            return
        if isinstance(s, (ast.With, ast.AsyncWith)):
            for it in s.items:
                self.ev(it.context_expr, env)
            self.block(s.body, env, rets)
            return
        if isinstance(s, ast.Try):
            self.block(s.body, env, rets)
            for h in s.handlers:
                self.block(h.body, env, rets)
            self.block(s.orelse, env, rets)
            self.block(s.finalbody, env, rets)
            return
        if isinstance(s, ast.Match):
            self.ev(s.subject, env)
            outs = []
            for c in s.cases:
                ec = dict(env)
                self.block(c.body, ec, rets)
                outs.append(ec)
            for o in outs:
                self.join(env, env, o)
            return

    def join(self, env, e1, e2):
        out = {}
        for k in set(e1) | set(e2):
            a, b = e1.get(k), e2.get(k)
            if isinstance(a, tuple) or isinstance(b, tuple):
                out[k] = a if isinstance(a, tuple) else b
            elif a is None:
                out[k] = b
            elif b is None:
                out[k] = a
            else:
                out[k] = a | b
        env.clear()
        env.update(out)
