"""Generic internal-error lints over the resolved program (no execution): names that are not bound anywhere (NameError),
attributes of `self` that the class does not define (AttributeError), calls of package functions that do not fit the
callee's signature (TypeError), dead stores, and discarded results of functions whose value is the point of calling them.

Each lint is exact on what it resolves and silent on what it cannot resolve (dynamic attributes, *args/**kwargs,
objects of unknown class)."""
from __future__ import annotations

import ast
import builtins

from sa.cfg import CFG, ReachingDefs
from sa.model import Func, Program, norm, walk_no_nested

BUILTINS = set(dir(builtins))


# ------------------------------------------------------------------------------------------------ undefined names
def module_bindings(tree: ast.Module) -> set[str]:
    out = set()
    for n in ast.walk(tree):
        if isinstance(n, (ast.FunctionDef, ast.AsyncFunctionDef, ast.ClassDef)):
            out.add(n.name)
        elif isinstance(n, (ast.Import, ast.ImportFrom)):
            for al in n.names:
                out.add((al.asname or al.name).split(".")[0])
    for s in tree.body:
        for n in ast.walk(s) if not isinstance(s, (ast.FunctionDef, ast.AsyncFunctionDef, ast.ClassDef)) else []:
            if isinstance(n, ast.Name) and isinstance(n.ctx, ast.Store):
                out.add(n.id)
    return out


def function_bindings(fn: ast.AST) -> set[str]:
    out = set()
    for n in ast.walk(fn):
        if isinstance(n, (ast.FunctionDef, ast.AsyncFunctionDef, ast.Lambda)):
            a = n.args
            for x in a.posonlyargs + a.args + a.kwonlyargs:
                out.add(x.arg)
            if a.vararg:
                out.add(a.vararg.arg)
            if a.kwarg:
                out.add(a.kwarg.arg)
            if not isinstance(n, ast.Lambda):
                out.add(n.name)
        elif isinstance(n, ast.ClassDef):
            out.add(n.name)
        elif isinstance(n, ast.Name) and isinstance(n.ctx, (ast.Store, ast.Del)):
            out.add(n.id)
        elif isinstance(n, (ast.Import, ast.ImportFrom)):
            for al in n.names:
                out.add((al.asname or al.name).split(".")[0])
        elif isinstance(n, ast.ExceptHandler) and n.name:
            out.add(n.name)
        elif isinstance(n, (ast.MatchAs, ast.MatchStar)) and n.name:
            out.add(n.name)
        elif isinstance(n, ast.MatchMapping) and n.rest:
            out.add(n.rest)
    return out


def undefined_names(prog: Program, f: Func) -> list[ast.Name]:
    """names read in f (top-level functions only; nested ones are covered through their outermost function) that are bound
    nowhere: not in the function tree, the class body, the module, or builtins"""
    if f.parent is not None:
        return []
    tree = prog.modules[f.module]
    known = module_bindings(tree) | function_bindings(f.node) | BUILTINS | {"__class__", "__file__", "__name__"}
    if f.cls:
        c = prog.classes.get(f.cls)
        if c is not None:
            for s in c.node.body:
                for n in ast.walk(s):
                    if isinstance(n, ast.Name) and isinstance(n.ctx, ast.Store):
                        known.add(n.id)
    return [n for n in ast.walk(f.node) if isinstance(n, ast.Name) and isinstance(n.ctx, ast.Load) and n.id not in known]


# ------------------------------------------------------------------------------------------------ attributes of self
def class_members(prog: Program, cname: str) -> set[str] | None:
    """names defined by the class and its package bases; None when a base is outside the package (unknown members)"""
    out = set()
    for b in prog.mro(cname):
        c = prog.classes.get(b)
        if c is None:
            continue
        out |= set(c.methods) | set(c.setters) | set(c.own_fields) | set(c.classvars)
        for s in ast.walk(c.node):
            if isinstance(s, ast.Attribute) and isinstance(s.ctx, ast.Store) and isinstance(s.value, ast.Name) and s.value.id == "self":
                out.add(s.attr)
        for s in c.node.body:
            if isinstance(s, (ast.FunctionDef, ast.AsyncFunctionDef)):
                out.add(s.name)
            elif isinstance(s, ast.AnnAssign) and isinstance(s.target, ast.Name):
                out.add(s.target.id)
            elif isinstance(s, ast.Assign):
                for t in s.targets:
                    if isinstance(t, ast.Name):
                        out.add(t.id)
        for bb in c.bases:
            base = bb.split("[")[0].split(".")[-1]
            if base not in prog.classes and base not in ("object", "Generic", "Protocol"):
                if base in ("list", "dict", "set", "tuple", "str", "Exception", "ValueError", "TypedDict"):
                    out |= set(dir({"list": list, "dict": dict, "set": set, "tuple": tuple, "str": str, "Exception": Exception,
                                    "ValueError": ValueError, "TypedDict": dict}[base]))
                else:
                    return None
    return out | set(dir(object)) | {"__dict__", "__class__", "__slots__", "__dataclass_fields__"}


def unknown_self_attributes(prog: Program, f: Func) -> list[ast.Attribute]:
    owner = f
    while owner.parent is not None:
        owner = owner.parent
    if not owner.cls or owner.kind in ("staticmethod",):
        return []
    selfname = owner.node.args.args[0].arg if owner.node.args.args else None
    if selfname not in ("self",):
        return []
    members = class_members(prog, owner.cls)
    if members is None:
        return []
    # subclasses may define what a base method reads: accept members of any subclass too
    for sub in prog.subclasses(owner.cls):
        m2 = class_members(prog, sub)
        if m2:
            members |= m2
    out = []
    for n in walk_no_nested(f.node):
        if isinstance(n, ast.Attribute) and isinstance(n.ctx, ast.Load) and isinstance(n.value, ast.Name) and n.value.id == selfname \
                and n.attr not in members:
            out.append(n)
    return out


# ------------------------------------------------------------------------------------------------ call signatures
def signature_mismatches(prog: Program, f: Func) -> list[tuple[ast.Call, str]]:
    out = []
    for c in walk_no_nested(f.node):
        if not isinstance(c, ast.Call) or any(isinstance(a, ast.Starred) for a in c.args) or any(k.arg is None for k in c.keywords):
            continue
        tgt = None
        implicit = 0
        if isinstance(c.func, ast.Name):
            g = f
            while g is not None and tgt is None:
                tgt = g.nested.get(c.func.id)
                g = g.parent
            if tgt is None and c.func.id in prog.funcs and prog.funcs[c.func.id].cls is None and c.func.id not in function_bindings(f.node) - {c.func.id}:
                tgt = prog.funcs[c.func.id]
            if tgt is None and c.func.id in prog.classes:
                cls = prog.classes[c.func.id]
                init = prog.method(c.func.id, "__init__")
                if init is not None:
                    tgt, implicit = init, 1
                elif cls.dataclass or any(prog.classes.get(b) and prog.classes[b].dataclass for b in prog.mro(c.func.id)):
                    fields = list(prog.fields(c.func.id))
                    bad = [k.arg for k in c.keywords if k.arg not in fields]
                    if bad and not prog.method(c.func.id, "__new__"):
                        out.append((c, f"{c.func.id}() has no field {bad}"))
                    continue
        elif isinstance(c.func, ast.Attribute) and isinstance(c.func.value, ast.Name) and c.func.value.id == "self":
            owner = f
            while owner.parent is not None:
                owner = owner.parent
            if owner.cls:
                m = prog.method(owner.cls, c.func.attr)
                if m is not None and m.kind in ("method",):
                    # an override in a subclass may differ; only check when no subclass overrides
                    if len(prog.overriders(owner.cls, c.func.attr)) == 1:
                        tgt, implicit = m, 1
        if tgt is None or tgt.node.args.vararg or tgt.node.args.kwarg:
            continue
        if any(norm(d) in ("staticmethod", "classmethod", "property") or "contextmanager" in norm(d) or "cache" in norm(d) for d in tgt.node.decorator_list):
            continue
        a = tgt.node.args
        pos = [x.arg for x in a.posonlyargs + a.args][implicit:]
        kwonly = [x.arg for x in a.kwonlyargs]
        n_def = len(a.defaults)
        required = pos[:len(pos) - n_def] if n_def <= len(pos) else []
        req_kw = [x.arg for x, d in zip(a.kwonlyargs, a.kw_defaults) if d is None]
        if len(c.args) > len(pos):
            out.append((c, f"{tgt.key} takes {len(pos)} positional argument(s), {len(c.args)} given"))
            continue
        given = set(pos[:len(c.args)]) | {k.arg for k in c.keywords}
        unknown = [k.arg for k in c.keywords if k.arg not in pos and k.arg not in kwonly]
        if unknown:
            out.append((c, f"{tgt.key} has no parameter {unknown}"))
        dup = [k.arg for k in c.keywords if k.arg in pos[:len(c.args)]]
        if dup:
            out.append((c, f"{tgt.key} gets {dup} twice"))
        missing = [p_ for p_ in required + req_kw if p_ not in given]
        if missing:
            out.append((c, f"{tgt.key} is called without {missing}"))
    return out


# ------------------------------------------------------------------------------------------------ dead stores
def dead_stores(f: Func) -> list[tuple[ast.AST, str]]:
    """simple-name assignments none of whose values reaches a read (on any path), excluding names read by nested closures,
    `_`-prefixed names, augmented assignments and loop/with/except targets"""
    cfg = CFG(f.node)
    rd = ReachingDefs(cfg)
    nested_loads = set()
    for g in f.nested.values():
        for n in ast.walk(g.node):
            if isinstance(n, ast.Name) and isinstance(n.ctx, ast.Load):
                nested_loads.add(n.id)
    declared = {nm for n in ast.walk(f.node) if isinstance(n, (ast.Nonlocal, ast.Global)) for nm in n.names}
    used_defs = set()
    for node in cfg.nodes:
        if node.ast is None or node.kind in ("def",):
            continue
        if node.kind == "for":
            roots = [node.ast.iter]
        elif node.kind == "with":
            roots = [i.context_expr for i in node.ast.items]
        elif node.kind in ("case", "handler"):
            roots = [node.ast.guard] if node.kind == "case" and node.ast.guard is not None else []
        else:
            roots = [node.ast]
        for r in roots:
            for x in ast.walk(r):
                if isinstance(x, ast.Name) and isinstance(x.ctx, (ast.Load, ast.Del)):
                    for d in rd.defs_at(node, x.id):
                        used_defs.add(id(d) if not isinstance(d, str) else d)
                    # a read in the same statement that also (re)binds the name uses the incoming definitions
        if isinstance(node.ast, ast.AugAssign) and isinstance(node.ast.target, ast.Name):
            for d in rd.defs_at(node, node.ast.target.id):
                used_defs.add(id(d) if not isinstance(d, str) else d)
    out = []
    for node in cfg.nodes:
        a = node.ast
        if isinstance(a, ast.Assign) and len(a.targets) == 1 and isinstance(a.targets[0], ast.Name) and node.kind == "stmt":
            nm = a.targets[0].id
            if nm.startswith("_") or nm in nested_loads or nm in declared:
                continue
            if id(a) not in used_defs:
                out.append((a, nm))
    return out


# ------------------------------------------------------------------------------------------------ discarded results
def discarded_results(prog: Program, f: Func) -> list[ast.Call]:
    """expression statements that call a package function / copy method whose only effect is its return value"""
    out = []
    for n in walk_no_nested(f.node):
        if isinstance(n, ast.Expr) and isinstance(n.value, ast.Call):
            c = n.value
            nm = c.func.attr if isinstance(c.func, ast.Attribute) else getattr(c.func, "id", None)
            if nm in ("model_copy", "replace", "strip", "lstrip", "rstrip", "lower", "upper", "join", "format", "sorted", "reversed",
                      "layout_from_gap", "format_trivia", "trim_leading_layout_trivia", "coerce_expression", "rebuild", "list", "tuple", "dict"):
                if nm == "replace" and isinstance(c.func, ast.Name):
                    out.append(c)
                elif nm != "replace" or isinstance(c.func, ast.Attribute):
                    out.append(c)
    return out
