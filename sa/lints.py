"""Generic internal-error lints over the resolved program (no execution): names that are not bound anywhere (NameError),
attributes of `self` that the class does not define (AttributeError), calls of package functions that do not fit the
callee's signature (TypeError), dead stores, and discarded results of functions whose value is the point of calling them.

Each lint is exact on what it resolves and silent on what it cannot resolve (dynamic attributes, *args/**kwargs,
objects of unknown class)."""
from __future__ import annotations

import ast
import builtins

from sa.cfg import CFG, ReachingDefs
from sa.model import Func, Program, norm, walk_no_nested

BUILTINS = set(dir(builtins))


# ------------------------------------------------------------------------------------------------ undefined names
def module_bindings(tree: ast.Module) -> set[str]:
    out = set()
    for n in ast.walk(tree):
        if isinstance(n, (ast.FunctionDef, ast.AsyncFunctionDef, ast.ClassDef)):
            out.add(n.name)
        elif isinstance(n, (ast.Import, ast.ImportFrom)):
            for al in n.names:
                out.add((al.asname or al.name).split(".")[0])
    for s in tree.body:
        for n in ast.walk(s) if not isinstance(s, (ast.FunctionDef, ast.AsyncFunctionDef, ast.ClassDef)) else []:
            if isinstance(n, ast.Name) and isinstance(n.ctx, ast.Store):
                out.add(n.id)
    return out


def function_bindings(fn: ast.AST) -> set[str]:
    out = set()
    for n in ast.walk(fn):
        if isinstance(n, (ast.FunctionDef, ast.AsyncFunctionDef, ast.Lambda)):
            a = n.args
            for x in a.posonlyargs + a.args + a.kwonlyargs:
                out.add(x.arg)
            if a.vararg:
                out.add(a.vararg.arg)
            if a.kwarg:
                out.add(a.kwarg.arg)
            if not isinstance(n, ast.Lambda):
                out.add(n.name)
        elif isinstance(n, ast.ClassDef):
            out.add(n.name)
        elif isinstance(n, ast.Name) and isinstance(n.ctx, (ast.Store, ast.Del)):
            out.add(n.id)
        elif isinstance(n, (ast.Import, ast.ImportFrom)):
            for al in n.names:
                out.add((al.asname or al.name).split(".")[0])
        elif isinstance(n, ast.ExceptHandler) and n.name:
            out.add(n.name)
        elif isinstance(n, (ast.MatchAs, ast.MatchStar)) and n.name:
            out.add(n.name)
        elif isinstance(n, ast.MatchMapping) and n.rest:
            out.add(n.rest)
    return out


def undefined_names(prog: Program, f: Func) -> list[ast.Name]:
    """names read in f (top-level functions only; nested ones are covered through their outermost function) that are bound
    nowhere: not in the function tree, the class body, the module, or builtins"""
    if f.parent is not None:
        return []
    tree = prog.modules[f.module]
    known = module_bindings(tree) | function_bindings(f.node) | BUILTINS | {"__class__", "__file__", "__name__"}
    if f.cls:
        c = prog.classes.get(f.cls)
        if c is not None:
            for s in c.node.body:
                for n in ast.walk(s):
                    if isinstance(n, ast.Name) and isinstance(n.ctx, ast.Store):
                        known.add(n.id)
    return [n for n in ast.walk(f.node) if isinstance(n, ast.Name) and isinstance(n.ctx, ast.Load) and n.id not in known]


# ------------------------------------------------------------------------------------------------ attributes of self
def class_members(prog: Program, cname: str) -> set[str] | None:
    """names defined by the class and its package bases; None when a base is outside the package (unknown members)"""
    out = set()
    for b in prog.mro(cname):
        c = prog.classes.get(b)
        if c is None:
            continue
        out |= set(c.methods) | set(c.setters) | set(c.own_fields) | set(c.classvars)
        for s in ast.walk(c.node):
            if isinstance(s, ast.Attribute) and isinstance(s.ctx, ast.Store) and isinstance(s.value, ast.Name) and s.value.id == "self":
                out.add(s.attr)
        for s in c.node.body:
            if isinstance(s, (ast.FunctionDef, ast.AsyncFunctionDef)):
                out.add(s.name)
            elif isinstance(s, ast.AnnAssign) and isinstance(s.target, ast.Name):
                out.add(s.target.id)
            elif isinstance(s, ast.Assign):
                for t in s.targets:
                    if isinstance(t, ast.Name):
                        out.add(t.id)
        for bb in c.bases:
            base = bb.split("[")[0].split(".")[-1]
            if base not in prog.classes and base not in ("object", "Generic", "Protocol"):
                if base in ("list", "dict", "set", "tuple", "str", "Exception", "ValueError", "TypedDict"):
                    out |= set(dir({"list": list, "dict": dict, "set": set, "tuple": tuple, "str": str, "Exception": Exception,
                                    "ValueError": ValueError, "TypedDict": dict}[base]))
                else:
                    return None
    return out | set(dir(object)) | {"__dict__", "__class__", "__slots__", "__dataclass_fields__"}


def unknown_self_attributes(prog: Program, f: Func) -> list[ast.Attribute]:
    owner = f
    while owner.parent is not None:
        owner = owner.parent
    if not owner.cls or owner.kind in ("staticmethod",):
        return []
    selfname = owner.node.args.args[0].arg if owner.node.args.args else None
    if selfname not in ("self",):
        return []
    members = class_members(prog, owner.cls)
    if members is None:
        return []
    # subclasses may define what a base method reads: accept members of any subclass too
    for sub in prog.subclasses(owner.cls):
        m2 = class_members(prog, sub)
        if m2:
            members |= m2
    out = []
    for n in walk_no_nested(f.node):
        if isinstance(n, ast.Attribute) and isinstance(n.ctx, ast.Load) and isinstance(n.value, ast.Name) and n.value.id == selfname \
                and n.attr not in members:
            out.append(n)
    return out


# ------------------------------------------------------------------------------------------------ call signatures
def signature_mismatches(prog: Program, f: Func) -> list[tuple[ast.Call, str]]:
    out = []
    for c in walk_no_nested(f.node):
        if not isinstance(c, ast.Call) or any(isinstance(a, ast.Starred) for a in c.args) or any(k.arg is None for k in c.keywords):
            continue
        tgt = None
        implicit = 0
        if isinstance(c.func, ast.Name):
            g = f
            while g is not None and tgt is None:
                tgt = g.nested.get(c.func.id)
                g = g.parent
            if tgt is None and c.func.id in prog.funcs and prog.funcs[c.func.id].cls is None and c.func.id not in function_bindings(f.node) - {c.func.id}:
                tgt = prog.funcs[c.func.id]
            if tgt is None and c.func.id in prog.classes:
                cls = prog.classes[c.func.id]
                init = prog.method(c.func.id, "__init__")
                if init is not None:
                    tgt, implicit = init, 1
                elif cls.dataclass or any(prog.classes.get(b) and prog.classes[b].dataclass for b in prog.mro(c.func.id)):
                    fields = list(prog.fields(c.func.id))
                    bad = [k.arg for k in c.keywords if k.arg not in fields]
                    if bad and not prog.method(c.func.id, "__new__"):
                        out.append((c, f"{c.func.id}() has no field {bad}"))
                    continue
        elif isinstance(c.func, ast.Attribute) and isinstance(c.func.value, ast.Name) and c.func.value.id == "self":
            owner = f
            while owner.parent is not None:
                owner = owner.parent
            if owner.cls:
                m = prog.method(owner.cls, c.func.attr)
                if m is not None and m.kind in ("method",):
                    # an override in a subclass may differ; only check when no subclass overrides
                    if len(prog.overriders(owner.cls, c.func.attr)) == 1:
                        tgt, implicit = m, 1
        if tgt is None or tgt.node.args.vararg or tgt.node.args.kwarg:
            continue
        if any(norm(d) in ("staticmethod", "classmethod", "property") or "contextmanager" in norm(d) or "cache" in norm(d) for d in tgt.node.decorator_list):
            continue
        a = tgt.node.args
        pos = [x.arg for x in a.posonlyargs + a.args][implicit:]
        kwonly = [x.arg for x in a.kwonlyargs]
        n_def = len(a.defaults)
        required = pos[:len(pos) - n_def] if n_def <= len(pos) else []
        req_kw = [x.arg for x, d in zip(a.kwonlyargs, a.kw_defaults) if d is None]
        if len(c.args) > len(pos):
            out.append((c, f"{tgt.key} takes {len(pos)} positional argument(s), {len(c.args)} given"))
            continue
        given = set(pos[:len(c.args)]) | {k.arg for k in c.keywords}
        unknown = [k.arg for k in c.keywords if k.arg not in pos and k.arg not in kwonly]
        if unknown:
            out.append((c, f"{tgt.key} has no parameter {unknown}"))
        dup = [k.arg for k in c.keywords if k.arg in pos[:len(c.args)]]
        if dup:
            out.append((c, f"{tgt.key} gets {dup} twice"))
        missing = [p_ for p_ in required + req_kw if p_ not in given]
        if missing:
            out.append((c, f"{tgt.key} is called without {missing}"))
    return out


# ------------------------------------------------------------------------------------------------ dead stores
def dead_stores(f: Func) -> list[tuple[ast.AST, str]]:
    """simple-name assignments none of whose values reaches a read (on any path), excluding names read by nested closures,
    `_`-prefixed names, augmented assignments and loop/with/except targets"""
    cfg = CFG(f.node)
    rd = ReachingDefs(cfg)
    nested_loads = set()
    for g in f.nested.values():
        for n in ast.walk(g.node):
            if isinstance(n, ast.Name) and isinstance(n.ctx, ast.Load):
                nested_loads.add(n.id)
    declared = {nm for n in ast.walk(f.node) if isinstance(n, (ast.Nonlocal, ast.Global)) for nm in n.names}
    used_defs = set()
    for node in cfg.nodes:
        if node.ast is None or node.kind in ("def",):
            continue
        if node.kind == "for":
            roots = [node.ast.iter]
        elif node.kind == "with":
            roots = [i.context_expr for i in node.ast.items]
        elif node.kind in ("case", "handler"):
            roots = [node.ast.guard] if node.kind == "case" and node.ast.guard is not None else []
        else:
            roots = [node.ast]
        for r in roots:
            for x in ast.walk(r):
                if isinstance(x, ast.Name) and isinstance(x.ctx, (ast.Load, ast.Del)):
                    for d in rd.defs_at(node, x.id):
                        used_defs.add(id(d) if not isinstance(d, str) else d)
                    # a read in the same statement that also (re)binds the name uses the incoming definitions
        if isinstance(node.ast, ast.AugAssign) and isinstance(node.ast.target, ast.Name):
            for d in rd.defs_at(node, node.ast.target.id):
                used_defs.add(id(d) if not isinstance(d, str) else d)
    out = []
    for node in cfg.nodes:
        a = node.ast
        if isinstance(a, ast.Assign) and len(a.targets) == 1 and isinstance(a.targets[0], ast.Name) and node.kind == "stmt":
            nm = a.targets[0].id
            if nm.startswith("_") or nm in nested_loads or nm in declared:
                continue
            if id(a) not in used_defs:
                out.append((a, nm))
    return out


# ------------------------------------------------------------------------------------------------ discarded results
def discarded_results(prog: Program, f: Func) -> list[ast.Call]:
    """expression statements that call a package function / copy method whose only effect is its return value"""
    out = []
    for n in walk_no_nested(f.node):
        if isinstance(n, ast.Expr) and isinstance(n.value, ast.Call):
            c = n.value
            nm = c.func.attr if isinstance(c.func, ast.Attribute) else getattr(c.func, "id", None)
            if nm in ("model_copy", "replace", "strip", "lstrip", "rstrip", "lower", "upper", "join", "format", "sorted", "reversed",
                      "layout_from_gap", "format_trivia", "trim_leading_layout_trivia", "coerce_expression", "rebuild", "list", "tuple", "dict"):
                if nm == "replace" and isinstance(c.func, ast.Name):
                    out.append(c)
                elif nm != "replace" or isinstance(c.func, ast.Attribute):
                    out.append(c)
    return out


# ------------------------------------------------------------------------------------------------ lazy iterators stored
LAZY_CALLS = {"map", "filter", "zip", "reversed", "iter", "enumerate"}


def stored_lazy_iterators(f: Func) -> list[ast.AST]:
    """a one-shot iterator (map/filter/zip/reversed/generator expression) stored into an attribute, a subscript, or passed
    as a keyword argument to a constructor-like call (capitalised callee): the first consumer empties it"""
    out = []

    def lazy(e) -> bool:
        return isinstance(e, ast.GeneratorExp) or (isinstance(e, ast.Call) and isinstance(e.func, ast.Name) and e.func.id in LAZY_CALLS)

    for n in walk_no_nested(f.node):
        if isinstance(n, ast.Assign) and lazy(n.value) and any(isinstance(t, (ast.Attribute, ast.Subscript)) for t in n.targets):
            out.append(n)
        elif isinstance(n, ast.Call):
            nm = n.func.id if isinstance(n.func, ast.Name) else (n.func.attr if isinstance(n.func, ast.Attribute) else "")
            if nm[:1].isupper() or nm == "cls":
                for k in n.keywords:
                    if k.arg and lazy(k.value):
                        out.append(k.value)
            if nm == "model_copy" or nm == "replace":
                for k in n.keywords:
                    if isinstance(k.value, ast.Dict):
                        for v in k.value.values:
                            if lazy(v):
                                out.append(v)
                    elif k.arg and lazy(k.value):
                        out.append(k.value)
        elif isinstance(n, ast.Dict):
            # layer dictionaries ({"scope": ..., "stack": map(...)})
            for v in n.values:
                if lazy(v):
                    out.append(v)
    return out


# ------------------------------------------------------------------------------------------------ push/pop pairing
def unbalanced_push(f: Func) -> list[tuple[ast.Call, str]]:
    """a list used as a manual stack (both `.append(x)` and `.pop()` without index in the same function): every path from a
    push to the end of the enclosing loop iteration / function must pass a pop"""
    pushes, pops = {}, {}
    for n in walk_no_nested(f.node):
        if isinstance(n, ast.Call) and isinstance(n.func, ast.Attribute) and isinstance(n.func.value, ast.Name):
            if n.func.attr == "append" and len(n.args) == 1:
                pushes.setdefault(n.func.value.id, []).append(n)
            elif n.func.attr == "pop" and not n.args:
                pops.setdefault(n.func.value.id, []).append(n)
    out = []
    stacks = [s for s in pushes if s in pops]
    if not stacks:
        return out
    cfg = CFG(f.node)
    for s in stacks:
        pop_nodes = [cfg.containing(p) for p in pops[s]]
        pop_nodes = [p for p in pop_nodes if p is not None]
        for push in pushes[s]:
            pn = cfg.containing(push)
            if pn is None:
                continue
            # exits: function exit and the header of the innermost loop containing the push (next iteration)
            exits = [cfg.exit]
            for ln in cfg.nodes:
                if ln.kind == "for" and any(push is y for y in ast.walk(ln.ast)):
                    exits.append(ln)
            reach = cfg.reachable(pn, removed_nodes=[p for p in pop_nodes if p is not pn], follow_exc=False)
            leaked = [e for e in exits if e in reach and e is not pn]
            if leaked:
                out.append((push, s))
    return out


# ------------------------------------------------------------------------------------------------ swapped tuple unpacking
GENERIC_WORDS = {"comments", "comment", "trivia", "list", "items", "item", "nodes", "node", "value", "values", "str", "text", "result"}


def _tokens(name: str) -> set[str]:
    return {t for t in name.lower().replace("-", "_").split("_") if len(t) > 2 and t not in GENERIC_WORDS}


def swapped_unpacks(prog: Program, f: Func) -> list[tuple[ast.Assign, str]]:
    """`a, b = g(...)` where g returns `(x, y)` by name and the target names say the opposite order: target i shares a word
    with returned name j != i and none with returned name i"""
    out = []
    for n in walk_no_nested(f.node):
        if not (isinstance(n, ast.Assign) and isinstance(n.targets[0], ast.Tuple) and isinstance(n.value, ast.Call) and isinstance(n.value.func, ast.Name)):
            continue
        g = prog.funcs.get(n.value.func.id)
        if g is None or g.cls is not None:
            continue
        tnames = [t.id if isinstance(t, ast.Name) else None for t in n.targets[0].elts]
        if None in tnames or len(tnames) != 2:
            continue
        rets = [r for r in walk_no_nested(g.node) if isinstance(r, ast.Return) and isinstance(r.value, ast.Tuple) and len(r.value.elts) == 2
                and all(isinstance(e, ast.Name) for e in r.value.elts)]
        if not rets:
            continue
        rn = [e.id for e in rets[-1].value.elts]
        t0, t1, r0, r1 = _tokens(tnames[0]), _tokens(tnames[1]), _tokens(rn[0]), _tokens(rn[1])
        straight = bool(t0 & r0) + bool(t1 & r1)
        crossed = bool(t0 & r1) + bool(t1 & r0)
        if crossed > straight and crossed >= 1 and straight == 0:
            out.append((n, f"{g.key} returns ({rn[0]}, {rn[1]})"))
    return out


# ------------------------------------------------------------------------------------------------ return shape vs unpacking
def return_shape_mismatches(prog: Program, f: Func) -> list[tuple[ast.AST, str]]:
    """callers unpack `a, b = self.helper(...)` / `a, b = helper(...)`: every return of the helper must be a tuple of that many
    elements (or a call / name whose shape is unknown)"""
    out = []
    for n in walk_no_nested(f.node):
        if not (isinstance(n, ast.Assign) and isinstance(n.targets[0], ast.Tuple) and isinstance(n.value, ast.Call)):
            continue
        if any(isinstance(t, ast.Starred) for t in n.targets[0].elts):
            continue
        want = len(n.targets[0].elts)
        g = None
        fn = n.value.func
        if isinstance(fn, ast.Name):
            h = f
            while h is not None and g is None:
                g = h.nested.get(fn.id)
                h = h.parent
            if g is None and fn.id in prog.funcs and prog.funcs[fn.id].cls is None:
                g = prog.funcs[fn.id]
        elif isinstance(fn, ast.Attribute) and isinstance(fn.value, ast.Name) and fn.value.id == "self":
            owner = f
            while owner.parent is not None:
                owner = owner.parent
            if owner.cls:
                g = prog.method(owner.cls, fn.attr)
        if g is None or any("contextmanager" in norm(d) for d in g.node.decorator_list):
            continue
        out.extend(return_shape_problems(g.node, g.key, want, f.key))
    return out


def return_shape_problems(gnode: ast.AST, gkey: str, want: int, fkey: str) -> list[tuple[ast.AST, str]]:
    """returns of helper `gnode` that cannot be unpacked into `want` names (shared with sa/inline.py, which asks the same
    question before it dissolves an unreviewed helper into its caller)"""
    out = []

    class _G:
        node = gnode
        key = gkey

    class _F:
        key = fkey

    g, f = _G, _F
    if True:
        for r in walk_no_nested(g.node):
            if not isinstance(r, ast.Return) or r.value is None:
                continue
            v = r.value
            if isinstance(v, ast.Tuple):
                if not any(isinstance(e, ast.Starred) for e in v.elts) and len(v.elts) != want:
                    out.append((r, f"{g.key} returns {len(v.elts)} values, {f.key} unpacks {want}"))
            elif isinstance(v, (ast.Constant, ast.JoinedStr, ast.List, ast.Dict, ast.Compare, ast.BoolOp)) and not (isinstance(v, ast.Constant) and v.value is None and False):
                out.append((r, f"{g.key} returns `{norm(v)[:30]}` (not a {want}-tuple), {f.key} unpacks {want}"))
            elif isinstance(v, ast.Call) and (
                    (isinstance(v.func, ast.Attribute) and v.func.attr in ("model_copy", "rebuild", "strip", "join", "format"))
                    or (isinstance(v.func, ast.Name) and (v.func.id[:1].isupper() or v.func.id in ("replace", "str", "list", "dict", "layout_from_gap")))):
                out.append((r, f"{g.key} returns `{norm(v)[:40]}` (one object), {f.key} unpacks {want}"))
            elif isinstance(v, ast.Name):
                # a local assigned only from constructor calls / non-tuples
                ds = [d for d in ast.walk(g.node) if isinstance(d, ast.Assign) and len(d.targets) == 1 and norm(d.targets[0]) == v.id]
                if ds and all(isinstance(d.value, ast.Call) and (norm(d.value.func)[:1].isupper() or norm(d.value.func).endswith(("model_copy", "layout_from_gap")))
                              for d in ds):
                    out.append((r, f"{g.key} returns `{v.id}` (a single object), {f.key} unpacks {want}"))
    return out


# ------------------------------------------------------------------------------------------------ regular expressions
def redos_patterns(prog: Program) -> list[tuple[str, ast.AST, str]]:
    """regex literals with an unbounded repeat whose body contains another unbounded repeat (or an alternation with one):
    `(a+)*`, `(?:[ \\t]+|\\r)*` — exponential backtracking on a run of matching characters followed by a mismatch"""
    import re._constants as sc  # type: ignore
    import re._parser as sp  # type: ignore
    out = []

    def unbounded(item) -> bool:
        op, av = item
        return op in (sc.MAX_REPEAT, sc.MIN_REPEAT) and av[1] == sc.MAXREPEAT

    def contains_unbounded(seq) -> bool:
        for op, av in seq:
            if op in (sc.MAX_REPEAT, sc.MIN_REPEAT):
                if av[1] == sc.MAXREPEAT:
                    return True
                if contains_unbounded(av[2]):
                    return True
            elif op == sc.SUBPATTERN:
                if contains_unbounded(av[3]):
                    return True
            elif op == sc.BRANCH:
                if any(contains_unbounded(b) for b in av[1]):
                    return True
        return False

    def nested(seq) -> bool:
        for item in seq:
            op, av = item
            if op in (sc.MAX_REPEAT, sc.MIN_REPEAT):
                if av[1] == sc.MAXREPEAT and contains_unbounded(av[2]):
                    return True
                if nested(av[2]):
                    return True
            elif op == sc.SUBPATTERN and nested(av[3]):
                return True
            elif op == sc.BRANCH and any(nested(b) for b in av[1]):
                return True
        return False

    def scan(mod, node):
        for c in ast.walk(node):
            if isinstance(c, ast.Call) and isinstance(c.func, ast.Attribute) and isinstance(c.func.value, ast.Name) and c.func.value.id == "re" \
                    and c.func.attr in ("compile", "match", "fullmatch", "search", "sub", "split", "findall", "finditer") and c.args \
                    and isinstance(c.args[0], ast.Constant) and isinstance(c.args[0].value, str):
                pat = c.args[0].value
                try:
                    parsed = sp.parse(pat)
                except Exception:
                    continue
                yield c, pat, nested(list(parsed))

    for mod, tree in prog.modules.items():
        for c, pat, bad in scan(mod, tree):
            out.append((mod, c, pat, bad))
    return out
