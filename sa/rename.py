"""M1c: a reviewed function that was renamed or moved keeps its role.

The table of reviewed functions (sa/tables/known_functions.py) stores, for every function, a fingerprint: the set of its
statements with all local names anonymised.  When a reviewed key is gone and a function without a reviewed role has (most of)
that fingerprint — or simply the same name at another nesting level — it is the same function under a new name/place:
the old name is restored in the syntax tree (definition and references), so every rule keeps seeing the function it
reviewed.  Nothing is guessed when the match is not clear (no rename is undone; the ordinary treatment applies)."""
from __future__ import annotations

import ast
import hashlib

from sa.inline import function_keys


def stmt_hashes(fn: ast.AST) -> set[str]:
    from sa.model import alpha
    out = set()
    stack = list(fn.body)
    while stack:
        s = stack.pop()
        if isinstance(s, (ast.FunctionDef, ast.AsyncFunctionDef, ast.ClassDef)):
            continue
        for fld in ("body", "orelse", "finalbody"):
            sub = getattr(s, fld, None)
            if isinstance(sub, list):
                stack.extend(x for x in sub if isinstance(x, ast.stmt))
        for h in getattr(s, "handlers", []) or []:
            stack.extend(h.body)
        for c in getattr(s, "cases", []) or []:
            stack.extend(c.body)
        piece = None
        if isinstance(s, (ast.Assign, ast.AugAssign, ast.AnnAssign, ast.Return, ast.Raise, ast.Expr, ast.Delete, ast.Assert)):
            if isinstance(s, ast.Expr) and isinstance(s.value, ast.Constant):
                continue
            piece = s
        elif isinstance(s, (ast.If, ast.While)):
            piece = s.test
        elif isinstance(s, ast.For):
            piece = s.iter
        if piece is not None:
            try:
                txt = alpha(piece, fn, anonymous=True)
            except Exception:
                continue
            out.add(hashlib.sha1(txt.encode()).hexdigest()[:6])
    return out


def call_profile(modules_or_trees: dict) -> dict:
    """{simple function name: {"callers": {caller key: count}}} over the whole package (calls resolved by simple name)"""
    out: dict = {}
    for rel, tree in modules_or_trees.items():
        for key, node, kind, owner in function_keys(tree):
            stack = list(node.body)
            while stack:
                n = stack.pop()
                if isinstance(n, (ast.FunctionDef, ast.AsyncFunctionDef, ast.ClassDef)):
                    continue
                if isinstance(n, ast.Call):
                    nm = n.func.id if isinstance(n.func, ast.Name) else (n.func.attr if isinstance(n.func, ast.Attribute) else None)
                    if nm:
                        d = out.setdefault(nm, {})
                        d[key] = d.get(key, 0) + 1
                stack.extend(ast.iter_child_nodes(n))
    return out


def arity(node) -> int:
    a = node.args
    return len(a.posonlyargs) + len(a.args) + len(a.kwonlyargs)


def _simple(key: str) -> str:
    last = key.split(".")[-1]
    return last.strip("<>").split("#")[0]


def undo_renames(modules: dict, known_table: dict) -> tuple[list[str], dict]:
    """-> (log, {vanished reviewed key: (module, current key)})"""
    log: list[str] = []
    mapping: dict = {}
    present = {}
    for rel, tree in modules.items():
        for key, node, kind, owner in function_keys(tree):
            present.setdefault(key, []).append((rel, node, kind, owner))
    vanished = [(rel, k) for rel, ks in known_table.items() for k in ks if k not in present]
    if not vanished:
        return log, mapping
    known_keys = {k for ks in known_table.values() for k in ks}
    unknown = [(key, rel, node, kind, owner) for key, lst in present.items() if key not in known_keys for rel, node, kind, owner in lst]
    if not unknown:
        return log, mapping
    hashes = {id(node): stmt_hashes(node) for _k, _r, node, _kd, _o in unknown}
    profile = call_profile(modules)
    taken = set()
    for rel, K in sorted(vanished):
        entry = str(known_table[rel][K]) if isinstance(known_table[rel], dict) else ""
        parts = entry.split("|")
        want = set(parts[0].split())
        want_arity = int(parts[1]) if len(parts) > 1 and parts[1].isdigit() else None
        want_callers = dict((c.rsplit(":", 1)[0], int(c.rsplit(":", 1)[1])) for c in parts[2].split(",") if ":" in c) if len(parts) > 2 else {}
        scored = []
        for key, urel, node, kind, owner in unknown:
            if id(node) in taken:
                continue
            same_name = _simple(key) == _simple(K)
            hs = hashes[id(node)]
            inter = len(want & hs)
            score = (inter / len(want) if want else 0.0)
            back = (inter / len(hs) if hs else 0.0)
            s = 2.0 if same_name else min(score, back) if len(want) >= 3 else (1.0 if want and want == hs else 0.0)
            # who calls it: a helper called from the same functions the same number of times, with the same number of
            # parameters, is the same helper even when its (small) body was rewritten
            cur_callers = {c: n for c, n in profile.get(node.name, {}).items() if c != key}
            if not same_name and want_callers and cur_callers == want_callers and (len(want) <= 2 or min(score, back) >= 0.3):
                # for a function of more than two statements the call profile alone is not evidence: part of the body must
                # be recognisable as well (a *new* helper is often called from the same place as the one it replaces)
                s = max(s, 0.5 + 0.5 * min(score, back) + (0.2 if want_arity == arity(node) else 0.0))
            if urel == rel:
                s += 0.05
            scored.append((s, key, urel, node, kind, owner))
        scored.sort(key=lambda x: -x[0])
        if not scored or scored[0][0] < 0.6:
            continue
        if len(scored) > 1 and scored[1][0] > scored[0][0] - 0.15 and scored[0][0] < 2.0:
            continue  # ambiguous
        s, key, urel, node, kind, owner = scored[0]
        taken.add(id(node))
        old, new = _simple(K), node.name
        if old != new:
            if not _rename(modules, urel, node, kind, owner, new, old):
                continue
            log.append(f"{K}: found again as `{new}` in {urel} (fingerprint {s:.2f}); the reviewed name is restored")
        else:
            log.append(f"{K}: found again at another place ({urel}: {key}); it keeps its reviewed role")
        # key after the rename
        newkey = key[: len(key) - len(key.split(".")[-1])] + key.split(".")[-1].replace(new, old) if old != new else key
        mapping[K] = (urel, newkey)
    return log, mapping


def _rename(modules, rel, node, kind, owner, new: str, old: str) -> bool:
    tree = modules[rel]
    if kind in ("method", "classmethod", "staticmethod"):
        # the old name must be free in the class
        if any(isinstance(s, (ast.FunctionDef, ast.AsyncFunctionDef)) and s.name == old for s in owner.body):
            return False
        node.name = old
        for t in modules.values():
            for n in ast.walk(t):
                if isinstance(n, ast.Attribute) and n.attr == new:
                    n.attr = old
        return True
    scope = owner if kind == "closure" else tree
    for n in ast.walk(scope):
        if n is not node and isinstance(n, (ast.FunctionDef, ast.ClassDef)) and n.name == old and kind != "closure":
            return False
    node.name = old
    targets = [scope]
    if kind != "closure":
        modname = rel[:-3].replace("/", ".")
        for orel, t in modules.items():
            if orel == rel:
                continue
            for n in ast.walk(t):
                if isinstance(n, ast.ImportFrom) and n.module and (n.module == modname or modname.endswith("." + n.module)) and any(a.name == new for a in n.names):
                    for a in n.names:
                        if a.name == new and a.asname is None:
                            a.name = old
                    targets.append(t)
    for t in targets:
        for n in ast.walk(t):
            if isinstance(n, ast.Name) and n.id == new:
                n.id = old
            elif isinstance(n, ast.Constant) and n.value == new and not new.startswith("_"):
                n.value = old
    return True
