"""M1/M2: program model of /repo/nix_manipulator built from `ast` only (nothing is imported or run).

Everything the rules need to *resolve* the program: modules, classes with MRO and dataclass
fields, functions (methods, property getter/setter, nested closures), module-level state and
import aliases.  Function keys are short and stable:  "func", "Class.method",
"Class.prop#setter", "outer.<inner>" for nested functions.
"""
from __future__ import annotations

import ast
import hashlib
import os
import pathlib
from dataclasses import dataclass, field


class AnalysisError(Exception):
    """The instrument cannot decide (anchor vanished, unresolved construct). Exit status 2."""


def repo_root() -> pathlib.Path:
    return pathlib.Path(os.environ.get("SA_ROOT", "/repo"))


@dataclass
class Func:
    key: str
    module: str
    node: ast.FunctionDef
    cls: str | None = None
    parent: "Func | None" = None
    kind: str = "function"  # function | method | classmethod | staticmethod | getter | setter
    nested: dict = field(default_factory=dict)  # name -> Func

    @property
    def name(self) -> str:
        return self.node.name

    @property
    def file(self) -> str:
        return self.module

    def params(self) -> list[str]:
        a = self.node.args
        return [x.arg for x in a.posonlyargs + a.args + a.kwonlyargs]

    def loc(self, node: ast.AST | None = None) -> str:
        n = node if node is not None else self.node
        return f"{self.file}:{getattr(n, 'lineno', 0)}"


@dataclass
class Cls:
    name: str
    module: str
    node: ast.ClassDef
    bases: list[str]
    dataclass: bool
    methods: dict = field(default_factory=dict)  # name -> Func (getter for properties)
    setters: dict = field(default_factory=dict)
    own_fields: dict = field(default_factory=dict)  # name -> (annotation text, default ast | None)
    classvars: dict = field(default_factory=dict)  # name -> value ast


def norm(node: ast.AST) -> str:
    """Normalised statement/expression text (position independent) used in finding keys."""
    try:
        return " ".join(ast.unparse(node).split())
    except Exception:  # pragma: no cover
        return type(node).__name__


def local_names(fn: ast.AST) -> set[str]:
    """names bound inside a function (its whole subtree): assignment targets, loop/with/except/match variables and
    parameters other than self/cls"""
    out: set[str] = set()
    for n in ast.walk(fn):
        if isinstance(n, ast.Name) and isinstance(n.ctx, (ast.Store, ast.Del)):
            out.add(n.id)
        elif isinstance(n, (ast.FunctionDef, ast.AsyncFunctionDef, ast.Lambda)):
            a = n.args
            for x in a.posonlyargs + a.args + a.kwonlyargs:
                if x.arg not in ("self", "cls"):
                    out.add(x.arg)
            if isinstance(n, (ast.FunctionDef, ast.AsyncFunctionDef)) and n is not fn:
                out.add(n.name)
        elif isinstance(n, ast.ExceptHandler) and n.name:
            out.add(n.name)
        elif isinstance(n, (ast.MatchAs, ast.MatchStar)) and n.name:
            out.add(n.name)
    for n in ast.walk(fn):
        if isinstance(n, ast.Global):
            out -= set(n.names)
    return out


_LOCALS_CACHE: dict = {}


def alpha(node: ast.AST, fn: ast.AST | None, anonymous: bool = False) -> str:
    """Normalised text of `node` in which the local names of the enclosing function `fn` are replaced by $1, $2, ...
    in order of first appearance inside `node` (or all by `$` when anonymous): independent of how locals are called."""
    if fn is None:
        return norm(node)
    locs = _LOCALS_CACHE.get(id(fn))
    if locs is None or locs[0] is not fn:
        locs = (fn, local_names(fn))
        _LOCALS_CACHE[id(fn)] = locs
    locs = locs[1]
    import copy
    t = copy.deepcopy(node)
    order: dict[str, str] = {}

    def name_for(x):
        if anonymous:
            return "$"
        if x not in order:
            order[x] = f"${len(order) + 1}"
        return order[x]

    class R(ast.NodeTransformer):
        def visit_Name(self, n):
            if n.id in locs:
                n.id = name_for(n.id)
            return n

        def visit_arg(self, n):
            if n.arg in locs:
                n.arg = name_for(n.arg)
            return n

        def visit_FunctionDef(self, n):
            if n.name in locs:
                n.name = name_for(n.name)
            self.generic_visit(n)
            return n

        def visit_Nonlocal(self, n):
            n.names = [name_for(x) if x in locs else x for x in n.names]
            return n

        def visit_ExceptHandler(self, n):
            if n.name and n.name in locs:
                n.name = name_for(n.name)
            self.generic_visit(n)
            return n

        def visit_keyword(self, n):
            self.generic_visit(n)
            return n

    t = R().visit(t)
    try:
        return " ".join(ast.unparse(t).split())
    except Exception:  # pragma: no cover
        return norm(node)


def canonicalise(tree: ast.Module) -> int:
    """Undo the "extract the test into a variable" refactoring so that every analysis sees one form:

        v = <expr>            if <expr>:
        if v: …       ==>         …            (also `if not v`, `while`-free, `v` used nowhere else in the function)

    The two statements must be adjacent and `v` must have no other use, so evaluation order and meaning are unchanged.
    Returns the number of rewrites."""
    count = 0
    for fn in [n for n in ast.walk(tree) if isinstance(n, (ast.FunctionDef, ast.AsyncFunctionDef))]:
        uses: dict = {}
        for n in ast.walk(fn):
            if isinstance(n, ast.Name):
                uses[n.id] = uses.get(n.id, 0) + 1
            elif isinstance(n, (ast.Nonlocal, ast.Global)):
                for nm in n.names:
                    uses[nm] = uses.get(nm, 0) + 10
        for blk in ast.walk(fn):
            for fld in ("body", "orelse", "finalbody"):
                seq = getattr(blk, fld, None)
                if not (isinstance(seq, list) and len(seq) >= 2 and isinstance(seq[0], ast.stmt)):
                    continue
                i = 0
                while i < len(seq) - 1:
                    a, b = seq[i], seq[i + 1]
                    if isinstance(a, ast.Assign) and len(a.targets) == 1 and isinstance(a.targets[0], ast.Name) and isinstance(b, ast.If):
                        v = a.targets[0].id
                        t = b.test
                        neg = isinstance(t, ast.UnaryOp) and isinstance(t.op, ast.Not)
                        core = t.operand if neg else t
                        if isinstance(core, ast.Name) and core.id == v and uses.get(v, 0) == 2:
                            new_test = a.value if not neg else ast.UnaryOp(op=ast.Not(), operand=a.value)
                            ast.copy_location(new_test, t)
                            b.test = new_test
                            del seq[i]
                            count += 1
                            continue
                    i += 1
    if count:
        ast.fix_missing_locations(tree)
    return count


class Program:
    def __init__(self, root: pathlib.Path | None = None, overlay: dict | None = None):
        """overlay: {relative path: source text} replaces file contents in memory (self-test variants)."""
        self.root = pathlib.Path(root) if root else repo_root()
        self.overlay = overlay or {}
        self.pkg = self.root / "nix_manipulator"
        if not self.pkg.is_dir():
            raise AnalysisError(f"package directory missing: {self.pkg}")
        self.modules: dict[str, ast.Module] = {}
        self.files: dict[str, str] = {}  # module -> path relative to root
        self.sources: dict[str, str] = {}
        self.classes: dict[str, Cls] = {}
        self.funcs: dict[str, Func] = {}
        self.module_funcs: dict[str, list[Func]] = {}
        self.imports: dict[str, dict[str, str]] = {}  # module -> local name -> dotted target
        self.module_assigns: dict[str, dict[str, ast.AST]] = {}
        h = hashlib.sha256()
        for p in sorted(self.pkg.rglob("*.py")):
            rel = p.relative_to(self.root).as_posix()
            src = self.overlay.get(rel)
            if src is None:
                src = p.read_text(encoding="utf-8")
            h.update(rel.encode() + b"\0" + src.encode() + b"\0")
            try:
                tree = ast.parse(src, rel)
            except SyntaxError as exc:
                raise AnalysisError(f"{rel} does not parse: {exc}") from exc
            canonicalise(tree)
            self.modules[rel] = tree
            self.files[rel] = rel
            self.sources[rel] = src
        self.inline_findings: list = []
        self.renamed: dict = {}
        self._known_pairs: set = set()
        self.inline_log = self._inline_unreviewed_helpers()
        for rel, tree in self.modules.items():
            self._index_module(rel, tree)
        for old_key, (_rel, new_key) in self.renamed.items():  # the reviewed key keeps resolving (closure moved to module level …)
            f = self.funcs.get(new_key)
            if f is None:
                continue
            self.funcs.setdefault(old_key, f)
            if ".<" in old_key:
                parent_key, nm = old_key.rsplit(".<", 1)
                parent = self.funcs.get(parent_key)
                if parent is not None:
                    parent.nested.setdefault(nm.rstrip(">"), f)
        self.digest = h.hexdigest()
        if len(self.modules) < 40:
            raise AnalysisError(f"only {len(self.modules)} modules parsed (floor 40)")

    def _inline_unreviewed_helpers(self) -> list[str]:
        """functions that are not in the reviewed table are analysed in the context of their callers (sa/inline.py)"""
        from sa.inline import function_keys, inline_unknown_helpers
        from sa.rename import undo_renames
        from sa.tables.known_functions import KNOWN_FUNCTIONS
        rlog, self.renamed = undo_renames(self.modules, KNOWN_FUNCTIONS)
        present = {rel: {k for k, *_ in function_keys(tree)} for rel, tree in self.modules.items()}
        known = set()
        unknown = False
        found_again = {(rel, k) for rel, k in self.renamed.values()}
        for rel, keys in present.items():
            for k in keys:
                if k in KNOWN_FUNCTIONS.get(rel, ()) or (rel, k) in found_again:
                    known.add((rel, k))
                    continue
                homes = [m for m, ks in KNOWN_FUNCTIONS.items() if k in ks]
                if homes and not any(k in present.get(m, ()) for m in homes):
                    known.add((rel, k))  # a reviewed function that moved to another module keeps its role
                else:
                    unknown = True
        self._known_pairs = known
        rlog += self._inline_new_constants()
        if not unknown:
            return rlog
        log, self.inline_findings = inline_unknown_helpers(self.modules, known)
        if log:
            for tree in self.modules.values():
                canonicalise(tree)
        return rlog + log

    # ------------------------------------------------------------------ indexing
    def _index_module(self, mod: str, tree: ast.Module) -> None:
        self.imports[mod] = {}
        self.module_assigns[mod] = {}
        self.module_funcs[mod] = []

        def visit_top(stmts):
            for n in stmts:
                if isinstance(n, (ast.Import, ast.ImportFrom)):
                    self._index_import(mod, n)
                elif isinstance(n, ast.ClassDef):
                    self._index_class(mod, n)
                elif isinstance(n, (ast.FunctionDef, ast.AsyncFunctionDef)):
                    if n.name not in self.funcs:  # first definition wins (try/except fallbacks)
                        f = Func(n.name, mod, n)
                        self.funcs[n.name] = f
                        self.module_funcs[mod].append(f)
                        self._index_nested(f)
                elif isinstance(n, ast.Assign):
                    for t in n.targets:
                        if isinstance(t, ast.Name):
                            self.module_assigns[mod][t.id] = n.value
                elif isinstance(n, ast.AnnAssign) and isinstance(n.target, ast.Name) and n.value is not None:
                    self.module_assigns[mod][n.target.id] = n.value
                elif isinstance(n, ast.Try):
                    visit_top(n.body)
                    for hd in n.handlers:
                        visit_top(hd.body)
                elif isinstance(n, ast.If):
                    visit_top(n.body)
                    visit_top(n.orelse)

        visit_top(tree.body)

    def _index_import(self, mod: str, n) -> None:
        if isinstance(n, ast.Import):
            for a in n.names:
                self.imports[mod][a.asname or a.name.split(".")[0]] = a.name
        else:
            base = n.module or ""
            for a in n.names:
                self.imports[mod][a.asname or a.name] = f"{base}.{a.name}"

    def _index_class(self, mod: str, n: ast.ClassDef) -> None:
        bases = []
        for b in n.bases:
            if isinstance(b, ast.Name):
                bases.append(b.id)
            elif isinstance(b, ast.Subscript) and isinstance(b.value, ast.Name):
                bases.append(b.value.id)
            elif isinstance(b, ast.Attribute):
                bases.append(b.attr)
        is_dc = any("dataclass" in ast.unparse(d) for d in n.decorator_list)
        c = Cls(n.name, mod, n, bases, is_dc)
        self.classes[n.name] = c
        for s in n.body:
            if isinstance(s, ast.AnnAssign) and isinstance(s.target, ast.Name):
                ann = ast.unparse(s.annotation)
                if ann.startswith("ClassVar"):
                    if s.value is not None:
                        c.classvars[s.target.id] = s.value
                else:
                    c.own_fields[s.target.id] = (ann, s.value)
            elif isinstance(s, ast.Assign):
                for t in s.targets:
                    if isinstance(t, ast.Name):
                        c.classvars[t.id] = s.value
            elif isinstance(s, (ast.FunctionDef, ast.AsyncFunctionDef)):
                decos = [ast.unparse(d) for d in s.decorator_list]
                kind = "method"
                if "classmethod" in decos:
                    kind = "classmethod"
                elif "staticmethod" in decos:
                    kind = "staticmethod"
                elif "property" in decos:
                    kind = "getter"
                elif any(d.endswith(".setter") for d in decos):
                    kind = "setter"
                key = f"{n.name}.{s.name}" + ("#setter" if kind == "setter" else "")
                f = Func(key, mod, s, cls=n.name, kind=kind)
                self.funcs[key] = f
                if kind == "setter":
                    c.setters[s.name] = f
                else:
                    c.methods[s.name] = f
                self._index_nested(f)

    def _index_nested(self, f: Func) -> None:
        def walk(stmts):
            for s in stmts:
                if isinstance(s, (ast.FunctionDef, ast.AsyncFunctionDef)):
                    g = Func(f"{f.key}.<{s.name}>", f.module, s, cls=f.cls, parent=f, kind="closure")
                    f.nested[s.name] = g
                    self.funcs[g.key] = g
                    self._index_nested(g)
                elif isinstance(s, ast.ClassDef):
                    continue
                else:
                    for fld in ("body", "orelse", "finalbody"):
                        sub = getattr(s, fld, None)
                        if isinstance(sub, list):
                            walk(sub)
                    for hd in getattr(s, "handlers", []) or []:
                        walk(hd.body)
                    for cs in getattr(s, "cases", []) or []:
                        walk(cs.body)

        walk(f.node.body)

    def _inline_new_constants(self) -> list[str]:
        """a module-level scalar constant that the reviewed tree does not have (`_SCOPE_SELECTOR = "@"`, a message, an encoding
        name) is read as its literal value wherever it is used: "turn a repeated literal into a constant" leaves every rule
        looking at the literal it reviewed"""
        from sa.tables.known_functions import KNOWN_MODULE_NAMES
        log = []
        for rel, tree in self.modules.items():
            known = set(KNOWN_MODULE_NAMES.get(rel, ()))
            consts = {}
            for st in tree.body:
                if isinstance(st, (ast.Assign, ast.AnnAssign)) and getattr(st, "value", None) is not None:
                    tg = st.targets if isinstance(st, ast.Assign) else [st.target]
                    v = st.value
                    if len(tg) == 1 and isinstance(tg[0], ast.Name) and tg[0].id not in known and isinstance(v, ast.Constant) \
                            and isinstance(v.value, (str, int, float, bytes, bool, type(None))):
                        consts[tg[0].id] = v
            # never rebound anywhere in the module
            for n in ast.walk(tree):
                if isinstance(n, ast.Name) and isinstance(n.ctx, (ast.Store, ast.Del)) and n.id in consts:
                    defs = [st for st in tree.body if isinstance(st, (ast.Assign, ast.AnnAssign)) and n in ast.walk(st)]
                    if not defs:
                        consts.pop(n.id, None)
            if not consts:
                continue
            users = [(rel, tree)]
            modname = rel[:-3].replace("/", ".")
            for orel, otree in self.modules.items():
                if orel != rel and any(isinstance(n, ast.ImportFrom) and n.module and (n.module == modname or modname.endswith("." + n.module))
                                       and any(a.name in consts and a.asname is None for a in n.names) for n in ast.walk(otree)):
                    users.append((orel, otree))

            class Rep(ast.NodeTransformer):
                def visit_Name(self, n):
                    if isinstance(n.ctx, ast.Load) and n.id in consts:
                        return ast.copy_location(ast.Constant(value=consts[n.id].value), n)
                    return n

            for _orel, otree in users:
                Rep().visit(otree)
                ast.fix_missing_locations(otree)
            log.append(f"{rel}: new constant(s) {sorted(consts)} read as their literal values")
        return log

    def reviewed_key(self, key: str) -> str:
        """the key under which reviewed tables know the function `key`: its former key when it was renamed/moved; for a
        function without a reviewed role (a new helper that could not be dissolved into its callers) the key of its caller"""
        for old, (_rel, new) in self.renamed.items():
            if new == key:
                return old
        f = self.funcs.get(key)
        if f is None:
            return key
        if (f.module, key) in getattr(self, "_known_pairs", set()) or not hasattr(self, "_known_pairs"):
            return key
        # who names it: calls, and references handed on as a value (callbacks, functools.partial)
        callers = sorted(g.key for g in self.funcs.values() if g is not f and any(
            (isinstance(c, ast.Name) and c.id == f.name and isinstance(c.ctx, ast.Load)) or (isinstance(c, ast.Attribute) and c.attr == f.name)
            for c in walk_no_nested(g.node)))
        callers = [c for c in callers if (self.funcs[c].module, c) in self._known_pairs]
        return callers[0] if len(set(callers)) == 1 else key

    # ------------------------------------------------------------------ queries
    def func(self, key: str) -> Func:
        f = self.funcs.get(key)
        if f is None:
            raise AnalysisError(f"anchor function vanished: {key}")
        return f

    def has_func(self, key: str) -> bool:
        return key in self.funcs

    def cls(self, name: str) -> Cls:
        c = self.classes.get(name)
        if c is None:
            raise AnalysisError(f"anchor class vanished: {name}")
        return c

    def mro(self, cname: str) -> list[str]:
        out: list[str] = []

        def go(n):
            if n in out:
                return
            out.append(n)
            c = self.classes.get(n)
            if c:
                for b in c.bases:
                    go(b)

        go(cname)
        return out

    def is_subclass(self, cname: str, base: str) -> bool:
        return base in self.mro(cname)

    def subclasses(self, base: str) -> list[str]:
        return [c for c in self.classes if base in self.mro(c)]

    def method(self, cname: str, mname: str) -> Func | None:
        for c in self.mro(cname):
            k = self.classes.get(c)
            if k and mname in k.methods:
                return k.methods[mname]
        return None

    def setter(self, cname: str, pname: str) -> Func | None:
        for c in self.mro(cname):
            k = self.classes.get(c)
            if k and pname in k.setters:
                return k.setters[pname]
        return None

    def own_method(self, cname: str, mname: str) -> Func | None:
        k = self.classes.get(cname)
        return k.methods.get(mname) if k else None

    def fields(self, cname: str) -> dict[str, tuple[str, ast.AST | None]]:
        res: dict[str, tuple[str, ast.AST | None]] = {}
        for c in reversed(self.mro(cname)):
            k = self.classes.get(c)
            if k:
                res.update(k.own_fields)
        return res

    def expression_classes(self) -> list[str]:
        return [c for c in self.classes if "NixExpression" in self.mro(c)]

    def overriders(self, cname: str, mname: str) -> list[Func]:
        """All implementations of `mname` in `cname` and its subclasses."""
        out = []
        for c in self.subclasses(cname):
            f = self.own_method(c, mname)
            if f is not None and f not in out:
                out.append(f)
        base = self.method(cname, mname)
        if base is not None and base not in out:
            out.insert(0, base)
        return out

    @staticmethod
    def shadowed(f, name: str) -> bool:
        """`name`, used in function f, is a parameter of f or of a function enclosing it: a call through it is a call of
        whatever the caller passed (a callback), never of a package function that happens to have the same name"""
        if name in ("cls", "self"):
            return False  # `cls(...)` constructs the class
        g = f
        while g is not None:
            try:
                if name in g.params():
                    return True
            except Exception:
                pass
            g = g.parent
        return False

    def resolve_name(self, mod: str, name: str):
        """Resolve a plain name used in `mod` to a package function / class, else None."""
        if name in self.classes and (self.classes[name].module == mod or name in self.imports.get(mod, {})):
            return self.classes[name]
        f = self.funcs.get(name)
        if f is not None and f.cls is None and (f.module == mod or name in self.imports.get(mod, {})):
            return f
        return None

    def closure_funcs(self, f: Func) -> list[Func]:
        """f and all functions nested in it."""
        out = [f]
        for g in f.nested.values():
            out.extend(self.closure_funcs(g))
        return out

    def all_functions(self) -> list[Func]:
        return list(self.funcs.values())


def walk_no_nested(node: ast.AST):
    """ast.walk that does not descend into nested function/class definitions (but yields them)."""
    todo = [node]
    first = True
    while todo:
        n = todo.pop()
        yield n
        if not first and isinstance(n, (ast.FunctionDef, ast.AsyncFunctionDef, ast.ClassDef, ast.Lambda)):
            continue
        first = False
        todo.extend(ast.iter_child_nodes(n))


def call_name(call: ast.Call) -> str | None:
    f = call.func
    if isinstance(f, ast.Name):
        return f.id
    if isinstance(f, ast.Attribute):
        return f.attr
    return None


def kwarg(call: ast.Call, name: str, pos: int | None = None) -> ast.AST | None:
    for k in call.keywords:
        if k.arg == name:
            return k.value
    if pos is not None and len(call.args) > pos:
        return call.args[pos]
    return None
