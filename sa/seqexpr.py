"""Canonical form of the tuple/list expressions that build scope chains, so that rules compare *which sequence* an expression
denotes and not how it is spelled:

    tuple(reversed(L[i:]))            -> ("slice", "L", "i", 0, True)
    chain[:-1]  with chain as above   -> ("slice", "L", "i", 1, True)      (dropping the last of a reversed suffix)
    tuple(list(X) + [y]), (*X, y), [*X, y], X + (y,)   -> ("cat", (("splice", <X>), ("item",)))
    A if <cond> else ()               -> canonical form of A   (an out-of-range slice is the empty tuple anyway)
"""
from __future__ import annotations

import ast

from sa.model import norm


def _lin(e: ast.AST):
    """index expression as (name | None, constant)"""
    if isinstance(e, ast.Constant) and isinstance(e.value, int):
        return (None, e.value)
    if isinstance(e, ast.Name):
        return (e.id, 0)
    if isinstance(e, ast.BinOp) and isinstance(e.op, (ast.Add, ast.Sub)):
        a, b = _lin(e.left), _lin(e.right)
        if a is None or b is None:
            return None
        sg = 1 if isinstance(e.op, ast.Add) else -1
        if b[0] is not None and (sg == -1 or a[0] is not None):
            return None
        return (a[0] if a[0] is not None else b[0], a[1] + sg * b[1])
    if isinstance(e, ast.UnaryOp) and isinstance(e.op, ast.USub) and isinstance(e.operand, ast.Constant):
        return (None, -e.operand.value)
    return None


def canon(e: ast.AST, resolve=None, depth: int = 0):
    """resolve(name) -> defining expression of a single-definition local, or None"""
    if depth > 8 or e is None:
        return None
    if isinstance(e, ast.Name):
        d = resolve(e.id) if resolve else None
        if d is not None:
            c = canon(d, resolve, depth + 1)
            if c is not None:
                return c
        return ("slice", e.id, None, 0, False)
    if isinstance(e, ast.Call) and isinstance(e.func, ast.Name) and e.func.id in ("tuple", "list") and len(e.args) == 1 and not e.keywords:
        return canon(e.args[0], resolve, depth + 1)
    if isinstance(e, ast.Call) and isinstance(e.func, ast.Name) and e.func.id in ("tuple", "list") and not e.args:
        return ("cat", ())
    if isinstance(e, ast.Call) and isinstance(e.func, ast.Name) and e.func.id == "reversed" and len(e.args) == 1:
        c = canon(e.args[0], resolve, depth + 1)
        if c is not None and c[0] == "slice":
            return ("slice", c[1], c[2], c[3], not c[4])
        return None
    if isinstance(e, ast.IfExp):
        a, b = canon(e.body, resolve, depth + 1), canon(e.orelse, resolve, depth + 1)
        if b == ("cat", ()) and a is not None and a[0] == "slice":
            return a
        if a == ("cat", ()) and b is not None and b[0] == "slice":
            return b
        return a if a == b else None
    if isinstance(e, ast.Subscript) and isinstance(e.slice, ast.Slice) and e.slice.step is None:
        c = canon(e.value, resolve, depth + 1)
        if c is None or c[0] != "slice":
            return None
        lo, hi = e.slice.lower, e.slice.upper
        if hi is None and lo is not None and not c[4]:
            l = _lin(lo)
            if l is None:
                return None
            if c[2] is None and c[3] == 0:
                return ("slice", c[1], l[0], l[1], False)
            if l[0] is None:
                return ("slice", c[1], c[2], c[3] + l[1], False)
            return None
        if lo is None and hi is not None and c[4]:
            h = _lin(hi)
            if h is not None and h[0] is None and h[1] < 0:
                return ("slice", c[1], c[2], c[3] - h[1], True)  # dropping the last k of a reversed suffix
        return None
    if isinstance(e, (ast.Tuple, ast.List)):
        parts = []
        for x in e.elts:
            if isinstance(x, ast.Starred):
                c = canon(x.value, resolve, depth + 1)
                if c is None:
                    return None
                parts.append(("splice", c))
            else:
                parts.append(("item",))
        return ("cat", tuple(parts))
    if isinstance(e, ast.BinOp) and isinstance(e.op, ast.Add):
        a, b = canon(e.left, resolve, depth + 1), canon(e.right, resolve, depth + 1)
        if a is None or b is None:
            return None
        pa = a[1] if a[0] == "cat" else (("splice", a),)
        pb = b[1] if b[0] == "cat" else (("splice", b),)
        return ("cat", tuple(pa) + tuple(pb))
    return None


def single_def_resolver(fn: ast.AST):
    """resolve() for canon: locals of fn with exactly one plain assignment"""
    from sa.model import walk_no_nested
    counts: dict = {}
    defs: dict = {}
    a = getattr(fn, "args", None)
    if a is not None:
        for x in a.posonlyargs + a.args + a.kwonlyargs:
            counts[x.arg] = counts.get(x.arg, 0) + 1
    for n in walk_no_nested(fn):  # nested functions have their own names
        if isinstance(n, ast.Name) and isinstance(n.ctx, ast.Store):
            counts[n.id] = counts.get(n.id, 0) + 1
    for n in walk_no_nested(fn):
        if isinstance(n, ast.Assign) and len(n.targets) == 1 and isinstance(n.targets[0], ast.Name) and counts.get(n.targets[0].id) == 1:
            defs[n.targets[0].id] = n.value
        elif isinstance(n, ast.AnnAssign) and isinstance(n.target, ast.Name) and n.value is not None and counts.get(n.target.id) == 1:
            defs[n.target.id] = n.value
    return lambda name: defs.get(name)


def whole(name: str):
    return ("slice", name, None, 0, False)


def appended(name: str):
    """the sequence `name` followed by one more element"""
    return ("cat", (("splice", whole(name)), ("item",)))
