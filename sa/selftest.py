"""M7 thorough tier: two-way test of the instrument on seeded source variants (scratch copy, never /repo)."""
from __future__ import annotations


def run(prop: str, seed: int) -> dict:
    from sa import variants
    return variants.run(prop, seed)
