"""M1b: context-sensitive treatment of helpers that have no reviewed summary — they are inlined into their callers.

The rules of this framework are instances confirmed on a reviewed tree; the table `sa/tables/known_functions.py` lists
the functions of that tree.  A function that is *not* in the table (an "extract helper" refactoring, or a helper that
comes with a change) has no reviewed role, so instead of guessing one it is analysed in the context of every caller:
its body is substituted for the call, which is the textbook way of making an intraprocedural rule interprocedural
(inlining with bound 1 per helper, iterated to a fixpoint for helpers that call helpers; recursive helpers stay calls).
On the reviewed tree nothing is inlined, so this pass cannot change any verdict there.

Forms
  expression   helper body is `return E` (after folding single-use locals and `if c: return A` chains into
               conditional expressions): the call becomes E[args/params] wherever it stands.
  statement    the call is the whole value of `return …`, `<target> = …`, an expression statement, or an `if` test:
               the body is spliced in; `return E` becomes `return E` / `<target> = E` / nothing, guard-clause returns
               become if/else nesting, a `return` inside a search loop becomes `<target> = E; break` with the code after
               the loop moved to the loop's `else:`.
A helper whose shape allows neither stays a call (and its definition stays), exactly as before this pass existed.
"""
from __future__ import annotations

import ast
import copy
import itertools

MAX_STMTS = 80


class Cannot(Exception):
    pass


# ------------------------------------------------------------------------------------------------ helper candidates
def _own_nodes(fn):
    """nodes of fn's body, not descending into nested defs / classes (lambdas and comprehensions are descended)"""
    stack = list(fn.body)
    while stack:
        n = stack.pop()
        yield n
        if isinstance(n, (ast.FunctionDef, ast.AsyncFunctionDef, ast.ClassDef)):
            continue
        stack.extend(ast.iter_child_nodes(n))


def _candidate(node) -> bool:
    if not isinstance(node, ast.FunctionDef):
        return False
    if node.name.startswith("__") and node.name.endswith("__"):
        return False
    for d in node.decorator_list:
        if not (isinstance(d, ast.Name) and d.id in ("staticmethod", "classmethod")):
            return False
    a = node.args
    if a.vararg or a.kwarg:
        return False
    count = 0
    for n in _own_nodes(node):
        if isinstance(n, (ast.Yield, ast.YieldFrom, ast.Await, ast.Nonlocal, ast.Global, ast.FunctionDef, ast.AsyncFunctionDef, ast.ClassDef)):
            return False
        if isinstance(n, ast.stmt):
            count += 1
        if isinstance(n, ast.Name) and n.id == node.name:
            return False  # recursion (or passes itself around)
        if isinstance(n, ast.Attribute) and n.attr == node.name:
            return False
        if isinstance(n, ast.Call) and isinstance(n.func, ast.Name) and n.func.id == "super":
            return False
    return count <= MAX_STMTS


class Helper:
    def __init__(self, key, module, node, kind, owner):
        self.key = key  # Program-style key
        self.module = module
        self.node = node
        self.kind = kind  # function | method | classmethod | staticmethod | closure
        self.owner = owner  # ClassDef / enclosing FunctionDef / Module
        self.sites = 0
        self.inlined = 0

    @property
    def name(self):
        return self.node.name

    def params(self):
        a = self.node.args
        ps = a.posonlyargs + a.args
        if self.kind in ("method", "classmethod") and ps:
            return ps[0].arg, ps[1:], a.kwonlyargs
        return None, ps, a.kwonlyargs


def _body(fn):
    b = list(fn.body)
    if b and isinstance(b[0], ast.Expr) and isinstance(b[0].value, ast.Constant) and isinstance(b[0].value.value, str):
        b = b[1:]
    return b


def function_keys(tree: ast.Module):
    """(key, node, kind, owner) of every function of a module, keys as sa.model.Program builds them"""
    out = []

    def nested(prefix, fn):
        def walk(stmts):
            for s in stmts:
                if isinstance(s, (ast.FunctionDef, ast.AsyncFunctionDef)):
                    k = f"{prefix}.<{s.name}>"
                    out.append((k, s, "closure", fn))
                    nested(k, s)
                elif isinstance(s, ast.ClassDef):
                    continue
                else:
                    for fld in ("body", "orelse", "finalbody"):
                        sub = getattr(s, fld, None)
                        if isinstance(sub, list):
                            walk(sub)
                    for hd in getattr(s, "handlers", []) or []:
                        walk(hd.body)
                    for cs in getattr(s, "cases", []) or []:
                        walk(cs.body)

        walk(fn.body)

    def top(stmts):
        for n in stmts:
            if isinstance(n, (ast.FunctionDef, ast.AsyncFunctionDef)):
                out.append((n.name, n, "function", tree))
                nested(n.name, n)
            elif isinstance(n, ast.ClassDef):
                for s in n.body:
                    if isinstance(s, (ast.FunctionDef, ast.AsyncFunctionDef)):
                        decos = [ast.unparse(d) for d in s.decorator_list]
                        kind = "method"
                        if "classmethod" in decos:
                            kind = "classmethod"
                        elif "staticmethod" in decos:
                            kind = "staticmethod"
                        elif "property" in decos:
                            kind = "getter"
                        elif any(d.endswith(".setter") for d in decos):
                            kind = "setter"
                        k = f"{n.name}.{s.name}" + ("#setter" if kind == "setter" else "")
                        out.append((k, s, kind, n))
                        nested(k, s)
            elif isinstance(n, ast.Try):
                top(n.body)
                for hd in n.handlers:
                    top(hd.body)
            elif isinstance(n, ast.If):
                top(n.body)
                top(n.orelse)

    top(tree.body)
    return out


# ------------------------------------------------------------------------------------------------ substitution
class _Subst(ast.NodeTransformer):
    def __init__(self, exprs: dict, renames: dict):
        self.exprs = exprs
        self.renames = renames

    def visit_Name(self, n):
        if n.id in self.exprs and isinstance(n.ctx, ast.Load):
            return copy.deepcopy(self.exprs[n.id])
        if n.id in self.renames:
            return ast.copy_location(ast.Name(id=self.renames[n.id], ctx=n.ctx), n)
        return n

    def visit_arg(self, n):  # lambda parameters shadowing: leave
        return n

    def visit_ExceptHandler(self, n):
        if n.name and n.name in self.renames:
            n.name = self.renames[n.name]
        self.generic_visit(n)
        return n


def _simple(e) -> bool:
    if isinstance(e, (ast.Name, ast.Constant)):
        return True
    if isinstance(e, ast.Attribute):
        return _simple(e.value)
    return False


def _bound_names(fn) -> set:
    out = set()
    for n in _own_nodes(fn):
        if isinstance(n, ast.Name) and isinstance(n.ctx, (ast.Store, ast.Del)):
            out.add(n.id)
        elif isinstance(n, ast.ExceptHandler) and n.name:
            out.add(n.name)
        elif isinstance(n, (ast.MatchAs, ast.MatchStar)) and n.name:
            out.add(n.name)
        elif isinstance(n, (ast.Import, ast.ImportFrom)):
            pass  # imported names keep their spelling
    return out


def _comprehension_targets(fn) -> set:
    out = set()
    for n in _own_nodes(fn):
        if isinstance(n, ast.comprehension):
            for t in ast.walk(n.target):
                if isinstance(t, ast.Name):
                    out.add(t.id)
    return out


def _bind(h: Helper, call: ast.Call, receiver):
    """-> {param: arg expr} in evaluation order; raises Cannot on starred / unknown keywords / missing args"""
    selfname, pos, kwonly = h.params()
    if any(isinstance(a, ast.Starred) for a in call.args) or any(k.arg is None for k in call.keywords):
        raise Cannot("star args")
    if len(call.args) > len(pos):
        raise Cannot("too many positionals")
    bound = {}
    if selfname is not None:
        if receiver is None:
            raise Cannot("no receiver")
        bound[selfname] = receiver
    for p, a in zip(pos, call.args):
        bound[p.arg] = a
    names = {p.arg for p in pos + kwonly}
    for k in call.keywords:
        if k.arg not in names or k.arg in bound:
            raise Cannot("keyword")
        bound[k.arg] = k.value
    a = h.node.args
    defaults = dict(zip([p.arg for p in pos][len(pos) - len(a.defaults):], a.defaults)) if a.defaults else {}
    for p, d in zip(kwonly, a.kw_defaults):
        if d is not None:
            defaults[p.arg] = d
    for p in pos + kwonly:
        if p.arg not in bound:
            if p.arg not in defaults:
                raise Cannot("missing argument")
            bound[p.arg] = defaults[p.arg]
    return bound


_counter = itertools.count(1)


def _uses(stmts_or_node, name) -> int:
    nodes = stmts_or_node if isinstance(stmts_or_node, list) else [stmts_or_node]
    c = 0
    for s in nodes:
        for n in ast.walk(s):
            if isinstance(n, ast.Name) and n.id == name:
                c += 1
    return c


# ------------------------------------------------------------------------------------------------ expression form
def _as_expression(h: Helper):
    """the helper as one expression over its parameters, or None"""
    assigned = {}
    for n in _own_nodes(h.node):
        if isinstance(n, ast.Name) and isinstance(n.ctx, ast.Store):
            assigned[n.id] = assigned.get(n.id, 0) + 1
    pnames = {p.arg for p in h.node.args.posonlyargs + h.node.args.args + h.node.args.kwonlyargs}
    if assigned.keys() & pnames:
        return None

    def go(stmts, env):
        if not stmts:
            return ast.Constant(value=None)
        s, rest = stmts[0], stmts[1:]
        if isinstance(s, ast.Return):
            e = s.value if s.value is not None else ast.Constant(value=None)
            return _Subst(env, {}).visit(copy.deepcopy(e))
        if isinstance(s, ast.Expr) and isinstance(s.value, ast.Constant):
            return go(rest, env)
        if isinstance(s, ast.Assign) and len(s.targets) == 1 and isinstance(s.targets[0], ast.Name):
            v = s.targets[0].id
            if assigned.get(v) != 1 or v in _comprehension_targets(h.node):
                return None
            val = _Subst(env, {}).visit(copy.deepcopy(s.value))
            if _uses(rest, v) > 1 and not _simple(val):
                return None
            return go(rest, {**env, v: val})
        if isinstance(s, ast.If):
            if not _always_leaves(s.body):
                return None
            a = go(s.body, env)
            b = go(s.orelse if _always_leaves(s.orelse) else s.orelse + rest, env)
            if a is None or b is None:
                return None
            return ast.IfExp(test=_Subst(env, {}).visit(copy.deepcopy(s.test)), body=a, orelse=b)
        return None

    body = _body(h.node)
    if any(isinstance(n, ast.Raise) for s in body for n in ast.walk(s)):
        return None
    e = go(body, {})
    return e


def _always_leaves(stmts) -> bool:
    if not stmts:
        return False
    s = stmts[-1]
    if isinstance(s, (ast.Return, ast.Raise, ast.Continue, ast.Break)):
        return True
    if isinstance(s, ast.If):
        return bool(s.orelse) and _always_leaves(s.body) and _always_leaves(s.orelse)
    if isinstance(s, ast.With):
        return _always_leaves(s.body)
    if isinstance(s, ast.Try):
        return _always_leaves(s.body) and all(_always_leaves(hd.body) for hd in s.handlers) and not s.orelse if not s.finalbody else False
    if isinstance(s, ast.Match):
        return False
    return False


def _has_return(node_or_list) -> bool:
    nodes = node_or_list if isinstance(node_or_list, list) else [node_or_list]
    for s in nodes:
        for n in ast.walk(s):
            if isinstance(n, ast.Return):
                return True
    return False


# ------------------------------------------------------------------------------------------------ statement form
def _elim(stmts, mk):
    """rewrite a statement list so that `return E` becomes mk(E) and control then reaches the end of the list"""
    out = []
    for i, s in enumerate(stmts):
        if isinstance(s, ast.Return):
            out.extend(mk(s.value, s))
            return out
        if not _has_return(s):
            out.append(s)
            continue
        rest = stmts[i + 1:]
        if isinstance(s, ast.If):
            body = _elim(s.body + (copy.deepcopy(rest) if not _always_leaves(s.body) else []), mk)
            orelse = _elim(s.orelse + (copy.deepcopy(rest) if not _always_leaves(s.orelse) else []), mk)
            # a branch that leaves by `raise` keeps leaving; one that returned now falls to the end of the list
            out.append(_mk_if(s.test, body, orelse, s))
            return out
        if isinstance(s, ast.Try):
            # a flag says "the helper has returned": set where a return stood, it guards the else-clause and whatever follows
            flag = f"_ret{next(_counter)}"

            def mk_flag(v, at, mk=mk, flag=flag):
                return mk(v, at) + [ast.copy_location(ast.Assign(targets=[ast.Name(id=flag, ctx=ast.Store())], value=ast.Constant(value=True), lineno=getattr(at, "lineno", 0)), at)]

            def guard(stmts_):
                return [ast.copy_location(ast.If(test=ast.UnaryOp(op=ast.Not(), operand=ast.Name(id=flag, ctx=ast.Load())), body=stmts_, orelse=[]), s)] if stmts_ else []

            new_try = ast.copy_location(ast.Try(
                body=_elim(s.body, mk_flag) or [ast.copy_location(ast.Pass(), s)],
                handlers=[ast.copy_location(ast.ExceptHandler(type=h.type, name=h.name, body=_elim(h.body, mk_flag) or [ast.copy_location(ast.Pass(), h)]), h) for h in s.handlers],
                orelse=guard(_elim(s.orelse, mk_flag)) if s.orelse else [],
                finalbody=s.finalbody), s)
            out.append(ast.copy_location(ast.Assign(targets=[ast.Name(id=flag, ctx=ast.Store())], value=ast.Constant(value=False), lineno=getattr(s, "lineno", 0)), s))
            out.append(new_try)
            out.extend(guard(_elim(rest, mk)))
            return out
        if isinstance(s, ast.With):
            if rest:
                raise Cannot("return inside with followed by code")
            out.append(ast.copy_location(ast.With(items=s.items, body=_elim(s.body, mk) or [ast.copy_location(ast.Pass(), s)]), s))
            return out
        if isinstance(s, ast.For) and any(isinstance(n, ast.Break) for b in s.body for n in ast.walk(b)):
            # the loop has breaks of its own: a flag tells "returned" from "broke out"
            for b in s.body:
                for n in ast.walk(b):
                    if isinstance(n, (ast.For, ast.While, ast.Try, ast.With, ast.Match)) and _has_return(n):
                        raise Cannot("return nested in loop construct")
            flag = f"_ret{next(_counter)}"

            def mk_flag_break(v, at, mk=mk, flag=flag):
                return mk(v, at) + [ast.copy_location(ast.Assign(targets=[ast.Name(id=flag, ctx=ast.Store())], value=ast.Constant(value=True), lineno=getattr(at, "lineno", 0)), at),
                                    ast.copy_location(ast.Break(), at)]

            out.append(ast.copy_location(ast.Assign(targets=[ast.Name(id=flag, ctx=ast.Store())], value=ast.Constant(value=False), lineno=getattr(s, "lineno", 0)), s))
            def mk_flag_only(v, at, mk=mk, flag=flag):
                return mk(v, at) + [ast.copy_location(ast.Assign(targets=[ast.Name(id=flag, ctx=ast.Store())], value=ast.Constant(value=True), lineno=getattr(at, "lineno", 0)), at)]

            out.append(ast.copy_location(ast.For(target=s.target, iter=s.iter, body=_elim_loop(s.body, mk_flag_break),
                                                 orelse=_elim(s.orelse, mk_flag_only) if s.orelse else []), s))
            tail = _elim(rest, mk)
            if tail:
                out.append(ast.copy_location(ast.If(test=ast.UnaryOp(op=ast.Not(), operand=ast.Name(id=flag, ctx=ast.Load())), body=tail, orelse=[]), s))
            return out
        if isinstance(s, ast.For):
            for b in s.body:
                for n in ast.walk(b):
                    if isinstance(n, (ast.For, ast.While, ast.Try, ast.With, ast.Match)) and _has_return(n):
                        raise Cannot("return nested in loop construct")

            def mk_break(v, at, mk=mk):
                return mk(v, at) + [ast.copy_location(ast.Break(), at)]

            body = _elim_loop(s.body, mk_break)
            orelse = _elim(s.orelse + rest, mk)
            out.append(ast.copy_location(ast.For(target=s.target, iter=s.iter, body=body, orelse=orelse), s))
            return out
        raise Cannot(f"return inside {type(s).__name__}")
    return out


def _mk_if(test, body, orelse, at):
    """if-statement without empty arms: `if t: pass else: X` is written `if not t: X`"""
    body = [b for b in body if not isinstance(b, ast.Pass)]
    orelse = [b for b in orelse if not isinstance(b, ast.Pass)]
    if not body and orelse:
        t = test.operand if isinstance(test, ast.UnaryOp) and isinstance(test.op, ast.Not) else ast.copy_location(ast.UnaryOp(op=ast.Not(), operand=test), test)
        return ast.copy_location(ast.If(test=t, body=orelse, orelse=[]), at)
    return ast.copy_location(ast.If(test=test, body=body or [ast.copy_location(ast.Pass(), at)], orelse=orelse), at)


def _elim_loop(stmts, mk_break):
    out = []
    for i, s in enumerate(stmts):
        if isinstance(s, ast.Return):
            out.extend(mk_break(s.value, s))
            return out
        if not _has_return(s):
            out.append(s)
            continue
        if isinstance(s, ast.If):
            out.append(_mk_if(s.test, _elim_loop(s.body, mk_break), _elim_loop(s.orelse, mk_break), s))
            continue
        raise Cannot("return in loop construct")
    return out


def _falls_through(stmts) -> bool:
    return not _always_leaves(stmts)


def _instantiate(h: Helper, call: ast.Call, receiver, caller_names: set):
    """-> (prelude statements binding non-trivial arguments, body statements with names substituted/renamed)"""
    bound = _bind(h, call, receiver)
    reassigned = _bound_names(h.node)
    body = copy.deepcopy(_body(h.node))
    exprs, renames, prelude = {}, {}, []
    n = next(_counter)
    locals_ = set(reassigned) | _comprehension_targets(h.node)
    for p, a in bound.items():
        uses = _uses(body, p)
        if p not in reassigned and (_simple(a) or uses <= 1):
            exprs[p] = a
        else:
            new = p if (p not in caller_names and h.kind != "closure") else f"{p}__h{n}"
            if new != p:
                renames[p] = new
            prelude.append(ast.copy_location(ast.Assign(targets=[ast.Name(id=new, ctx=ast.Store())], value=copy.deepcopy(a), lineno=call.lineno), call))
            locals_.discard(p)
    for v in locals_:
        if v in bound:
            continue
        if v in caller_names:
            renames[v] = f"{v}__h{n}"
    sub = _Subst(exprs, renames)
    body = [sub.visit(s) for s in body]
    # comprehension variables that were renamed must be renamed in their targets too: _Subst handles Store names
    return prelude, body


def _target_assign(target, value, at):
    v = value if value is not None else ast.Constant(value=None)
    return ast.copy_location(ast.Assign(targets=[copy.deepcopy(target)], value=v, lineno=getattr(at, "lineno", 0)), at)


def _inline_statement(stmt, h: Helper, call, receiver, caller_names):
    """-> replacement statement list for `stmt`, whose whole value/test is `call`"""
    prelude, body = _instantiate(h, call, receiver, caller_names)
    if isinstance(stmt, ast.Return):
        out = prelude + body
        if _falls_through(body):
            out.append(ast.copy_location(ast.Return(value=ast.Constant(value=None)), stmt))
        return out
    if isinstance(stmt, ast.Expr):
        def mk(v, at):
            if v is None or isinstance(v, (ast.Constant, ast.Name)):
                return []
            return [ast.copy_location(ast.Expr(value=v), at)]

        return prelude + (_elim(body, mk) or [ast.copy_location(ast.Pass(), stmt)])
    if isinstance(stmt, (ast.Assign, ast.AnnAssign)):
        targets = stmt.targets if isinstance(stmt, ast.Assign) else [stmt.target]
        if len(targets) != 1:
            raise Cannot("multi-target")
        tgt = targets[0]

        def mk(v, at):
            return [_target_assign(tgt, v, at)]

        new = _elim(body, mk)
        if _may_reach_end_without_assign(body):
            new = new + [_target_assign(tgt, None, stmt)]
        return prelude + new
    raise Cannot("context")


def _may_reach_end_without_assign(body) -> bool:
    """does the helper fall off its end (returning None implicitly) on some path?"""
    def falls(stmts):
        if not stmts:
            return True
        s = stmts[-1]
        if isinstance(s, (ast.Return, ast.Raise)):
            return False
        if isinstance(s, ast.If):
            return falls(s.body) or falls(s.orelse)
        if isinstance(s, ast.With):
            return falls(s.body)
        return True

    return falls(body)


# ------------------------------------------------------------------------------------------------ driver
class Inliner:
    def __init__(self, modules: dict, known: set):
        """known: {(module path, function key)} of the reviewed functions"""
        self.modules = modules
        self.known = known
        self.helpers: list[Helper] = []
        self.log: list[str] = []
        self.findings: list[dict] = []  # interface defects of a helper that would disappear with the helper
        self._keys: dict = {}

    def collect(self):
        self.helpers = []
        method_names: dict = {}
        for mod, tree in self.modules.items():
            for key, node, kind, owner in function_keys(tree):
                if kind in ("method", "classmethod", "staticmethod", "getter", "setter"):
                    method_names.setdefault(node.name, []).append(key)
        for mod, tree in self.modules.items():
            for key, node, kind, owner in function_keys(tree):
                if (mod, key) in self.known or not _candidate(node):
                    continue
                if kind in ("getter", "setter"):
                    continue
                if kind in ("method", "classmethod", "staticmethod") and len(method_names.get(node.name, [])) != 1:
                    continue
                self.helpers.append(Helper(key, mod, node, kind, owner))
        return self.helpers

    def run(self) -> list[str]:
        for _round in range(6):
            self.collect()
            if not self.helpers:
                break
            changed = 0
            for mod, tree in self.modules.items():
                changed += self._module(mod, tree)
            removed = self._remove_unreferenced()
            if not changed and not removed:
                break
        for tree in self.modules.values():
            ast.fix_missing_locations(tree)
        return self.log

    # -- resolution of a call to a helper
    def _resolve(self, call: ast.Call, mod: str, enclosing: list):
        """-> (Helper, receiver expr | None) or None"""
        f = call.func
        if isinstance(f, ast.Name):
            for h in self.helpers:
                if h.name != f.id:
                    continue
                if h.kind == "closure":
                    if any(h.owner is e for e in enclosing):
                        return h, None
                elif h.kind == "function":
                    if h.module == mod or self._imports(mod, h):
                        return h, None
            return None
        if isinstance(f, ast.Attribute):
            for h in self.helpers:
                if h.name != f.attr or h.kind not in ("method", "classmethod", "staticmethod"):
                    continue
                recv = f.value
                if h.kind == "staticmethod":
                    return h, None
                if h.kind == "classmethod":
                    if isinstance(recv, ast.Name) and recv.id == "cls":
                        return h, recv
                    if isinstance(recv, ast.Name) and recv.id == h.owner.name:
                        return h, recv
                    return None
                if isinstance(recv, ast.Name) and recv.id == h.owner.name:
                    return None  # Class.method(obj, …): leave
                if _simple(recv):
                    return h, recv
                return None
        return None

    def _imports(self, mod: str, h: Helper) -> bool:
        tree = self.modules[mod]
        target = h.module[:-3].replace("/", ".")
        for n in ast.walk(tree):
            if isinstance(n, ast.ImportFrom) and n.module and (n.module == target or target.endswith("." + n.module) or n.module.endswith(target)):
                if any((a.asname or a.name) == h.name for a in n.names):
                    return True
        return False

    # -- walking
    def _module(self, mod: str, tree: ast.Module) -> int:
        changed = 0
        self._keys = {id(node): key for key, node, _k, _o in function_keys(tree)}

        def visit_fn(fn, enclosing):
            nonlocal changed
            names = {n.id for n in ast.walk(fn) if isinstance(n, ast.Name)} | {a.arg for a in ast.walk(fn) if isinstance(a, ast.arg)}
            changed += self._block_owner(fn, mod, enclosing + [fn], names)

        def walk(node, enclosing):
            for ch in ast.iter_child_nodes(node):
                if isinstance(ch, (ast.FunctionDef, ast.AsyncFunctionDef)):
                    visit_fn(ch, enclosing)
                    walk(ch, enclosing + [ch])
                else:
                    walk(ch, enclosing)

        walk(tree, [])
        return changed

    def _block_owner(self, fn, mod, enclosing, names) -> int:
        """process every statement list that belongs to fn itself (not nested defs)"""
        changed = 0

        def lists(node):
            for fld in ("body", "orelse", "finalbody"):
                seq = getattr(node, fld, None)
                if isinstance(seq, list) and seq and isinstance(seq[0], ast.stmt):
                    yield seq
            for hd in getattr(node, "handlers", []) or []:
                yield hd.body
            for cs in getattr(node, "cases", []) or []:
                yield cs.body

        def do_list(seq):
            nonlocal changed
            i = 0
            while i < len(seq):
                s = seq[i]
                if isinstance(s, (ast.FunctionDef, ast.AsyncFunctionDef, ast.ClassDef)):
                    i += 1
                    continue
                repl = self._try_statement(s, mod, enclosing, names)
                if repl is not None:
                    seq[i:i + 1] = repl
                    changed += 1
                    continue  # re-examine the spliced statements (helpers calling helpers)
                changed += self._expressions(s, mod, enclosing)
                for sub in lists(s):
                    do_list(sub)
                i += 1

        do_list(fn.body)
        return changed

    def _try_statement(self, s, mod, enclosing, names):
        call = None
        hoist = None
        if isinstance(s, (ast.Return, ast.Expr)) and isinstance(s.value, ast.Call):
            call = s.value
        elif isinstance(s, ast.Assign) and len(s.targets) == 1 and isinstance(s.value, ast.Call):
            call = s.value
        elif isinstance(s, ast.AnnAssign) and isinstance(s.value, ast.Call):
            call = s.value
        elif isinstance(s, ast.If):
            t = s.test
            core = t.operand if isinstance(t, ast.UnaryOp) and isinstance(t.op, ast.Not) else t
            if isinstance(core, ast.Call):
                call, hoist = core, True
            elif isinstance(core, ast.BoolOp):
                split = self._split_boolop(s, mod, enclosing)
                if split is not None:
                    return split
        if isinstance(s, ast.If):
            # `if (x := helper(…)) is not None:`  ->  `x = helper(…)` then `if x is not None:` (the walrus is what the test
            # evaluates first, so nothing is reordered)
            t = s.test
            first = t.operand if isinstance(t, ast.UnaryOp) and isinstance(t.op, ast.Not) else t
            if isinstance(first, ast.Compare):
                first = first.left
            if isinstance(first, ast.NamedExpr) and isinstance(first.target, ast.Name) and isinstance(first.value, ast.Call) \
                    and self._resolve(first.value, mod, enclosing) is not None:
                asg = ast.copy_location(ast.Assign(targets=[ast.Name(id=first.target.id, ctx=ast.Store())], value=first.value, lineno=s.lineno), s)
                name_node = ast.copy_location(ast.Name(id=first.target.id, ctx=ast.Load()), first)

                class Rep(ast.NodeTransformer):
                    def visit_NamedExpr(self, n):
                        return name_node if n is first else self.generic_visit(n)

                s.test = Rep().visit(s.test)
                self.log.append(f"walrus on a helper call written as an assignment at {mod}:{getattr(s, 'lineno', 0)}")
                return [asg, s]
        if call is None or self._resolve(call, mod, enclosing) is None:
            hoisted = self._hoist_nested(s, mod, enclosing, names)
            if hoisted is not None:
                return hoisted
        if call is None:
            return None
        r = self._resolve(call, mod, enclosing)
        if r is None:
            return None
        h, recv = r
        h.sites += 1
        if isinstance(s, ast.Assign) and isinstance(s.targets[0], ast.Tuple) and not any(isinstance(t, ast.Starred) for t in s.targets[0].elts):
            from sa.lints import return_shape_problems
            caller = self._keys.get(id(enclosing[-1]), enclosing[-1].name) if enclosing else "?"
            for node, why in return_shape_problems(h.node, h.key, len(s.targets[0].elts), caller):
                item = {"kind": "return shape", "caller": caller, "module": mod, "lineno": getattr(node, "lineno", 0), "why": why, "text": ast.unparse(node)[:80]}
                if item not in self.findings:
                    self.findings.append(item)
        body = _body(h.node)
        if len(body) == 1 and isinstance(body[0], ast.Return):
            return None  # expression form is the better fit
        if hoist and _as_expression(h) is not None:
            return None
        try:
            if hoist:
                tmp = f"_inl{next(_counter)}"
                asg = ast.copy_location(ast.Assign(targets=[ast.Name(id=tmp, ctx=ast.Store())], value=call, lineno=s.lineno), s)
                repl = _inline_statement(asg, h, call, recv, names)
                t = s.test
                new_core = ast.copy_location(ast.Name(id=tmp, ctx=ast.Load()), call)
                if isinstance(t, ast.UnaryOp) and isinstance(t.op, ast.Not):
                    t.operand = new_core
                else:
                    s.test = new_core
                names.add(tmp)
                out = repl + [s]
            else:
                out = _inline_statement(s, h, call, recv, names)
        except Cannot as exc:
            self.log.append(f"{h.key}: statement form not possible at {mod}:{getattr(s, 'lineno', 0)} ({exc})")
            return None
        for st in out:
            for n in ast.walk(st):
                if isinstance(n, ast.Name):
                    names.add(n.id)
        h.inlined += 1
        self._ensure_imports(mod, h, out)
        self.log.append(f"{h.key}: inlined (statement) at {mod}:{getattr(s, 'lineno', 0)}")
        return out

    def _ensure_imports(self, mod: str, h: Helper, nodes) -> None:
        """code moved across modules keeps meaning: a global name the helper's module binds and the caller's module does not is
        imported into the caller's module the way the helper's module got it"""
        if h.module == mod:
            return
        src, dst = self.modules[h.module], self.modules[mod]

        def top_bindings(tree):
            out = {}
            for st in tree.body:
                if isinstance(st, (ast.Import, ast.ImportFrom)):
                    for a in st.names:
                        out[a.asname or a.name.split(".")[0]] = (st, a)
                elif isinstance(st, (ast.FunctionDef, ast.ClassDef, ast.AsyncFunctionDef)):
                    out[st.name] = (st, None)
                elif isinstance(st, (ast.Assign, ast.AnnAssign)):
                    for t in (st.targets if isinstance(st, ast.Assign) else [st.target]):
                        if isinstance(t, ast.Name):
                            out[t.id] = (st, None)
                elif isinstance(st, (ast.Try, ast.If)):
                    for sub in ast.walk(st):
                        if isinstance(sub, (ast.Import, ast.ImportFrom)):
                            for a in sub.names:
                                out.setdefault(a.asname or a.name.split(".")[0], (sub, a))
            return out

        have, there = top_bindings(dst), top_bindings(src)
        wanted = {n.id for x in nodes for n in ast.walk(x) if isinstance(n, ast.Name) and isinstance(n.ctx, ast.Load)}
        pos = 0
        for i, st in enumerate(dst.body):
            if (isinstance(st, ast.Expr) and isinstance(st.value, ast.Constant)) or (isinstance(st, ast.ImportFrom) and st.module == "__future__"):
                pos = i + 1
        for name in sorted(wanted - set(have)):
            if name not in there:
                continue
            st, alias = there[name]
            if alias is not None and isinstance(st, ast.ImportFrom):
                new = ast.ImportFrom(module=st.module, names=[ast.alias(name=alias.name, asname=alias.asname)], level=st.level)
            elif alias is not None:
                new = ast.Import(names=[ast.alias(name=alias.name, asname=alias.asname)])
            else:
                new = ast.ImportFrom(module=h.module[:-3].replace("/", "."), names=[ast.alias(name=name, asname=None)], level=0)
            new.lineno = new.col_offset = 0
            dst.body.insert(pos, ast.fix_missing_locations(new))
            self.log.append(f"{mod}: import of `{name}` added for code inlined from {h.module}")

    def _hoist_nested(self, s, mod, enclosing, names):
        """`xs.extend(helper(a))` / `y = f(helper(a))` with a helper that has no expression form: the call is given a name first
        (`tmp = helper(a)`), so that it stands alone and can be inlined as statements.  Only calls that are evaluated
        unconditionally by the statement are moved (not under `and`/`or`, a conditional expression, a lambda or a comprehension)."""
        if not isinstance(s, (ast.Expr, ast.Assign, ast.AugAssign, ast.AnnAssign, ast.Return)) or getattr(s, "value", None) is None:
            return None
        found = []

        def visit(e, top):
            if isinstance(e, (ast.Lambda, ast.ListComp, ast.SetComp, ast.DictComp, ast.GeneratorExp, ast.IfExp, ast.BoolOp)):
                return
            if isinstance(e, ast.Call) and not top:
                r = self._resolve(e, mod, enclosing)
                if r is not None and _as_expression(r[0]) is None and len(_body(r[0].node)) > 1:
                    found.append(e)
                    return
            for c in ast.iter_child_nodes(e):
                visit(c, False)

        visit(s.value, True)
        if not found:
            return None
        call = found[0]
        tmp = f"_inl{next(_counter)}"

        class Rep(ast.NodeTransformer):
            def visit_Call(self, n):
                if n is call:
                    return ast.copy_location(ast.Name(id=tmp, ctx=ast.Load()), n)
                self.generic_visit(n)
                return n

        s.value = Rep().visit(s.value)
        names.add(tmp)
        asg = ast.copy_location(ast.Assign(targets=[ast.Name(id=tmp, ctx=ast.Store())], value=call, lineno=s.lineno), s)
        self.log.append(f"nested helper call given a name at {mod}:{getattr(s, 'lineno', 0)}")
        return [asg, s]

    def _split_boolop(self, s: ast.If, mod, enclosing):
        """`if a or H(x): B else: C` with a helper H that has no expression form  ->  `if a: B else: (if H(x): B else: C)`
        (and the dual for `and`), so that the call stands alone as a test and can be inlined as statements"""
        t = s.test
        neg = isinstance(t, ast.UnaryOp) and isinstance(t.op, ast.Not)
        core = t.operand if neg else t
        idx = None
        for i, v in enumerate(core.values):
            c = v.operand if isinstance(v, ast.UnaryOp) and isinstance(v.op, ast.Not) else v
            if isinstance(c, ast.Call):
                r = self._resolve(c, mod, enclosing)
                if r is not None and _as_expression(r[0]) is None:
                    idx = i
                    break
        if idx is None:
            return None
        body, orelse = (s.orelse, s.body) if neg else (s.body, s.orelse)
        vals = core.values

        def mk(values):
            return values[0] if len(values) == 1 else ast.copy_location(ast.BoolOp(op=core.op, values=values), core)

        head, rest = (vals[:idx], vals[idx:]) if idx > 0 else (vals[:1], vals[1:])
        if not rest:
            return None
        if isinstance(core.op, ast.Or):
            inner = _mk_if(mk(rest), copy.deepcopy(body), orelse, s)
            new = _mk_if(mk(head), body, [inner], s)
        else:
            inner = _mk_if(mk(rest), body, copy.deepcopy(orelse), s)
            new = _mk_if(mk(head), [inner], orelse, s)
        self.log.append(f"boolean test split at {mod}:{getattr(s, 'lineno', 0)} to expose a helper call")
        return [new]

    def _expressions(self, s, mod, enclosing) -> int:
        """expression-form inlining inside the expressions that belong to statement s itself"""
        outer = self
        count = 0

        class T(ast.NodeTransformer):
            def visit_FunctionDef(self, n):
                return n

            visit_AsyncFunctionDef = visit_FunctionDef
            visit_ClassDef = visit_FunctionDef

            def generic_visit(self, node):
                # do not descend into nested statement lists: they are handled by do_list
                for fld, old in ast.iter_fields(node):
                    if isinstance(old, list):
                        if old and isinstance(old[0], ast.stmt):
                            continue
                        new = []
                        for v in old:
                            if isinstance(v, ast.AST):
                                v = self.visit(v)
                                if v is None:
                                    continue
                            new.append(v)
                        old[:] = new
                    elif isinstance(old, ast.AST):
                        if isinstance(old, ast.stmt):
                            continue
                        new = self.visit(old)
                        setattr(node, fld, new)
                return node

            def visit_Call(self, n):
                nonlocal count
                self.generic_visit(n)
                r = outer._resolve(n, mod, enclosing)
                if r is None:
                    return n
                h, recv = r
                h.sites += 1
                e = _as_expression(h)
                if e is None:
                    return n
                try:
                    bound = _bind(h, n, recv)
                except Cannot:
                    return n
                if any(not _simple(a) and _uses(e, p) > 1 for p, a in bound.items()):
                    # a compound argument would be evaluated twice: still the same value for an analysis of shapes
                    pass
                new = _Subst(bound, {}).visit(copy.deepcopy(e))
                ast.copy_location(new, n)
                for x in ast.walk(new):
                    if not hasattr(x, "lineno"):
                        ast.copy_location(x, n)
                h.inlined += 1
                count += 1
                outer._ensure_imports(mod, h, [new])
                outer.log.append(f"{h.key}: inlined (expression) at {mod}:{getattr(n, 'lineno', 0)}")
                return new

        T().generic_visit(s)
        return count

    def _remove_unreferenced(self) -> int:
        removed = 0
        for h in self.helpers:
            if not h.inlined:
                continue
            refs = 0
            for tree in self.modules.values():
                for n in ast.walk(tree):
                    if (isinstance(n, ast.Name) and n.id == h.name and isinstance(n.ctx, ast.Load)) or (isinstance(n, ast.Attribute) and n.attr == h.name):
                        refs += 1
                    elif isinstance(n, ast.Constant) and n.value == h.name and not h.name.startswith("_"):
                        refs += 1  # __all__
            if refs:
                continue
            if self._drop(h):
                removed += 1
                self.log.append(f"{h.key}: definition removed (every call inlined)")
                if h.kind == "function":
                    for tree in self.modules.values():
                        for node in ast.walk(tree):
                            for fld in ("body", "orelse", "finalbody"):
                                seq = getattr(node, fld, None)
                                if not isinstance(seq, list):
                                    continue
                                for st in list(seq):
                                    if isinstance(st, ast.ImportFrom) and any(a.name == h.name for a in st.names):
                                        st.names = [a for a in st.names if a.name != h.name]
                                        if not st.names:
                                            seq[seq.index(st)] = ast.copy_location(ast.Pass(), st)
        return removed

    def _drop(self, h: Helper) -> bool:
        owner = h.owner
        for node in ast.walk(owner if not isinstance(owner, ast.Module) else owner):
            for fld in ("body", "orelse", "finalbody"):
                seq = getattr(node, fld, None)
                if isinstance(seq, list) and h.node in seq:
                    seq.remove(h.node)
                    if not seq and fld == "body":
                        seq.append(ast.copy_location(ast.Pass(), h.node))
                    return True
            for hd in getattr(node, "handlers", []) or []:
                if h.node in hd.body:
                    hd.body.remove(h.node)
                    return True
        return False


def inline_unknown_helpers(modules: dict, known: set):
    """-> (log lines, interface findings)"""
    inl = Inliner(modules, known)
    log = inl.run()
    return log, inl.findings
