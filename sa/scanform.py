"""The innermost-first scan of a scope chain, read as *what it denotes* rather than how it is spelled.

F is the chain handed in, outer-to-inner, filtered to scopes.  A scan visits positions p = n-1, n-2, …, 0 of F; at position p
the chain visible from that scope is the prefix F[:p+1] and the chain outside it is F[:p].  The scan may be written over
L = reversed(F) with enumerate (`L[i]`, `tuple(reversed(L[i:]))`), over F with a descending range (`F[d-1]`, `F[:d]`), … — all
of these are brought to affine expressions in the loop variable v and n = len(F):

    position   p(v, n)         of the scope examined in the iteration
    prefix     k(v, n)         of a chain expression (it denotes F[:k])
"""
from __future__ import annotations

import ast

from sa.model import norm
from sa.seqexpr import single_def_resolver


def _add(a, b, sg=1):
    out = dict(a)
    for k, v in b.items():
        out[k] = out.get(k, 0) + sg * v
    return {k: v for k, v in out.items() if v != 0}


class ScanForm:
    def __init__(self, fn: ast.FunctionDef, chain_param: str):
        self.fn, self.param = fn, chain_param
        self.resolve = single_def_resolver(fn)
        self.error: str | None = None
        self.loop = None
        self.L = None  # name of the list scanned
        self.L_rev = False  # L is reversed(F)
        self.v = None  # loop variable
        self.v0 = None  # affine first value of v
        self.step = 0
        self.scope_var = None
        self.pos_L = None  # affine index of the scope in L
        self._find()

    # ------------------------------------------------------------------ recognising the loop
    def _list_def(self, name: str):
        """(is a filtered copy of the chain parameter, reversed?)"""
        from sa.seqbuild import _rev
        d = self.resolve(name)
        if d is None:
            return None
        e = d
        rev = False
        while isinstance(e, ast.Call) and isinstance(e.func, ast.Name) and e.func.id in ("tuple", "list", "reversed") and len(e.args) == 1:
            if e.func.id == "reversed":
                rev = not rev
            e = e.args[0]
        if isinstance(e, (ast.ListComp, ast.GeneratorExp)) and len(e.generators) == 1 and norm(e.elt) == norm(e.generators[0].target):
            it, r2 = _rev(e.generators[0].iter)
            if norm(it) == self.param:
                return rev ^ r2
        if isinstance(e, ast.Name) and e.id == self.param:
            return rev
        return None

    def _is_len(self, e) -> bool:
        if isinstance(e, ast.Name):
            d = self.resolve(e.id)
            return d is not None and self._is_len(d)
        return isinstance(e, ast.Call) and isinstance(e.func, ast.Name) and e.func.id == "len" and len(e.args) == 1 \
            and isinstance(e.args[0], ast.Name) and e.args[0].id == self.L

    def aff(self, e):
        """affine form {'v': a, 'n': b, 1: c} of an index expression, or None"""
        if isinstance(e, ast.Constant) and isinstance(e.value, int) and not isinstance(e.value, bool):
            return {1: e.value} if e.value else {}
        if isinstance(e, ast.Name) and e.id == self.v:
            return {"v": 1}
        if self._is_len(e):
            return {"n": 1}
        if isinstance(e, ast.Name):
            d = self.resolve(e.id)
            return self.aff(d) if d is not None else None
        if isinstance(e, ast.UnaryOp) and isinstance(e.op, ast.USub):
            a = self.aff(e.operand)
            return None if a is None else _add({}, a, -1)
        if isinstance(e, ast.BinOp) and isinstance(e.op, (ast.Add, ast.Sub)):
            a, b = self.aff(e.left), self.aff(e.right)
            if a is None or b is None:
                return None
            return _add(a, b, 1 if isinstance(e.op, ast.Add) else -1)
        return None

    def _find(self):
        for s in self.fn.body:
            if not isinstance(s, ast.For):
                continue
            it = s.iter
            rev = False
            if isinstance(it, ast.Call) and isinstance(it.func, ast.Name) and it.func.id == "reversed" and len(it.args) == 1:
                it, rev = it.args[0], True
            if isinstance(it, ast.Call) and isinstance(it.func, ast.Name) and it.func.id == "enumerate" and it.args \
                    and isinstance(it.args[0], ast.Name) and isinstance(s.target, ast.Tuple) and len(s.target.elts) == 2 \
                    and all(isinstance(x, ast.Name) for x in s.target.elts) and not rev and len(it.args) == 1 and not it.keywords:
                lr = self._list_def(it.args[0].id)
                if lr is None:
                    continue
                self.loop, self.L, self.L_rev = s, it.args[0].id, lr
                self.v, self.scope_var = s.target.elts[0].id, s.target.elts[1].id
                self.v0, self.step, self.pos_L = {}, 1, {"v": 1}
                return
            if isinstance(it, ast.Call) and isinstance(it.func, ast.Name) and it.func.id == "range" and isinstance(s.target, ast.Name) and not it.keywords:
                # range(len(L)) / range(a, b, ±1); the list is the one whose length bounds the range
                lens = [x for x in ast.walk(it) if isinstance(x, ast.Call) and isinstance(x.func, ast.Name) and x.func.id == "len"
                        and len(x.args) == 1 and isinstance(x.args[0], ast.Name)]
                names = {x.args[0].id for x in lens} or {d_.args[0].id for a_ in ast.walk(it) if isinstance(a_, ast.Name)
                                                           for d_ in [self.resolve(a_.id)] if isinstance(d_, ast.Call) and isinstance(d_.func, ast.Name)
                                                           and d_.func.id == "len" and d_.args and isinstance(d_.args[0], ast.Name)}
                if len(names) != 1:
                    continue
                L = next(iter(names))
                lr = self._list_def(L)
                if lr is None:
                    continue
                self.L, self.L_rev, self.v = L, lr, s.target.id
                args = [self.aff(a) for a in it.args]
                if any(a is None for a in args):
                    self.error = f"the bounds of `{norm(s.iter)}` are not affine in len({L})"
                    return
                if len(args) == 1:
                    lo, hi, st = {}, args[0], 1
                elif len(args) == 2:
                    lo, hi, st = args[0], args[1], 1
                else:
                    lo, hi = args[0], args[1]
                    st = args[2].get(1, 0) if set(args[2]) <= {1} else 0
                if st not in (1, -1):
                    self.error = f"`{norm(s.iter)}` does not step by one"
                    return
                if rev:  # reversed(range(lo, hi, st)): starts at the last value
                    lo, st = _add(hi, {1: st}, -1), -st
                self.loop, self.v0, self.step = s, lo, st
                # the scope examined: the local assigned `L[e]` in the loop body
                cands = [d for d in s.body if isinstance(d, ast.Assign) and len(d.targets) == 1 and isinstance(d.targets[0], ast.Name)
                         and isinstance(d.value, ast.Subscript) and not isinstance(d.value.slice, ast.Slice)
                         and isinstance(d.value.value, ast.Name) and d.value.value.id == L]
                if len(cands) != 1 or self.aff(cands[0].value.slice) is None:
                    self.error = f"the scope examined in each iteration (`<scope> = {L}[<index>]`) was not found exactly once"
                    return
                self.scope_var, self.pos_L = cands[0].targets[0].id, self.aff(cands[0].value.slice)
                return
        self.error = self.error or "the scan over the (filtered) scope chain was not found: expected a top-level `for` over enumerate(<list>) or range(len(<list>))"

    # ------------------------------------------------------------------ denotations
    def position(self):
        """p(v, n): position in F of the scope examined"""
        if self.pos_L is None:
            return None
        return _add({"n": 1, 1: -1}, self.pos_L, -1) if self.L_rev else dict(self.pos_L)

    def innermost_first(self) -> bool:
        p = self.position()
        if p is None or self.v0 is None:
            return False
        cv = p.get("v", 0)
        # p at the first iteration: substitute v := v0
        first = _add({k: x for k, x in p.items() if k != "v"}, {k: cv * x for k, x in self.v0.items()})
        return first == {"n": 1, 1: -1} and cv * self.step == -1

    def prefix(self, e, depth: int = 0):
        """k such that the expression denotes F[:k] (affine), or None"""
        if depth > 8 or e is None:
            return None
        if isinstance(e, ast.Name):
            if e.id == self.L:
                return None if self.L_rev else {"n": 1}
            d = self.resolve(e.id)
            if d is None:
                d = self._loop_def(e.id)
            return self.prefix(d, depth + 1) if d is not None else None
        if isinstance(e, ast.Call) and isinstance(e.func, ast.Name) and e.func.id in ("tuple", "list") and len(e.args) == 1 and not e.keywords:
            return self.prefix(e.args[0], depth + 1)
        if isinstance(e, (ast.Tuple, ast.List)) and not e.elts:
            return {}
        if isinstance(e, ast.Call) and isinstance(e.func, ast.Name) and e.func.id in ("tuple", "list") and not e.args:
            return {}
        if isinstance(e, ast.Call) and isinstance(e.func, ast.Name) and e.func.id == "reversed" and len(e.args) == 1:
            return self._suffix_of_reversed(e.args[0], depth + 1)
        if isinstance(e, ast.Subscript) and isinstance(e.slice, ast.Slice) and e.slice.step is not None:
            st = e.slice.step
            if isinstance(st, ast.UnaryOp) and isinstance(st.op, ast.USub) and isinstance(st.operand, ast.Constant) and st.operand.value == 1 \
                    and e.slice.lower is None and e.slice.upper is None:
                return self._suffix_of_reversed(e.value, depth + 1)  # X[::-1]
            return None
        if isinstance(e, ast.Subscript) and isinstance(e.slice, ast.Slice) and e.slice.lower is None and e.slice.upper is not None:
            k = self.prefix(e.value, depth + 1)
            hi = self.aff(e.slice.upper)
            if k is None or hi is None:
                return None
            if set(hi) <= {1} and hi.get(1, 0) < 0:
                return _add(k, hi)  # dropping the last m
            return hi  # a prefix of a prefix (an out-of-range bound only clips)
        if isinstance(e, ast.IfExp):
            a, b = self.prefix(e.body, depth + 1), self.prefix(e.orelse, depth + 1)
            if a is not None and b == {}:
                return a  # `X if <in range> else ()`: an out-of-range slice is the empty tuple anyway
            if b is not None and a == {}:
                return b
            return a if a == b else None
        return None

    def _suffix_of_reversed(self, e, depth):
        """reversed(<e>) as a prefix of F: e must be a suffix L[a:] of L = reversed(F)"""
        while isinstance(e, ast.Call) and isinstance(e.func, ast.Name) and e.func.id in ("tuple", "list") and len(e.args) == 1:
            e = e.args[0]
        if isinstance(e, ast.Name) and e.id != self.L:
            d = self.resolve(e.id) or self._loop_def(e.id)
            return self._suffix_of_reversed(d, depth + 1) if d is not None and depth < 8 else None
        if not self.L_rev:
            return None
        if isinstance(e, ast.Name) and e.id == self.L:
            return {"n": 1}
        if isinstance(e, ast.Subscript) and isinstance(e.slice, ast.Slice) and e.slice.step is None and e.slice.upper is None \
                and isinstance(e.value, ast.Name) and e.value.id == self.L:
            lo = self.aff(e.slice.lower) if e.slice.lower is not None else {}
            return None if lo is None else _add({"n": 1}, lo, -1)
        return None

    def _loop_def(self, name: str):
        """the one assignment to `name` among the top-level statements of the loop body"""
        if self.loop is None:
            return None
        ds = [d for d in ast.walk(self.loop) if isinstance(d, ast.Assign) and len(d.targets) == 1 and isinstance(d.targets[0], ast.Name)
              and d.targets[0].id == name]
        return ds[0].value if len(ds) == 1 else None

    def is_chain(self, e) -> bool:
        """F[:p+1]: the chain up to and including the scope examined"""
        k, p = self.prefix(e), self.position()
        return k is not None and p is not None and k == _add(p, {1: 1})

    def is_outer(self, e) -> bool:
        k, p = self.prefix(e), self.position()
        return k is not None and p is not None and k == p
