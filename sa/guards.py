"""Index-safety guards: is a constant-index subscript `E[k]` reached only where `E` is known to be long enough?

Accepted evidence (all read off the syntax / control-flow graph):
  * a dominating branch edge on which `E` is true, or `len(E)` is compared against a sufficient bound;
  * an earlier operand of the same `and` / `or` chain, or the test of the enclosing conditional expression /
    comprehension filter, establishing the same fact;
  * `E` is `s.split(sep, ...)` / `s.rsplit(sep, ...)` with an explicit separator (never empty) for k in {0, -1};
  * for a nested function whose `E` does not depend on its own locals: every call site in the enclosing function is
    guarded in the same way.
"""
from __future__ import annotations

import ast

from sa.cfg import CFG, atoms, edges_establishing
from sa.model import Func, norm, local_names
from sa.util import parent_map


def const_index(sl: ast.AST) -> int | None:
    try:
        v = ast.literal_eval(sl)
    except Exception:
        return None
    return v if isinstance(v, int) and not isinstance(v, bool) else None


def needed_len(k: int) -> int:
    return k + 1 if k >= 0 else -k


def _len_bound(atom: ast.AST, truth: bool, text: str) -> int:
    """minimum length of `text` implied by the fact (atom == truth); 0 when nothing is implied"""
    if norm(atom) == text:
        return 1 if truth else 0
    if isinstance(atom, ast.Compare) and len(atom.ops) == 1:
        l, op, r = atom.left, atom.ops[0], atom.comparators[0]

        def is_len(x):
            return isinstance(x, ast.Call) and isinstance(x.func, ast.Name) and x.func.id == "len" and len(x.args) == 1 and norm(x.args[0]) == text

        def num(x):
            return x.value if isinstance(x, ast.Constant) and isinstance(x.value, int) and not isinstance(x.value, bool) else None

        if is_len(r) and num(l) is not None:
            flip = {ast.Lt: ast.Gt, ast.LtE: ast.GtE, ast.Gt: ast.Lt, ast.GtE: ast.LtE, ast.Eq: ast.Eq, ast.NotEq: ast.NotEq}
            l, r, op = r, l, flip.get(type(op), type(None))()
        if is_len(l) and num(r) is not None:
            n = num(r)
            if truth:
                if isinstance(op, ast.Gt):
                    return n + 1
                if isinstance(op, (ast.GtE, ast.Eq)):
                    return n
                if isinstance(op, ast.NotEq) and n == 0:
                    return 1
            else:
                if isinstance(op, ast.Lt):
                    return n
                if isinstance(op, ast.LtE):
                    return n + 1
                if isinstance(op, ast.Eq) and n == 0:
                    return 1
                if isinstance(op, ast.NotEq):
                    return n
    return 0


class Facts:
    """length facts with two expansions: a boolean local with a single definition stands for its defining expression;
    a call of a one-expression helper stands for the helper's return expression with the argument substituted"""

    def __init__(self, f: Func, prog=None):
        self.f = f
        self.prog = prog
        self.defs: dict[str, list] = {}
        top = f
        while top.parent is not None:
            top = top.parent
        self.top = top
        for n in ast.walk(f.node):
            if isinstance(n, ast.Assign) and len(n.targets) == 1 and isinstance(n.targets[0], ast.Name):
                self.defs.setdefault(n.targets[0].id, []).append(n.value)
            elif isinstance(n, (ast.AugAssign, ast.AnnAssign)) and isinstance(n.target, ast.Name):
                self.defs.setdefault(n.target.id, []).append(None)
            elif isinstance(n, (ast.For, ast.comprehension)):
                for x in ast.walk(n.target):
                    if isinstance(x, ast.Name):
                        self.defs.setdefault(x.id, []).append(None)

    def helper(self, name: str):
        g = self.f
        while g is not None:
            if name in g.nested:
                return g.nested[name]
            g = g.parent
        if self.prog is not None and name in self.prog.funcs and self.prog.funcs[name].cls is None:
            return self.prog.funcs[name]
        return None

    def bound(self, atom: ast.AST, truth: bool, text: str, depth: int = 0) -> int:
        b = _len_bound(atom, truth, text)
        if b or depth > 2:
            return b
        # `x is not None` / truthiness of a local defined as `<value> if <cond> else None`: the value is not None only where
        # <cond> held (and, for `None if <cond> else <value>`, where it did not)
        nm = None
        if isinstance(atom, ast.Compare) and len(atom.ops) == 1 and isinstance(atom.left, ast.Name) and isinstance(atom.comparators[0], ast.Constant) \
                and atom.comparators[0].value is None and ((isinstance(atom.ops[0], ast.IsNot) and truth) or (isinstance(atom.ops[0], ast.Is) and not truth)):
            nm = atom.left.id
        elif isinstance(atom, ast.Name) and truth:
            nm = atom.id
        if nm is not None and len(self.defs.get(nm, [])) == 1 and isinstance(self.defs[nm][0], ast.IfExp):
            d = self.defs[nm][0]
            is_none = lambda e: isinstance(e, ast.Constant) and e.value is None  # noqa: E731
            if is_none(d.orelse) and not is_none(d.body):
                got = max([self.bound(a, t, text, depth + 1) for a, t in atoms(d.test, True)] or [0])
                if got:
                    return got
            if is_none(d.body) and not is_none(d.orelse):
                got = max([self.bound(a, t, text, depth + 1) for a, t in atoms(d.test, False)] or [0])
                if got:
                    return got
        if isinstance(atom, ast.Name) and len(self.defs.get(atom.id, [])) == 1 and self.defs[atom.id][0] is not None:
            return max([self.bound(a, t, text, depth + 1) for a, t in atoms(self.defs[atom.id][0], truth)] or [0])
        if isinstance(atom, ast.Call) and isinstance(atom.func, ast.Name):
            h = self.helper(atom.func.id)
            if h is not None:
                body = [st for st in h.node.body if not (isinstance(st, ast.Expr) and isinstance(st.value, ast.Constant))]
                params = [a.arg for a in h.node.args.posonlyargs + h.node.args.args]
                tr = None
                for pn, a in list(zip(params, atom.args)) + [(k.arg, k.value) for k in atom.keywords if k.arg]:
                    if norm(a) == text:
                        tr = pn
                if tr is not None:
                    # every return of the helper that can be true must establish the fact
                    rets = [st for st in ast.walk(h.node) if isinstance(st, ast.Return)]
                    if rets and truth:
                        hf = Facts(h, self.prog)
                        hcfg = CFG(h.node)
                        ok_all = True
                        best = 10 ** 6
                        for rt in rets:
                            if rt.value is None or (isinstance(rt.value, ast.Constant) and not rt.value.value):
                                continue
                            got = max([hf.bound(a, t, tr, depth + 1) for a, t in atoms(rt.value, True)] or [0])
                            if not got:
                                node = hcfg.containing(rt)
                                edges = edges_establishing(hcfg, lambda a, t: hf.bound(a, t, tr, depth + 1) >= 1)
                                got = 1 if (node is not None and edges and hcfg.all_paths_pass(node, cut_edges=edges)) else 0
                            if not got:
                                ok_all = False
                                break
                            best = min(best, got)
                        if ok_all and best < 10 ** 6:
                            return best
        return 0


def _expr_level(sub: ast.Subscript, pm: dict, text: str, need: int, fx=None) -> bool:
    _lb = fx.bound if fx is not None else _len_bound
    cur = sub
    while cur in pm and isinstance(pm[cur], ast.expr) or (cur in pm and isinstance(pm[cur], ast.comprehension)):
        par = pm[cur]
        if isinstance(par, ast.BoolOp):
            idx = next(i for i, v in enumerate(par.values) if v is cur)
            truth = isinstance(par.op, ast.And)
            for v in par.values[:idx]:
                if any(_lb(a, t, text) >= need for a, t in atoms(v, truth)):
                    return True
        elif isinstance(par, ast.IfExp) and cur is not par.test:
            truth = cur is par.body
            if any(_lb(a, t, text) >= need for a, t in atoms(par.test, truth)):
                return True
        elif isinstance(par, (ast.ListComp, ast.GeneratorExp, ast.SetComp, ast.DictComp)):
            for g in par.generators:
                for c in g.ifs:
                    if cur is not c and any(_lb(a, t, text) >= need for a, t in atoms(c, True)):
                        return True
        cur = par
    return False


def _cfg_level(fn_node, cfg: CFG, at: ast.AST, text: str, need: int, fx=None) -> bool:
    _lb = fx.bound if fx is not None else _len_bound
    node = cfg.containing(at)
    if node is None:
        return False
    edges = edges_establishing(cfg, lambda a, t: _lb(a, t, text) >= need)
    if node.kind == "test":
        # facts of the same test evaluated before `at` are handled at expression level; the edge of the node itself does not count
        edges = [(n, l) for n, l in edges if n is not node]
    if not edges:
        return False
    return cfg.all_paths_pass(node, cut_edges=edges)


def guarded(f: Func, sub: ast.Subscript, cfgs: dict | None = None, prog=None) -> tuple[bool, str]:
    k = const_index(sub.slice)
    if k is None:
        return True, "not a constant index"
    need = needed_len(k)
    v = sub.value
    if isinstance(v, ast.Call) and isinstance(v.func, ast.Attribute) and v.func.attr in ("split", "rsplit", "partition", "rpartition") and v.args and need == 1:
        return True, "split with explicit separator"
    if isinstance(v, ast.Call) and isinstance(v.func, ast.Attribute) and v.func.attr in ("partition", "rpartition") and need <= 3:
        return True, "partition"
    text = norm(v)
    cfgs = cfgs if cfgs is not None else {}

    def cfg_of(g: Func) -> CFG:
        if g.key not in cfgs:
            cfgs[g.key] = CFG(g.node)
        return cfgs[g.key]

    pm = parent_map(f.node)
    fx = Facts(f, prog)
    if _expr_level(sub, pm, text, need, fx):
        return True, "same-expression guard"
    if _cfg_level(f.node, cfg_of(f), sub, text, need, fx):
        return True, "dominating branch"
    # literal / constructed non-empty local
    if isinstance(v, ast.Name):
        defs = [n for n in ast.walk(f.node) if isinstance(n, ast.Assign) and any(isinstance(t, ast.Name) and t.id == v.id for t in n.targets)]
        if defs and all(isinstance(d.value, (ast.List, ast.Tuple)) and len(d.value.elts) >= need and not any(isinstance(e, ast.Starred) for e in d.value.elts[:need])
                        for d in defs):
            return True, "non-empty literal"
        if defs and all(isinstance(d.value, ast.Call) and isinstance(d.value.func, ast.Attribute) and d.value.func.attr in ("split", "rsplit") and d.value.args
                        for d in defs) and need == 1:
            return True, "split result"
    # nested function: guard at every call site
    if f.parent is not None:
        own = local_names(f.node)
        free = {n.id for n in ast.walk(v) if isinstance(n, ast.Name)}
        if not (free & own):
            par = f.parent
            calls = [c for c in ast.walk(par.node) if isinstance(c, ast.Call) and isinstance(c.func, ast.Name) and c.func.id == f.node.name
                     and not any(c in ast.walk(g.node) for g in par.nested.values() if g is not f and False)]
            refs = [n for n in ast.walk(par.node) if isinstance(n, ast.Name) and n.id == f.node.name and isinstance(n.ctx, ast.Load)]
            if calls and len(refs) == len(calls):
                ppm = parent_map(par.node)
                ok = True
                for c in calls:
                    # the call may itself sit in another nested function: then judge inside that one
                    host = par
                    for g in par.nested.values():
                        if g is not f and any(x is c for x in ast.walk(g.node)):
                            host = g
                    hpm = ppm if host is par else parent_map(host.node)
                    fake = ast.Subscript(value=v, slice=sub.slice, ctx=ast.Load())
                    hfx = Facts(host, prog)
                    if not (_expr_level_at(c, hpm, text, need, hfx) or _cfg_level(host.node, cfg_of(host), c, text, need, hfx)):
                        ok = False
                        break
                if ok:
                    return True, "guarded at every call site"
    return False, "no guard found"


def _expr_level_at(node: ast.AST, pm: dict, text: str, need: int, fx=None) -> bool:
    _lb = fx.bound if fx is not None else _len_bound
    fake_parent_walk = node
    cur = fake_parent_walk
    while cur in pm and isinstance(pm[cur], (ast.expr, ast.comprehension)):
        par = pm[cur]
        if isinstance(par, ast.BoolOp):
            idx = next(i for i, v in enumerate(par.values) if v is cur)
            truth = isinstance(par.op, ast.And)
            for v in par.values[:idx]:
                if any(_lb(a, t, text) >= need for a, t in atoms(v, truth)):
                    return True
        elif isinstance(par, ast.IfExp) and cur is not par.test:
            if any(_lb(a, t, text) >= need for a, t in atoms(par.test, cur is par.body)):
                return True
        cur = par
    return False
