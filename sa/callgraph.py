"""M2: call resolution and a whole-package call graph.

Callees are resolved through imports (plain names), the MRO (`self.m()`, `cls.m()`, `super().m()`,
`Class.m()`), receiver types where a light local type inference knows them (annotations,
constructor assignment, isinstance narrowing is left to the interpreters), and -- for an unknown
receiver -- every package method of that name unless the name is a common builtin-container/str
method (listed).  Nested closures are callees of their definer when called by name.
"""
from __future__ import annotations

import ast

from sa.model import Func, Program, walk_no_nested

BUILTIN_METHOD_NAMES = {
    # str / bytes
    "startswith", "endswith", "strip", "lstrip", "rstrip", "split", "rsplit", "join", "replace", "decode", "encode",
    "count", "find", "rfind", "index", "lower", "upper", "isspace", "isidentifier", "splitlines", "format",
    "removesuffix", "removeprefix", "isdigit", "isalnum", "partition", "rpartition", "expandtabs", "zfill",
    # list / dict / set
    "append", "extend", "insert", "remove", "pop", "clear", "sort", "reverse", "copy", "get", "items", "keys",
    "values", "update", "add", "discard", "setdefault", "popitem",
    # re / pathlib / io / argparse / contextvars / tree-sitter
    "match", "search", "fullmatch", "compile", "group", "sub", "read", "read_text", "read_bytes", "write_text", "write",
    "is_absolute", "exists", "is_file", "resolve", "absolute", "expanduser", "relative_to", "with_suffix",
    "parse_args", "add_argument", "add_parser", "add_subparsers", "print_help", "interact", "set", "reset",
    "child_by_field_name", "parse", "language", "isatty",
}


class CallGraph:
    def __init__(self, prog: Program):
        self.prog = prog
        self.edges: dict[str, set[str]] = {}
        self.sites: dict[str, list[tuple[ast.Call, list[str]]]] = {}
        self.unresolved: dict[str, list[ast.Call]] = {}
        for f in prog.all_functions():
            self._scan(f)

    # -------------------------------------------------------------- local typing
    def local_types(self, f: Func) -> dict[str, str]:
        """name -> package class, from annotations and constructor assignments (flow-insensitive, single class only)."""
        prog = self.prog
        types: dict[str, set[str]] = {}

        def ann_class(a):
            if a is None:
                return None
            txt = ast.unparse(a).strip("'\"")
            txt = txt.replace('"', "").replace("'", "")
            for part in [p.strip() for p in txt.split("|")]:
                if part in prog.classes:
                    return part
            return None

        args = f.node.args
        for a in args.posonlyargs + args.args + args.kwonlyargs:
            c = ann_class(a.annotation)
            if a.arg == "self" and f.cls:
                c = f.cls
            if c:
                types.setdefault(a.arg, set()).add(c)
        for n in walk_no_nested(f.node):
            if isinstance(n, ast.AnnAssign) and isinstance(n.target, ast.Name):
                c = ann_class(n.annotation)
                if c:
                    types.setdefault(n.target.id, set()).add(c)
            elif isinstance(n, ast.Assign) and len(n.targets) == 1 and isinstance(n.targets[0], ast.Name):
                c = self._expr_class(f, n.value)
                types.setdefault(n.targets[0].id, set()).add(c or "?")
        return {k: next(iter(v)) for k, v in types.items() if len(v) == 1 and "?" not in v}

    def _expr_class(self, f: Func, e: ast.AST) -> str | None:
        prog = self.prog
        if isinstance(e, ast.Call):
            if isinstance(e.func, ast.Name):
                if e.func.id in prog.classes:
                    return e.func.id
                if e.func.id == "cast" and len(e.args) == 2:
                    t = ast.unparse(e.args[0]).strip("'\"")
                    return t if t in prog.classes else None
            if isinstance(e.func, ast.Attribute) and isinstance(e.func.value, ast.Name):
                if e.func.value.id in prog.classes and e.func.attr in ("from_cst", "from_dict", "_fast_construct"):
                    return e.func.value.id
                if e.func.value.id == "cls" and f.cls and e.func.attr in ("from_cst", "from_dict", "_fast_construct"):
                    return f.cls
            if isinstance(e.func, ast.Name) and e.func.id == "cls" and f.cls:
                return f.cls
        return None

    # -------------------------------------------------------------- resolution
    def resolve(self, f: Func, call: ast.Call, types: dict[str, str] | None = None) -> list[str] | None:
        """Keys of package functions this call may invoke; [] = external/builtin; None = unresolved internal."""
        prog = self.prog
        fn = call.func
        if isinstance(fn, ast.Name):
            name = fn.id
            # closure defined in an enclosing function
            g = f
            while g is not None:
                if name in g.nested:
                    return [g.nested[name].key]
                g = g.parent
            if prog.shadowed(f, name):
                return []  # a callback parameter
            tgt = prog.resolve_name(f.module, name)
            if tgt is None and name in prog.funcs and prog.funcs[name].cls is None:
                # function-local import
                for n in ast.walk(f.node):
                    if isinstance(n, ast.ImportFrom) and any((a.asname or a.name) == name for a in n.names):
                        tgt = prog.funcs[name]
            if tgt is None and name in prog.classes:
                for n in ast.walk(f.node):
                    if isinstance(n, ast.ImportFrom) and any((a.asname or a.name) == name for a in n.names):
                        tgt = prog.classes[name]
            if tgt is None:
                if name == "cls" and f.cls:
                    return self.ctor(f.cls)
                return []
            if isinstance(tgt, Func):
                return [tgt.key]
            return self.ctor(tgt.name)
        if isinstance(fn, ast.Attribute):
            m = fn.attr
            recv = fn.value
            # super().m()
            if isinstance(recv, ast.Call) and isinstance(recv.func, ast.Name) and recv.func.id == "super" and f.cls:
                for c in prog.mro(f.cls)[1:]:
                    t = prog.own_method(c, m)
                    if t:
                        return [t.key]
                return []
            if isinstance(recv, ast.Name):
                if recv.id in ("self", "cls") and f.cls:
                    outs = [g.key for g in prog.overriders(f.cls, m)]
                    if outs:
                        return outs
                    st = prog.setter(f.cls, m)
                    return [] if st is None else [st.key]
                if recv.id in prog.classes:
                    t = prog.method(recv.id, m)
                    return [t.key] if t else []
                if types and recv.id in types:
                    outs = [g.key for g in prog.overriders(types[recv.id], m)]
                    if outs:
                        return outs
                    if m in BUILTIN_METHOD_NAMES:
                        return []
            if m in BUILTIN_METHOD_NAMES and not self._package_has_method(m):
                return []
            outs = [g.key for g in prog.all_functions() if g.cls and g.name == m and g.kind != "setter" and g.kind != "closure"]
            if outs:
                # dynamic dispatch on an unknown receiver: every implementation
                return outs
            return []
        return []

    def _package_has_method(self, m: str) -> bool:
        return any(g.cls and g.name == m and g.kind != "closure" for g in self.prog.all_functions())

    def ctor(self, cname: str) -> list[str]:
        out = []
        for m in ("__new__", "__init__", "__post_init__"):
            t = self.prog.method(cname, m)
            if t:
                out.append(t.key)
        return out

    def _scan(self, f: Func) -> None:
        types = self.local_types(f)
        edges = self.edges.setdefault(f.key, set())
        sites = self.sites.setdefault(f.key, [])
        for n in walk_no_nested(f.node):
            if isinstance(n, ast.Call):
                r = self.resolve(f, n, types) or []
                sites.append((n, r))
                edges.update(r)
            elif isinstance(n, ast.Attribute) and isinstance(n.ctx, ast.Load):
                # property getters
                for c in self._recv_classes(f, n.value, types):
                    g = self.prog.method(c, n.attr)
                    if g is not None and g.kind == "getter":
                        edges.add(g.key)
            elif isinstance(n, ast.Attribute) and isinstance(n.ctx, ast.Store):
                for c in self._recv_classes(f, n.value, types):
                    g = self.prog.setter(c, n.attr)
                    if g is not None:
                        edges.add(g.key)
            elif isinstance(n, ast.Subscript):
                dunder = {"Load": "__getitem__", "Store": "__setitem__", "Del": "__delitem__"}[type(n.ctx).__name__]
                for c in self._recv_classes(f, n.value, types):
                    g = self.prog.method(c, dunder)
                    if g is not None:
                        edges.add(g.key)
        # a closure is reachable from its definer (it may be passed as a callback)
        for g in f.nested.values():
            edges.add(g.key)

    def _recv_classes(self, f: Func, recv: ast.AST, types) -> list[str]:
        if isinstance(recv, ast.Name):
            if recv.id == "self" and f.cls:
                return [f.cls]
            if recv.id in types:
                return [types[recv.id]]
        return []

    # -------------------------------------------------------------- queries
    def reachable(self, roots: list[str], stop: set[str] | None = None) -> set[str]:
        seen: set[str] = set()
        todo = list(roots)
        while todo:
            k = todo.pop()
            if k in seen or (stop and k in stop):
                continue
            seen.add(k)
            todo.extend(self.edges.get(k, ()))
        return seen
