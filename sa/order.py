"""Source-order analysis of concatenations in the renderers.

Every trivia slot and every rendered child has a place in the source text relative to its owner:

    X.before  <  X (its tokens and children)  <  X.after           and for a child c of X:   X.before < c.* < X.after

A concatenation (f-string, `+`, list display with `*`, `"".join([...])`, `apply_trailing_trivia(text, slot)`) lists pieces
in output order.  Each piece is traced to the slots it is derived from (through locals with their definitions, `list()`,
`format_trivia`, `coerce_expression`, `model_copy`, slices).  Two adjacent-or-not pieces whose slots are ordered by the
rule above must appear in that order; pieces whose slots are unrelated (siblings) are not judged.
"""
from __future__ import annotations

import ast

from sa.model import Func, norm, walk_no_nested

PASS_THROUGH = {"list", "tuple", "coerce_expression", "cast", "reversed_not", "trim_trailing_layout_newline", "trim_leading_layout_trivia",
                "str", "sorted_not"}
RENDER_OF_SLOT = {"format_trivia": 0, "format_interstitial_trivia": 0, "format_inline_comment_suffix": 0,
                  "format_interstitial_trivia_with_separator": 0}


class Order:
    def __init__(self, f: Func):
        self.f = f
        self.defs: dict[str, list] = {}
        root = f
        for n in ast.walk(f.node):
            if isinstance(n, ast.Assign):
                for t in n.targets:
                    if isinstance(t, ast.Name):
                        self.defs.setdefault(t.id, []).append(n.value)
                    elif isinstance(t, (ast.Tuple, ast.List)):
                        for x in ast.walk(t):
                            if isinstance(x, ast.Name):
                                self.defs.setdefault(x.id, []).append(None)
            elif isinstance(n, ast.AugAssign) and isinstance(n.target, ast.Name):
                self.defs.setdefault(n.target.id, []).append(None)
            elif isinstance(n, ast.AnnAssign) and isinstance(n.target, ast.Name):
                self.defs.setdefault(n.target.id, []).append(n.value)
            elif isinstance(n, (ast.For, ast.comprehension)):
                for x in ast.walk(n.target):
                    if isinstance(x, ast.Name):
                        self.defs.setdefault(x.id, []).append(None)
            elif isinstance(n, ast.NamedExpr):
                self.defs.setdefault(n.target.id, []).append(n.value)
        a = f.node.args
        self.params = {p.arg for p in a.posonlyargs + a.args + a.kwonlyargs}

    # ---------------------------------------------------------------- object paths
    def path(self, e: ast.AST, depth=0) -> tuple | None:
        """the document object an expression denotes, as an attribute path from `self` / a parameter"""
        if depth > 6:
            return None
        if isinstance(e, ast.Name):
            if e.id == "self" or (e.id in self.params and e.id not in self.defs):
                return (e.id,)
            ds = self.defs.get(e.id, [])
            if len(ds) == 1 and ds[0] is not None:
                return self.path(ds[0], depth + 1)
            if len(ds) > 1 and all(d is not None for d in ds):
                # definitions that only re-wrap the name itself (`x = x.model_copy(...)`) keep its identity
                def rewrap(d):
                    return isinstance(d, ast.Call) and isinstance(d.func, ast.Attribute) and d.func.attr == "model_copy" \
                        and isinstance(d.func.value, ast.Name) and d.func.value.id == e.id
                ps = {self.path(d, depth + 1) for d in ds if not rewrap(d)}
                if len(ps) == 1:
                    return ps.pop()
            return None
        if isinstance(e, ast.Attribute) and e.attr not in ("before", "after"):
            b = self.path(e.value, depth + 1)
            return b + (e.attr,) if b else None
        if isinstance(e, ast.Call):
            fn = e.func
            if isinstance(fn, ast.Name) and fn.id in ("coerce_expression", "cast") and e.args:
                return self.path(e.args[-1], depth + 1)
            if isinstance(fn, ast.Attribute) and fn.attr == "model_copy":
                return self.path(fn.value, depth + 1)
        return None

    # ---------------------------------------------------------------- label sequences
    def seq(self, e: ast.AST, depth=0) -> list:
        """ordered labels (path, kind) of the pieces of `e`; kind in before | after | body"""
        if e is None or depth > 8:
            return []
        if isinstance(e, ast.Attribute) and e.attr in ("before", "after"):
            p = self.path(e.value)
            return [(p, e.attr)] if p else []
        if isinstance(e, ast.Name):
            ds = self.defs.get(e.id, [])
            if len(ds) == 1 and ds[0] is not None:
                return self.seq(ds[0], depth + 1)
            if ds and all(d is not None for d in ds):
                # several definitions: a bag (each label may be present); relative order inside is not known
                bag = []
                for d in ds:
                    for lab in self.seq(d, depth + 1):
                        if lab not in bag:
                            bag.append(lab)
                return [("bag", tuple(bag))] if len(bag) > 1 else bag
            return []
        if isinstance(e, ast.JoinedStr):
            out = []
            for v in e.values:
                if isinstance(v, ast.FormattedValue):
                    out += self.seq(v.value, depth + 1)
            return out
        if isinstance(e, ast.BinOp) and isinstance(e.op, ast.Add):
            return self.seq(e.left, depth + 1) + self.seq(e.right, depth + 1)
        if isinstance(e, (ast.List, ast.Tuple)):
            out = []
            for x in e.elts:
                out += self.seq(x.value if isinstance(x, ast.Starred) else x, depth + 1)
            return out
        if isinstance(e, ast.Subscript) and isinstance(e.slice, ast.Slice):
            return self.seq(e.value, depth + 1)
        if isinstance(e, ast.IfExp):
            a, b = self.seq(e.body, depth + 1), self.seq(e.orelse, depth + 1)
            return a if a == b else ([("bag", tuple(dict.fromkeys(a + b)))] if (a or b) else [])
        if isinstance(e, ast.Call):
            fn = e.func
            name = fn.id if isinstance(fn, ast.Name) else (fn.attr if isinstance(fn, ast.Attribute) else None)
            if name in PASS_THROUGH and e.args:
                return self.seq(e.args[-1] if name == "cast" else e.args[0], depth + 1)
            if name in RENDER_OF_SLOT and e.args:
                return self.seq(e.args[0], depth + 1)
            if name == "apply_trailing_trivia" and len(e.args) >= 2:
                return self.seq(e.args[0], depth + 1) + self.seq(e.args[1], depth + 1)
            if name == "join" and isinstance(fn, ast.Attribute) and e.args and isinstance(e.args[0], (ast.List, ast.Tuple)):
                return self.seq(e.args[0], depth + 1)
            if name in ("rebuild", "_rebuild_operand", "simple_inline_preview", "_inline_preview") and isinstance(fn, ast.Attribute):
                p = self.path(fn.value)
                return [(p, "body")] if p else []
            if name in ("rstrip", "lstrip", "strip", "removesuffix", "removeprefix") and isinstance(fn, ast.Attribute):
                return self.seq(fn.value, depth + 1)
            # a local closure rendering one object: label by the argument's path
            if isinstance(fn, ast.Name) and fn.id in self.f.nested and e.args:
                p = self.path(e.args[0])
                return [(p, "body")] if p else []
        return []


def _flat(labels):
    out = []
    for lab in labels:
        if lab[0] == "bag":
            out.append(list(lab[1]))
        else:
            out.append([lab])
    return out


def precedes(a, b) -> bool | None:
    """True: a is before b in the source; False: after; None: unrelated"""
    (pa, ka), (pb, kb) = a, b
    rank = {"before": 0, "body": 1, "after": 2}
    if pa == pb:
        if ka == kb:
            return None
        return rank[ka] < rank[kb]
    if len(pb) > len(pa) and pb[:len(pa)] == pa:  # b is inside a
        if ka == "before":
            return True
        if ka == "after":
            return False
        return None
    if len(pa) > len(pb) and pa[:len(pb)] == pb:  # a is inside b
        if kb == "after":
            return True
        if kb == "before":
            return False
        return None
    return None


def misordered(labels) -> list:
    """pairs (earlier-in-output, later-in-output) that the source order contradicts"""
    groups = _flat(labels)
    bad = []
    for i in range(len(groups)):
        for j in range(i + 1, len(groups)):
            for a in groups[i]:
                for b in groups[j]:
                    if precedes(a, b) is False:
                        bad.append((a, b))
    return bad
